/-! Model of terminal numbering (C19). Core Lean only.

Go sources modelled:
* `internal/parsergen/lr1/grammar.go`: `NewGrammar` calls `AddTerminal("EOF")` then
  `AddTerminal("ERROR")`; `AddTerminal` gives the new terminal `Index = len(g.Terminals)` and appends.
* `internal/ast/lexer_token_rule.go` (`TokenRule.RunPass`, pass `CreateNames`),
  `internal/ast/external_rule.go` (`ExternalName.RunPass`): the only two other callers of
  `AddTerminal`, in AST traversal order.
* `internal/ast/lexer_mode.go`: the statements of a `@mode` block are visited in place.
* `internal/ast/spec.go`, `unit.go`: units in order, statements in order.
* `internal/ast/context.go` `RegisterName`: one name space for tokens, externals, modes, parser
  rules and macros; a redefinition is an error and the statement is skipped.
* `internal/codegen/emit_base.go`: `const ( {{ t.Name }} int = {{ i }} … )` and `_TokenToString`,
  both ranging over `Grammar.Terminals` with the slice index `i`. -/
namespace Lox.Dec.Terminals

/-- A statement of a `.lox` file, reduced to what the `CreateNames` pass looks at. -/
inductive Stmt where
  /-- `NAME = expr actions` (`ast.TokenRule`). -/
  | token (name : String)
  /-- `@external A B C` (`ast.ExternalRule` with its `ExternalName`s). -/
  | external (names : List String)
  /-- `@mode name { … }` (`ast.Mode`). -/
  | mode (name : String) (body : List Stmt)
  /-- Anything else: parser rule / `@macro` (`some name`: they call `RegisterName`), `@frag` (`none`). -/
  | other (name : Option String)
  deriving Repr, Inhabited

/-- `ast.Unit`: one file. -/
abbrev File := List Stmt
/-- `ast.Spec`: the files in the order the parser received them. -/
abbrev Spec := List File

mutual
/-- Names handed to `AddTerminal` below one statement, in traversal order. -/
def stmtNames : Stmt → List String
  | .token n => [n]
  | .external ns => ns
  | .mode _ body => stmtsNames body
  | .other _ => []
def stmtsNames : List Stmt → List String
  | [] => []
  | s :: ss => stmtNames s ++ stmtsNames ss
end

def specNames : Spec → List String
  | [] => []
  | f :: fs => stmtsNames f ++ specNames fs

/-- `Grammar.Terminals` (names) after an error-free `CreateNames` pass. -/
def terminals (s : Spec) : List String := "EOF" :: "ERROR" :: specNames s

/-- The `const` block of `base.gen.go`: terminal name ↦ its slice index. -/
def constBlock (ts : List String) : List (String × Nat) := ts.zipIdx

/-- The number the const block gives to a name (first match, as a Go compiler would insist on a
single one). -/
def constOf (ts : List String) (name : String) : Option Nat :=
  ((constBlock ts).find? (fun p => p.1 == name)).map (·.2)

/-- What `_TokenToString` prints for a terminal `(name, alias)`. (On the pinned tree
`lr1.Terminal.Alias` is never assigned, so the generator always passes `none`.) -/
def display (p : String × Option String) : String :=
  match p.2 with
  | some a => a
  | none => p.1

/-- `_TokenToString`: the `case` for constant `i` is the `i`-th terminal; `default: "???"`. -/
def tokenToString (ts : List (String × Option String)) (t : Nat) : String :=
  match ts[t]? with
  | some p => display p
  | none => "???"

/-! ### The `CreateNames` pass with its checks -/

def isNameChar (c : Char) : Bool := c.isUpper || c.isDigit || c == '_'

def hasDoubleUnderscore : List Char → Bool
  | '_' :: '_' :: _ => true
  | _ :: cs => hasDoubleUnderscore cs
  | [] => false

/-- `validateTokenName` on the characters of the name: `^[A-Z][A-Z0-9_]*$`, no trailing `_`, no
`__`, not reserved. -/
def validChars : List Char → Bool
  | [] => false
  | c :: cs =>
    c.isUpper && cs.all isNameChar && (c :: cs).getLast? != some '_' && !hasDoubleUnderscore (c :: cs)
      && (c :: cs) != ['E', 'O', 'F'] && (c :: cs) != ['E', 'R', 'R', 'O', 'R']

def validTokenName (n : String) : Bool := validChars n.toList

/-- The part of `ast.Context` that `CreateNames` reads and writes. -/
structure Ctx where
  /-- keys of `ctx.names` -/
  names : List String
  /-- `ctx.Grammar.Terminals` (names), in slice order -/
  terms : List String
  /-- `ctx.Errs.HasError()` -/
  err : Bool
  deriving Repr

/-- `NewContext`: `lr1.NewGrammar()` already holds EOF and ERROR; no name is registered. -/
def Ctx.init : Ctx := ⟨[], ["EOF", "ERROR"], false⟩

/-- `validateTokenName`, `RegisterName`, `AddTerminal` — body of both `TokenRule.RunPass` and
`ExternalName.RunPass` in pass `CreateNames`. -/
def declare (c : Ctx) (n : String) : Ctx :=
  if !validTokenName n then { c with err := true }
  else if c.names.contains n then { c with err := true }
  else { c with names := n :: c.names, terms := c.terms ++ [n] }

def declareAll (c : Ctx) : List String → Ctx
  | [] => c
  | n :: ns => declareAll (declare c n) ns

mutual
def runStmt (c : Ctx) : Stmt → Ctx
  | .token n => declare c n
  | .external ns => declareAll c ns
  | .mode n body =>
    -- `Mode.RunPass`: a redefined mode name returns before its rules are visited
    if c.names.contains n then { c with err := true }
    else runStmts { c with names := n :: c.names } body
  | .other (some n) =>
    if c.names.contains n then { c with err := true } else { c with names := n :: c.names }
  | .other none => c
def runStmts (c : Ctx) : List Stmt → Ctx
  | [] => c
  | s :: ss => runStmts (runStmt c s) ss
end

def runSpec (c : Ctx) : Spec → Ctx
  | [] => c
  | f :: fs => runSpec (runStmts c f) fs

/-- Pass `CreateNames` over a whole spec. -/
def createNames (s : Spec) : Ctx := runSpec Ctx.init s

end Lox.Dec.Terminals
