/-! Shared helpers for the line-protocol driver (core Lean only). -/
namespace Lox.Drv

/-- Parse a decimal integer with optional leading '-'. -/
def parseInt (s : String) : Option Int := s.toInt?

/-- Split on a separator and drop empty pieces (so "a  b" and trailing separators are fine). -/
def fields (s : String) (sep : Char) : List String :=
  (s.splitOn (String.singleton sep)).filter (· ≠ "")

/-- Space separated integers; `none` if any field is not an integer. -/
def parseInts (s : String) : Option (List Int) :=
  (fields s ' ').mapM parseInt

def parseNats (s : String) : Option (List Nat) :=
  (fields s ' ').mapM String.toNat?

/-- Sections separated by `sep`, each a space separated integer list. Empty sections are kept. -/
def parseSections (s : String) (sep : Char) : Option (List (List Int)) :=
  (s.splitOn (String.singleton sep)).mapM parseInts

def showInts (xs : List Int) : String := " ".intercalate (xs.map toString)
def showNats (xs : List Nat) : String := " ".intercalate (xs.map toString)

end Lox.Drv
