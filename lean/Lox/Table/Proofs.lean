import Lox.Table.Model
import Lox.LR.Model
/-! Helper lemmas for property C10 (table codec). Core Lean only.
The property theorems themselves are in `Lox/Props/C10.lean`. -/
namespace Lox.Table

/-! ### The store invariant -/

/-- `arr` holds, at `off`, a length-prefixed copy of `row`. -/
def StoredAt (arr : List Int) (off : Nat) (row : List Int) : Prop :=
  arr.drop off = ((row.length : Int) :: row) ++ arr.drop (off + 1 + row.length)

/-- Invariant of a table `t` into which exactly the rows `rows` (index, content) were added. -/
structure Inv (t : Tbl) (rows : List (Nat × List Int)) : Prop where
  maxI : ∀ i row, (i, row) ∈ rows → (i : Int) ≤ t.maxIndex
  neg : -1 ≤ t.maxIndex
  idx : ∀ i row, (i, row) ∈ rows → ∃ off, lookupIdx t.index i = some off ∧ StoredAt t.arr off row
  idxOnly : ∀ i off, lookupIdx t.index i = some off → ∃ row, (i, row) ∈ rows
  rmap : ∀ row off, lookupRow t.rowMap row = some off → StoredAt t.arr off row
  shared : ∀ i row, (i, row) ∈ rows → lookupRow t.rowMap row = lookupIdx t.index i

theorem storedAt_append {arr off row} (extra : List Int) (h : StoredAt arr off row)
    (hlt : off + 1 + row.length ≤ arr.length) : StoredAt (arr ++ extra) off row := by
  unfold StoredAt at *
  have h1 : off ≤ arr.length := by omega
  rw [List.drop_append_of_le_length h1, h, List.drop_append_of_le_length hlt]
  simp

theorem storedAt_bound {arr off row} (h : StoredAt arr off row) :
    off + 1 + row.length ≤ arr.length := by
  unfold StoredAt at h
  have := congrArg List.length h
  simp at this
  omega

/-- One offset holds one row. -/
theorem storedAt_inj {arr off r1 r2} (h1 : StoredAt arr off r1) (h2 : StoredAt arr off r2) :
    r1 = r2 := by
  unfold StoredAt at h1 h2
  rw [h1] at h2
  simp only [List.cons_append, List.cons.injEq] at h2
  obtain ⟨hl, happ⟩ := h2
  have hl' : r1.length = r2.length := by omega
  exact (List.append_inj happ hl').1

theorem storedAt_new (arr row : List Int) :
    StoredAt (arr ++ (row.length : Int) :: row) arr.length row := by
  unfold StoredAt
  simp
  omega

theorem lookupIdx_cons (i off : Nat) (m : List (Nat × Nat)) (j : Nat) :
    lookupIdx ((i, off) :: m) j = if i = j then some off else lookupIdx m j := by
  simp only [lookupIdx, List.find?_cons]
  by_cases e : i = j <;> simp [e]

theorem lookupRow_cons (r : List Int) (off : Nat) (m : List (List Int × Nat)) (r' : List Int) :
    lookupRow ((r, off) :: m) r' = if r = r' then some off else lookupRow m r' := by
  simp only [lookupRow, List.find?_cons]
  by_cases e : r = r' <;> simp [e]

theorem inv_empty : Inv {} [] := by
  constructor <;> simp [lookupIdx, lookupRow]

theorem Inv.congr {t l l'} (h : Inv t l) (hm : ∀ x, x ∈ l' ↔ x ∈ l) : Inv t l' := by
  constructor
  · intro i row hi; exact h.maxI i row ((hm _).1 hi)
  · exact h.neg
  · intro i row hi; exact h.idx i row ((hm _).1 hi)
  · intro i off hi
    obtain ⟨row, hr⟩ := h.idxOnly i off hi
    exact ⟨row, (hm _).2 hr⟩
  · exact h.rmap
  · intro i row hi; exact h.shared i row ((hm _).1 hi)

theorem addRow_maxIndex {t i row t'} (ha : addRow t i row = some t') : t'.maxIndex = i := by
  unfold addRow at ha
  split at ha
  · cases ha
  · split at ha <;> (cases ha; rfl)

theorem addRow_isSome (t : Tbl) (i : Nat) (row : List Int) :
    (addRow t i row).isSome ↔ t.maxIndex < (i : Int) := by
  unfold addRow
  split
  · simp; omega
  · split <;> simp <;> omega

theorem inv_addRow {t rows i row t'} (h : Inv t rows) (ha : addRow t i row = some t') :
    Inv t' ((i, row) :: rows) := by
  unfold addRow at ha
  split at ha
  · cases ha
  rename_i hgt
  have hgt' : t.maxIndex < (i : Int) := by omega
  have hfresh : lookupIdx t.index i = none := by
    cases hl : lookupIdx t.index i with
    | none => rfl
    | some off =>
      obtain ⟨r, hr⟩ := h.idxOnly _ _ hl
      have := h.maxI _ _ hr
      omega
  have hne : ∀ j r, (j, r) ∈ rows → i ≠ j := by
    intro j r hj e
    subst e
    obtain ⟨o, ho, _⟩ := h.idx _ _ hj
    rw [hfresh] at ho
    cases ho
  split at ha
  · rename_i off hoff
    have hst := h.rmap _ _ hoff
    cases ha
    constructor
    · intro j r hj
      simp only [List.mem_cons, Prod.mk.injEq] at hj
      rcases hj with ⟨rfl, rfl⟩ | hj
      · exact Int.le_refl _
      · have := h.maxI _ _ hj
        show (j : Int) ≤ (i : Int)
        omega
    · show (-1 : Int) ≤ (i : Int); omega
    · intro j r hj
      simp only [List.mem_cons, Prod.mk.injEq] at hj
      rcases hj with ⟨rfl, rfl⟩ | hj
      · exact ⟨off, by simp [lookupIdx_cons], hst⟩
      · obtain ⟨o, ho, hs⟩ := h.idx _ _ hj
        refine ⟨o, ?_, hs⟩
        show lookupIdx ((i, off) :: t.index) j = some o
        rw [lookupIdx_cons, if_neg (hne j r hj), ho]
    · intro j o hj
      change lookupIdx ((i, off) :: t.index) j = some o at hj
      rw [lookupIdx_cons] at hj
      by_cases e : i = j
      · subst e; exact ⟨row, by simp⟩
      · rw [if_neg e] at hj
        obtain ⟨r, hr⟩ := h.idxOnly j o hj
        exact ⟨r, by simp [hr]⟩
    · exact h.rmap
    · intro j r hj
      simp only [List.mem_cons, Prod.mk.injEq] at hj
      show lookupRow t.rowMap r = lookupIdx ((i, off) :: t.index) j
      rw [lookupIdx_cons]
      rcases hj with ⟨rfl, rfl⟩ | hj
      · simp [hoff]
      · rw [if_neg (hne j r hj)]
        exact h.shared _ _ hj
  · rename_i hnone
    cases ha
    have hnew := storedAt_new t.arr row
    constructor
    · intro j r hj
      simp only [List.mem_cons, Prod.mk.injEq] at hj
      rcases hj with ⟨rfl, rfl⟩ | hj
      · exact Int.le_refl _
      · have := h.maxI _ _ hj
        show (j : Int) ≤ (i : Int)
        omega
    · show (-1 : Int) ≤ (i : Int); omega
    · intro j r hj
      simp only [List.mem_cons, Prod.mk.injEq] at hj
      rcases hj with ⟨rfl, rfl⟩ | hj
      · exact ⟨t.arr.length, by simp [lookupIdx_cons], hnew⟩
      · obtain ⟨o, ho, hs⟩ := h.idx _ _ hj
        refine ⟨o, ?_, storedAt_append _ hs (storedAt_bound hs)⟩
        show lookupIdx ((i, t.arr.length) :: t.index) j = some o
        rw [lookupIdx_cons, if_neg (hne j r hj), ho]
    · intro j o hj
      change lookupIdx ((i, t.arr.length) :: t.index) j = some o at hj
      rw [lookupIdx_cons] at hj
      by_cases e : i = j
      · subst e; exact ⟨row, by simp⟩
      · rw [if_neg e] at hj
        obtain ⟨r, hr⟩ := h.idxOnly j o hj
        exact ⟨r, by simp [hr]⟩
    · intro r o hr
      change lookupRow ((row, t.arr.length) :: t.rowMap) r = some o at hr
      rw [lookupRow_cons] at hr
      by_cases e : row = r
      · subst e; simp at hr; subst hr; exact hnew
      · rw [if_neg e] at hr
        have hs := h.rmap r o hr
        exact storedAt_append _ hs (storedAt_bound hs)
    · intro j r hj
      simp only [List.mem_cons, Prod.mk.injEq] at hj
      show lookupRow ((row, t.arr.length) :: t.rowMap) r = lookupIdx ((i, t.arr.length) :: t.index) j
      rw [lookupIdx_cons, lookupRow_cons]
      rcases hj with ⟨rfl, rfl⟩ | hj
      · simp
      · rw [if_neg (hne j r hj)]
        have hsh := h.shared _ _ hj
        have hner : row ≠ r := by
          intro e; subst e
          obtain ⟨o, ho, _⟩ := h.idx _ _ hj
          rw [hnone, ho] at hsh
          cases hsh
        rw [if_neg hner]
        exact hsh

theorem inv_addRows {rows : List (Nat × List Int)} : ∀ {t acc t'}, Inv t acc → addRows t rows = some t' →
    Inv t' (rows ++ acc) := by
  induction rows with
  | nil => intro t acc t' h ha; simp only [addRows, Option.some.injEq] at ha; subst ha; simpa using h
  | cons x rest ih =>
    intro t acc t' h ha
    obtain ⟨i, row⟩ := x
    simp only [addRows] at ha
    split at ha
    · cases ha
    · rename_i t1 h1
      have := ih (inv_addRow h h1) ha
      refine this.congr ?_
      intro y
      simp only [List.mem_append, List.mem_cons]
      constructor
      · rintro ((h | h) | h)
        · exact Or.inr (Or.inl h)
        · exact Or.inl h
        · exact Or.inr (Or.inr h)
      · rintro (h | h | h)
        · exact Or.inl (Or.inr h)
        · exact Or.inl (Or.inl h)
        · exact Or.inr h

theorem addRows_maxIndex {rows : List (Nat × List Int)} : ∀ {t t'}, addRows t rows = some t' →
    t'.maxIndex = match rows.getLast? with | some (i, _) => (i : Int) | none => t.maxIndex := by
  induction rows with
  | nil => intro t t' ha; simp only [addRows, Option.some.injEq] at ha; subst ha; rfl
  | cons x rest ih =>
    intro t t' ha
    obtain ⟨i, row⟩ := x
    simp only [addRows] at ha
    split at ha
    · cases ha
    · rename_i t1 h1
      rw [ih ha]
      cases rest with
      | nil => simp [addRow_maxIndex h1]
      | cons y ys =>
        cases hl : (y :: ys).getLast? with
        | none => simp at hl
        | some z => simp [List.getLast?_cons_cons, hl]

theorem addRows_numSlots {rows t'} (ha : addRows {} rows = some t') :
    (t'.maxIndex + 1).toNat = numSlots rows := by
  rw [addRows_maxIndex ha]
  unfold numSlots
  split <;> simp_all <;> rfl

/-- `addRows` succeeds exactly when the indices increase strictly, starting above `maxIndex`. -/
theorem addRows_isSome {rows : List (Nat × List Int)} : ∀ {t : Tbl},
    (addRows t rows).isSome ↔
      (∀ i : Nat, i ∈ rows.map (·.1) → t.maxIndex < (i : Int)) ∧ (rows.map (·.1)).Pairwise (· < ·) := by
  induction rows with
  | nil => intro t; simp [addRows]
  | cons x rest ih =>
    intro t
    obtain ⟨i, row⟩ := x
    simp only [addRows]
    split
    · rename_i hnone
      have hn : ¬ (addRow t i row).isSome := by simp [hnone]
      rw [addRow_isSome] at hn
      constructor
      · intro h; cases h
      · rintro ⟨h, _⟩
        exact absurd (h i (by simp)) hn
    · rename_i t1 h1
      have hs : (addRow t i row).isSome := by simp [h1]
      rw [addRow_isSome] at hs
      rw [ih, addRow_maxIndex h1]
      simp only [List.map_cons, List.mem_cons, forall_eq_or_imp, List.pairwise_cons]
      constructor
      · rintro ⟨ha, hp⟩
        refine ⟨⟨hs, ?_⟩, ?_, hp⟩
        · intro j hj
          have := ha j hj
          omega
        · intro j hj
          have := ha j hj
          omega
      · rintro ⟨⟨_, _⟩, hlt, hp⟩
        refine ⟨?_, hp⟩
        intro j hj
        have := hlt j hj
        omega

/-! ### Reading the emitted array -/

def idxVec (t : Tbl) (n : Nat) : List Int :=
  (List.range n).map (fun i => match lookupIdx t.index i with
    | some off => (off + n : Int)
    | none => -1)

theorem array_eq (t : Tbl) : array t = idxVec t (t.maxIndex + 1).toNat ++ t.arr := rfl

theorem idxVec_length (t : Tbl) (n : Nat) : (idxVec t n).length = n := by simp [idxVec]

theorem idxVec_get (t : Tbl) (n i off : Nat) (hi : i < n) (h : lookupIdx t.index i = some off) :
    (idxVec t n)[i]? = some ((off + n : Nat) : Int) := by
  simp [idxVec, hi, h]

theorem idxVec_get_none (t : Tbl) (n i : Nat) (hi : i < n) (h : lookupIdx t.index i = none) :
    (idxVec t n)[i]? = some (-1) := by
  simp [idxVec, hi, h]

theorem array_get_idx (t : Tbl) (i : Nat) (hi : i < (t.maxIndex + 1).toNat) :
    (array t)[i]? = some (match lookupIdx t.index i with
      | some off => ((off + (t.maxIndex + 1).toNat : Nat) : Int)
      | none => -1) := by
  rw [array_eq, List.getElem?_append_left (by rw [idxVec_length]; exact hi)]
  cases h : lookupIdx t.index i with
  | some off => exact idxVec_get t _ i off hi h
  | none => exact idxVec_get_none t _ i hi h

theorem array_length (t : Tbl) : (array t).length = (t.maxIndex + 1).toNat + t.arr.length := by
  rw [array_eq, List.length_append, idxVec_length]

theorem array_drop (t : Tbl) (off : Nat) :
    (array t).drop (off + (t.maxIndex + 1).toNat) = t.arr.drop off := by
  rw [array_eq, List.drop_append]
  have : List.drop (off + (t.maxIndex + 1).toNat) (idxVec t (t.maxIndex + 1).toNat) = [] :=
    List.drop_eq_nil_of_le (by rw [idxVec_length]; omega)
  rw [this, idxVec_length]
  simp

theorem Inv.offset {t rows i row} (h : Inv t rows) (hm : (i, row) ∈ rows) :
    ∃ off, lookupIdx t.index i = some off ∧ StoredAt t.arr off row ∧
      (array t)[i]? = some ((off + (t.maxIndex + 1).toNat : Nat) : Int) := by
  obtain ⟨off, hoff, hst⟩ := h.idx _ _ hm
  have hi := h.maxI _ _ hm
  have hneg := h.neg
  refine ⟨off, hoff, hst, ?_⟩
  rw [array_get_idx t i (by omega), hoff]

theorem view_of_inv {t rows i row} (h : Inv t rows) (hm : (i, row) ∈ rows) :
    ∃ off : Nat, (array t)[i]? = some (off : Int) ∧
      (array t).drop off = ((row.length : Int) :: row) ++ (array t).drop (off + 1 + row.length) := by
  obtain ⟨off, _, hst, hget⟩ := h.offset hm
  refine ⟨off + (t.maxIndex + 1).toNat, hget, ?_⟩
  rw [array_drop]
  have : off + (t.maxIndex + 1).toNat + 1 + row.length = (off + 1 + row.length) + (t.maxIndex + 1).toNat := by
    omega
  rw [this, array_drop]
  exact hst

/-- `rowAt` from a view. -/
theorem rowAt_of_view {a : List Int} {i off : Nat} {row : List Int} (hget : a[i]? = some (off : Int))
    (hdrop : a.drop off = ((row.length : Int) :: row) ++ a.drop (off + 1 + row.length)) :
    rowAt a i = some row := by
  have hlen : off + 1 + row.length ≤ a.length := by
    have := congrArg List.length hdrop
    simp at this
    omega
  have e2 : a[off]? = some (row.length : Int) := by
    have := congrArg List.head? hdrop
    rw [List.head?_drop] at this
    rw [this]; simp
  have e3 : (a.drop (off + 1)).take row.length = row := by
    have : a.drop (off + 1) = (a.drop off).drop 1 := by rw [List.drop_drop]
    rw [this, hdrop]; simp
  unfold rowAt
  simp only [hget]
  have h1 : ¬ ((off : Int) < 0) := by omega
  simp only [h1, if_false, Int.toNat_natCast, e2]
  have h2 : ¬ ((row.length : Int) < 0) := by omega
  have h3 : ¬ (a.length < off + 1 + row.length) := by omega
  simp only [h2, h3, if_false, e3]

/-- Read-back: every added row is recovered from the emitted array by the `_Find` addressing. -/
theorem rowAt_array {t rows i row} (h : Inv t rows) (hm : (i, row) ∈ rows) :
    rowAt (array t) i = some row := by
  obtain ⟨off, hget, hdrop⟩ := view_of_inv h hm
  exact rowAt_of_view hget hdrop

theorem build_inv {rows a} (hb : build rows = some a) :
    ∃ t, Inv t rows ∧ a = array t ∧ (t.maxIndex + 1).toNat = numSlots rows := by
  unfold build at hb
  cases ha : addRows {} rows with
  | none => rw [ha] at hb; cases hb
  | some t =>
    rw [ha] at hb
    simp only [Option.map_some, Option.some.injEq] at hb
    refine ⟨t, ?_, hb.symm, addRows_numSlots ha⟩
    have := inv_addRows inv_empty ha
    simpa using this

/-! ### `_Find` on a key/value row -/

open Lox.LR in
def lookResult : Option Int → Look
  | some v => .hit v
  | none => .miss

theorem flattenPairs_length (ps : List (Int × Int)) : (flattenPairs ps).length = 2 * ps.length := by
  induction ps with
  | nil => rfl
  | cons p ps ih => obtain ⟨k, v⟩ := p; simp [flattenPairs, ih]; omega

theorem flattenTriples_length (ts : List (Int × Int × Int)) : (flattenTriples ts).length = 3 * ts.length := by
  induction ts with
  | nil => rfl
  | cons p ps ih => obtain ⟨b, e, s⟩ := p; simp [flattenTriples, ih]; omega

theorem drop_cons_get {a : List Int} {p : Nat} {k : Int} {tl : List Int} (h : a.drop p = k :: tl) :
    a[p]? = some k ∧ a.drop (p + 1) = tl := by
  constructor
  · have := congrArg List.head? h
    rw [List.head?_drop] at this
    simpa using this
  · have : a.drop (p + 1) = (a.drop p).drop 1 := by rw [List.drop_drop]
    rw [this, h]; rfl

theorem geti_toArray (a : List Int) (n : Nat) : Lox.LR.geti a.toArray (n : Int) = a[n]? := by
  unfold Lox.LR.geti
  have : ¬ ((n : Int) < 0) := by omega
  simp [this]

theorem geti_neg (a : Array Int) (i : Int) (h : i < 0) : Lox.LR.geti a i = none := by
  unfold Lox.LR.geti
  simp [h]

/-- The scan loop of `_Find` over a stretch of the array that holds the pairs `ps`. -/
theorem findScan_pairs (a : List Int) (x : Int) (ps : List (Int × Int)) :
    ∀ (p fuel : Nat) (rest : List Int), a.drop p = flattenPairs ps ++ rest → ps.length + 1 ≤ fuel →
      Lox.LR.findScan a.toArray x fuel (p : Int) ((p + 2 * ps.length : Nat) : Int)
        = lookResult (firstMatch ps x) := by
  induction ps with
  | nil =>
    intro p fuel rest _ hf
    obtain ⟨n, rfl⟩ : ∃ n, fuel = n + 1 := ⟨fuel - 1, by omega⟩
    simp [Lox.LR.findScan, firstMatch, lookResult]
  | cons kv ps ih =>
    intro p fuel rest hd hf
    obtain ⟨k, v⟩ := kv
    obtain ⟨n, rfl⟩ : ∃ n, fuel = n + 1 := ⟨fuel - 1, by simp at hf; omega⟩
    simp only [flattenPairs, List.cons_append] at hd
    obtain ⟨hk, hd1⟩ := drop_cons_get hd
    obtain ⟨hv, hd2⟩ := drop_cons_get hd1
    have hlt : (p : Int) < ((p + 2 * ((k, v) :: ps).length : Nat) : Int) := by
      simp only [List.length_cons]; omega
    have e1 : (p : Int) + 1 = ((p + 1 : Nat) : Int) := by omega
    have e2 : (p : Int) + 2 = ((p + 1 + 1 : Nat) : Int) := by omega
    have e3 : p + 2 * ((k, v) :: ps).length = (p + 1 + 1) + 2 * ps.length := by
      simp only [List.length_cons]; omega
    unfold Lox.LR.findScan
    rw [if_pos hlt, geti_toArray, hk]
    simp only [firstMatch]
    by_cases hx : k = x
    · rw [if_pos hx, if_pos hx, e1, geti_toArray, hv]; rfl
    · rw [if_neg hx, if_neg hx, e2, e3]
      exact ih (p + 1 + 1) n rest hd2 (by simp at hf; omega)

/-- `_Find` on an array in which index `i` leads to the key/value row `ps`. -/
theorem find_of_view {a : List Int} {i off : Nat} {ps : List (Int × Int)} (x : Int)
    (hget : a[i]? = some (off : Int))
    (hdrop : a.drop off = (((flattenPairs ps).length : Int) :: flattenPairs ps)
      ++ a.drop (off + 1 + (flattenPairs ps).length)) :
    Lox.LR.find a.toArray (i : Int) x = lookResult (firstMatch ps x) := by
  obtain ⟨hc, hd1⟩ := drop_cons_get hdrop
  unfold Lox.LR.find
  rw [geti_toArray, hget]
  simp only
  rw [geti_toArray, hc]
  simp only
  rw [flattenPairs_length]
  have e1 : (off : Int) + 1 = ((off + 1 : Nat) : Int) := by omega
  have e2 : ((off + 1 : Nat) : Int) + ((2 * ps.length : Nat) : Int)
      = ((off + 1 + 2 * ps.length : Nat) : Int) := by
    omega
  rw [e1, e2, Int.toNat_natCast]
  exact findScan_pairs a x ps (off + 1) _ _ hd1 (by simp; omega)

theorem firstMatch_mem {ps : List (Int × Int)} {k v : Int} (h : firstMatch ps k = some v) :
    (k, v) ∈ ps := by
  induction ps with
  | nil => simp [firstMatch] at h
  | cons p ps ih =>
    obtain ⟨k', v'⟩ := p
    simp only [firstMatch] at h
    split at h
    · rename_i e; cases h; subst e; simp
    · exact List.mem_cons_of_mem _ (ih h)

theorem firstMatch_none {ps : List (Int × Int)} {k : Int} :
    firstMatch ps k = none ↔ k ∉ ps.map (·.1) := by
  induction ps with
  | nil => simp [firstMatch]
  | cons p ps ih =>
    obtain ⟨k', v'⟩ := p
    simp only [firstMatch, List.map_cons, List.mem_cons, not_or]
    split
    · rename_i e; subst e; simp
    · rename_i e
      rw [ih]
      constructor
      · intro h; exact ⟨fun e' => e e'.symm, h⟩
      · intro h; exact h.2

theorem firstMatch_of_mem {ps : List (Int × Int)} {k v : Int}
    (hd : (ps.map (·.1)).Pairwise (· ≠ ·)) (h : (k, v) ∈ ps) : firstMatch ps k = some v := by
  induction ps with
  | nil => cases h
  | cons p ps ih =>
    obtain ⟨k', v'⟩ := p
    simp only [List.map_cons, List.pairwise_cons] at hd
    simp only [firstMatch]
    simp only [List.mem_cons, Prod.mk.injEq] at h
    rcases h with ⟨rfl, rfl⟩ | h
    · simp
    · have : k' ≠ k := hd.1 k (List.mem_map.2 ⟨(k, v), h, rfl⟩)
      rw [if_neg this]
      exact ih hd.2 h

/-- First-match semantics spelled out: the value of the first pair whose key is `k`. -/
theorem firstMatch_spec {ps : List (Int × Int)} {k v : Int} :
    firstMatch ps k = some v ↔
      ∃ pre post, ps = pre ++ (k, v) :: post ∧ k ∉ pre.map (·.1) := by
  induction ps with
  | nil => simp [firstMatch]
  | cons p ps ih =>
    obtain ⟨k', v'⟩ := p
    simp only [firstMatch]
    split
    · rename_i e
      subst e
      constructor
      · intro h; cases h; exact ⟨[], ps, rfl, by simp⟩
      · rintro ⟨pre, post, he, hn⟩
        cases pre with
        | nil => simp at he; rw [he.1]
        | cons q pre =>
          simp only [List.cons_append, List.cons.injEq] at he
          simp only [List.map_cons, List.mem_cons, not_or] at hn
          exact absurd (by rw [← he.1]) hn.1
    · rename_i e
      rw [ih]
      constructor
      · rintro ⟨pre, post, he, hn⟩
        refine ⟨(k', v') :: pre, post, by simp [he], ?_⟩
        simp only [List.map_cons, List.mem_cons, not_or]
        exact ⟨fun e' => e e'.symm, hn⟩
      · rintro ⟨pre, post, he, hn⟩
        cases pre with
        | nil => simp at he; exact absurd he.1.1 e
        | cons q pre =>
          simp at he
          refine ⟨pre, post, he.2, ?_⟩
          simp only [List.map_cons, List.mem_cons, not_or] at hn
          exact hn.2

/-! ### The Go row key is injective -/

theorem zigzag_inj {x y : Int} (h : zigzag x = zigzag y) : x = y := by
  unfold zigzag at h
  split at h <;> split at h <;> omega

/-- `zigzag` is the `uint64` computation of `binary.AppendVarint` on the whole `int64` range:
`ux := uint64(x) << 1` (mod 2^64), complemented (`2^64 - 1 - ux`) when `x < 0`. -/
theorem zigzag_eq_go (x : Int) (hlo : -9223372036854775808 ≤ x) (hhi : x ≤ 9223372036854775807) :
    (zigzag x : Int) =
      if x < 0 then 18446744073709551615 - ((x % 18446744073709551616) * 2 % 18446744073709551616)
      else (x % 18446744073709551616) * 2 % 18446744073709551616 := by
  unfold zigzag
  split <;> omega

theorem uvarintF_succ (f n : Nat) :
    uvarintF (f + 1) n = if n < 128 then [n] else (n % 128 + 128) :: uvarintF f (n / 128) := rfl

theorem uvarintF_fuel : ∀ (f1 f2 n : Nat), n < f1 → n < f2 → uvarintF f1 n = uvarintF f2 n := by
  intro f1
  induction f1 with
  | zero => intro f2 n h; omega
  | succ f1 ih =>
    intro f2 n h1 h2
    cases f2 with
    | zero => omega
    | succ f2 =>
      rw [uvarintF_succ, uvarintF_succ]
      split
      · rfl
      · rw [ih f2 (n / 128) (by omega) (by omega)]

/-- The loop of `binary.AppendUvarint`, one iteration at a time. -/
theorem uvarint_eq (n : Nat) :
    uvarint n = if n < 128 then [n] else (n % 128 + 128) :: uvarint (n / 128) := by
  show uvarintF (n + 1) n = if n < 128 then [n] else (n % 128 + 128) :: uvarintF (n / 128 + 1) (n / 128)
  rw [uvarintF_succ]
  split
  · rfl
  · rw [uvarintF_fuel n (n / 128 + 1) (n / 128) (by omega) (by omega)]

theorem uvarint_ne_nil (n : Nat) : uvarint n ≠ [] := by
  rw [uvarint_eq]; split <;> simp

/-- Every element of the key is a byte. -/
theorem uvarint_bytes (n : Nat) : ∀ b ∈ uvarint n, b < 256 := by
  induction n using Nat.strongRecOn with
  | ind n ih =>
    rw [uvarint_eq]
    split
    · intro b hb; simp at hb; omega
    · intro b hb
      simp only [List.mem_cons] at hb
      rcases hb with rfl | hb
      · omega
      · exact ih (n / 128) (by omega) b hb

/-- Varints form a prefix code: a byte string starts with at most one encoding. -/
theorem uvarint_prefix (n : Nat) : ∀ (m : Nat) (r1 r2 : List Nat),
    uvarint n ++ r1 = uvarint m ++ r2 → n = m ∧ r1 = r2 := by
  induction n using Nat.strongRecOn with
  | ind n ih =>
    intro m r1 r2 h
    rw [uvarint_eq n, uvarint_eq m] at h
    split at h <;> split at h
    · simp only [List.cons_append, List.nil_append, List.cons.injEq] at h
      exact h
    · simp only [List.cons_append, List.nil_append, List.cons.injEq] at h
      omega
    · simp only [List.cons_append, List.nil_append, List.cons.injEq] at h
      omega
    · simp only [List.cons_append, List.cons.injEq] at h
      obtain ⟨h1, h2⟩ := h
      obtain ⟨h3, h4⟩ := ih (n / 128) (by omega) (m / 128) r1 r2 h2
      exact ⟨by omega, h4⟩

theorem rowKeyBytes_inj : ∀ (xs ys : List Int), rowKeyBytes xs = rowKeyBytes ys → xs = ys := by
  intro xs
  induction xs with
  | nil =>
    intro ys h
    cases ys with
    | nil => rfl
    | cons y ys =>
      simp only [rowKeyBytes] at h
      have := uvarint_ne_nil (zigzag y)
      cases hu : uvarint (zigzag y) with
      | nil => exact absurd hu this
      | cons b bs => rw [hu] at h; simp at h
  | cons x xs ih =>
    intro ys h
    cases ys with
    | nil =>
      simp only [rowKeyBytes] at h
      have := uvarint_ne_nil (zigzag x)
      cases hu : uvarint (zigzag x) with
      | nil => exact absurd hu this
      | cons b bs => rw [hu] at h; simp at h
    | cons y ys =>
      simp only [rowKeyBytes] at h
      obtain ⟨h1, h2⟩ := uvarint_prefix _ _ _ _ h
      rw [zigzag_inj h1, ih ys h2]

/-! ### Lexer row codec -/

theorem takeTriples_flatten (ts : List (Int × Int × Int)) (rest : List Int) :
    takeTriples ts.length (flattenTriples ts ++ rest) = some (ts, rest) := by
  induction ts with
  | nil => rfl
  | cons t ts ih =>
    obtain ⟨b, e, s⟩ := t
    simp only [List.length_cons, flattenTriples, List.cons_append, takeTriples, ih]

theorem toPairs_flatten (ps : List (Int × Int)) : toPairs (flattenPairs ps) = some ps := by
  induction ps with
  | nil => rfl
  | cons p ps ih =>
    obtain ⟨k, v⟩ := p
    simp only [flattenPairs, toPairs, ih]

theorem takeTriples_sound : ∀ (n : Nat) (l : List Int) (ts : List (Int × Int × Int)) (rest : List Int),
    takeTriples n l = some (ts, rest) → ts.length = n ∧ l = flattenTriples ts ++ rest := by
  intro n
  induction n with
  | zero => intro l ts rest h; simp only [takeTriples, Option.some.injEq, Prod.mk.injEq] at h
            obtain ⟨rfl, rfl⟩ := h; exact ⟨rfl, rfl⟩
  | succ n ih =>
    intro l ts rest h
    match l, h with
    | b :: e :: s :: l', h =>
      simp only [takeTriples] at h
      split at h
      · rename_i ts' rest' h'
        simp only [Option.some.injEq, Prod.mk.injEq] at h
        obtain ⟨rfl, rfl⟩ := h
        obtain ⟨h1, h2⟩ := ih l' ts' rest' h'
        exact ⟨by simp [h1], by simp [flattenTriples, h2]⟩
      · cases h
    | [], h => simp [takeTriples] at h
    | [_], h => simp [takeTriples] at h
    | [_, _], h => simp [takeTriples] at h

theorem toPairs_sound : ∀ (n : Nat) (l : List Int) (ps : List (Int × Int)), l.length ≤ n →
    toPairs l = some ps → l = flattenPairs ps := by
  intro n
  induction n with
  | zero =>
    intro l ps hl h
    cases l with
    | nil => simp only [toPairs, Option.some.injEq] at h; subst h; rfl
    | cons _ _ => simp at hl
  | succ n ih =>
    intro l ps hl h
    match l, hl, h with
    | [], _, h => simp only [toPairs, Option.some.injEq] at h; subst h; rfl
    | [_], _, h => simp [toPairs] at h
    | k :: v :: l', hl, h =>
      simp only [toPairs] at h
      split at h
      · rename_i ps' h'
        simp only [Option.some.injEq] at h
        subst h
        have := ih l' ps' (by simp at hl; omega) h'
        simp [flattenPairs, this]
      · cases h

end Lox.Table
