import Lox.Drv.Common
import Lox.Table.Model
import Lox.LR.Model
/-! Driver ops of the Table vertical (protocol documented in /verif/harness/drv/ops_table.go).

`table.build32  i : r r r ; i : r r ; …`   rows with their indices, elements in the `int32` range
`table.buildu32 i : r r r ; …`             same, elements in the `uint32` range
    answer: the array `Array()` returns (space separated), or `PANIC index must be monotonically increasing`
`table.rowkey32 r r r` / `table.rowkeyu32 r r r`
    answer: the bytes of `rowKey(row)` as integers
`table.write32 x x x` / `table.writeu32 x x x`
    answer: the text `WriteArray` emits, newline shown as `/`
`table.rowat a a a … | i`      (model only) the row `_Find`/`PushRune` address at index `i`, or `oob`
`table.find a a a … | y x`     (model only) `_Find(table, y, x)`: `hit v`, `miss` or `oob`
`table.lexrow r r r …`         (model only) `decodeLexRow`: `flags | triples | pairs` or `bad`
A value outside the element type's range answers `bad-value` on both sides. -/
namespace Lox.Table
open Lox.Drv

def inI32 (x : Int) : Bool := -2147483648 ≤ x && x ≤ 2147483647
def inU32 (x : Int) : Bool := 0 ≤ x && x ≤ 4294967295

/-- `i : r r r` -/
def parseRow (s : String) : Option (Int × List Int) :=
  match s.splitOn ":" with
  | [i, r] => do
    let i ← parseInts i
    let r ← parseInts r
    match i with
    | [i] => some (i, r)
    | _ => none
  | _ => none

def parseRows (s : String) : Option (List (Int × List Int)) :=
  ((s.splitOn ";").filter (fun x => x.trimAscii.toString ≠ "")).mapM parseRow

def panicMsg : String := "PANIC index must be monotonically increasing"

def handleBuild (unsigned : Bool) (payload : String) : Option String := do
  let rows ← parseRows payload
  let ok := rows.all fun (_, r) => r.all (if unsigned then inU32 else inI32)
  if !ok then some "bad-value" else
  match buildI rows with
  | none => some panicMsg
  | some a => some (showInts (if unsigned then a.map castU32 else a))

def handleRowKey (unsigned : Bool) (payload : String) : Option String := do
  let r ← parseInts payload
  if !(r.all (if unsigned then inU32 else inI32)) then some "bad-value" else
  some (showNats (rowKeyBytes r))

def handleWrite (unsigned : Bool) (payload : String) : Option String := do
  let r ← parseInts payload
  if !(r.all (if unsigned then inU32 else inI32)) then some "bad-value" else
  some ((writeArray r).replace "\n" "/")

def handle (op payload : String) : Option String :=
  match op with
  | "table.build32" => handleBuild false payload
  | "table.buildu32" => handleBuild true payload
  | "table.rowkey32" => handleRowKey false payload
  | "table.rowkeyu32" => handleRowKey true payload
  | "table.write32" => handleWrite false payload
  | "table.writeu32" => handleWrite true payload
  | "table.rowat" =>
    match payload.splitOn "|" with
    | [a, i] => do
      let a ← parseInts a
      match ← parseNats i with
      | [i] => some (match rowAt a i with | some r => "row " ++ showInts r | none => "oob")
      | _ => none
    | _ => none
  | "table.find" =>
    match payload.splitOn "|" with
    | [a, yx] => do
      let a ← parseInts a
      match ← parseInts yx with
      | [y, x] => some (match Lox.LR.find a.toArray y x with
          | .hit v => "hit " ++ toString v
          | .miss => "miss"
          | .oob => "oob")
      | _ => none
    | _ => none
  | "table.lexrow" => do
    let r ← parseInts payload
    match decodeLexRow r with
    | none => some "bad"
    | some (f, ts, ps) =>
      some (toString f ++ " | " ++ showInts (flattenTriples ts) ++ " | " ++ showInts (flattenPairs ps))
  | _ => none

end Lox.Table
