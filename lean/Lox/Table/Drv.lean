import Lox.Drv.Common
/-! Driver ops of the Table vertical: `handle op payload` answers one protocol line, `none` = unknown op. -/
namespace Lox.Table

def handle (_op _payload : String) : Option String := none

end Lox.Table
