/-! Executable model of the row-compressed table of `internal/codegen/table.go`
(`newTable`, `AddRow`, `Array`, `rowKey`) and of the two row layouts stored in it
(`emit_parser.go`: `_actions`/`_goto` rows are key/value pairs read by `_Find`;
`emit_lexer.go`: `mode_table` rows are `flags, gotoCount, triples…, pairs…` read by `PushRune`).
Core Lean only.

Element type: Go instantiates `table[E]` with `E = int32` (parser) or `E = uint32` (lexer). The
model stores the mathematical integers; the only place where the two instantiations differ on
values the generator produces is the hole marker `E(-1)` of `Array`, which is `-1` for `int32`
and `4294967295` for `uint32` (`castU32`). Offsets and counts are assumed to fit the element type
(emitted arrays are shorter than 2^31). -/
namespace Lox.Table

/-- State of `table[E]` while rows are added. `index` (Go `map[int]int`) maps a row index to the
offset of its row in `arr`; `rowMap` (Go `map[string]int`, keyed by `rowKey(row)`) maps row
content to offset. Both are association lists, newest binding first. In the model the key of
`rowMap` is the row itself; `rowKeyBytes` below models the Go key and is proved injective. -/
structure Tbl where
  maxIndex : Int := -1
  rowMap : List (List Int × Nat) := []
  index : List (Nat × Nat) := []
  arr : List Int := []
  deriving Repr

def lookupRow (m : List (List Int × Nat)) (row : List Int) : Option Nat :=
  (m.find? (·.1 = row)).map (·.2)

def lookupIdx (m : List (Nat × Nat)) (i : Nat) : Option Nat :=
  (m.find? (·.1 = i)).map (·.2)

/-- `AddRow(index, row)`. Go panics with "index must be monotonically increasing" unless
`index > maxIndex`; that is `none`. A row whose key is already in `rowMap` is shared. -/
def addRow (t : Tbl) (i : Nat) (row : List Int) : Option Tbl :=
  if (i : Int) ≤ t.maxIndex then none else
  match lookupRow t.rowMap row with
  | some off => some { t with maxIndex := i, index := (i, off) :: t.index }
  | none => some { maxIndex := i
                   rowMap := (row, t.arr.length) :: t.rowMap
                   index := (i, t.arr.length) :: t.index
                   arr := t.arr ++ (row.length : Int) :: row }

/-- `AddRow` with a Go `int` index: `maxIndex ≥ -1` always, so a negative index panics. -/
def addRowI (t : Tbl) (i : Int) (row : List Int) : Option Tbl :=
  if i < 0 then none else addRow t i.toNat row

/-- `Array()`: the offset vector (`maxIndex+1` entries: offset rebased by `maxIndex+1`, or `-1`
for an index that was never added) followed by the row store. -/
def array (t : Tbl) : List Int :=
  let n := (t.maxIndex + 1).toNat
  (List.range n).map (fun i => match lookupIdx t.index i with
    | some off => (off + n : Int)
    | none => -1) ++ t.arr

/-- A sequence of `AddRow` calls on a table. -/
def addRows (t : Tbl) : List (Nat × List Int) → Option Tbl
  | [] => some t
  | (i, row) :: rest =>
    match addRow t i row with
    | none => none
    | some t' => addRows t' rest

def addRowsI (t : Tbl) : List (Int × List Int) → Option Tbl
  | [] => some t
  | (i, row) :: rest =>
    match addRowI t i row with
    | none => none
    | some t' => addRowsI t' rest

/-- `newTable()`, `AddRow` for every `(index, row)` in order, then `Array()`. `none` = panic. -/
def build (rows : List (Nat × List Int)) : Option (List Int) :=
  (addRows {} rows).map array

def buildI (rows : List (Int × List Int)) : Option (List Int) :=
  (addRowsI {} rows).map array

/-- Number of entries of the offset vector: last index + 1 (`maxIndex + 1`). -/
def numSlots (rows : List (Nat × List Int)) : Nat :=
  match rows.getLast? with
  | some (i, _) => i + 1
  | none => 0

/-- `uint32(x)` for the values `Array` produces (`-1` becomes `4294967295`). -/
def castU32 (x : Int) : Int := x % 4294967296

/-- Reading a row back the way `_Find`, `_makeError` and `PushRune` address it:
`off := a[i]; count := a[off]; row := a[off+1 .. off+1+count)`. `none` = index out of range. -/
def rowAt (a : List Int) (i : Nat) : Option (List Int) :=
  match a[i]? with
  | none => none
  | some off =>
    if off < 0 then none else
    match a[off.toNat]? with
    | none => none
    | some count =>
      if count < 0 then none else
      if a.length < off.toNat + 1 + count.toNat then none else
      some ((a.drop (off.toNat + 1)).take count.toNat)

/-- `WriteArray(w, xs)`: `"%d, "` per element, a newline before every 14th element but the first.
This is the text placed between the braces of `var _actions = []int32 { … }`. -/
def writeArrayFrom : Nat → List Int → String
  | _, [] => ""
  | i, x :: xs =>
    (if i ≠ 0 ∧ i % 14 = 0 then "\n" else "") ++ toString x ++ ", " ++ writeArrayFrom (i + 1) xs

def writeArray (xs : List Int) : String := writeArrayFrom 0 xs

/-! ### The Go row key: `binary.AppendVarint(key, int64(x))` for every element -/

/-- Zig-zag step of `binary.AppendVarint`: `ux := uint64(x) << 1; if x < 0 { ux = ^ux }`.
For `x` in the `int64` range this is `2x` for `x ≥ 0` and `-2x-1` for `x < 0`. -/
def zigzag (x : Int) : Nat := if x < 0 then (-2 * x - 1).toNat else (2 * x).toNat

/-- `binary.AppendUvarint`: `for x >= 0x80 { append(byte(x)|0x80); x >>= 7 }; append(byte(x))`,
with explicit fuel (10 bytes suffice for a `uint64`; `uvarint` passes `n + 1`). -/
def uvarintF : Nat → Nat → List Nat
  | 0, _ => []
  | fuel + 1, n => if n < 128 then [n] else (n % 128 + 128) :: uvarintF fuel (n / 128)

def uvarint (n : Nat) : List Nat := uvarintF (n + 1) n

/-- `rowKey(xs)`: the bytes of the map key. The argument holds the values `int64(x)`, i.e.
`-2^31 … 2^31-1` for `E = int32` and `0 … 2^32-1` for `E = uint32`. -/
def rowKeyBytes : List Int → List Nat
  | [] => []
  | x :: xs => uvarint (zigzag x) ++ rowKeyBytes xs

/-! ### Row layouts -/

/-- Parser rows (`emit_parser.go`, `actions`/`goto`): `key, value, key, value, …`. -/
def flattenPairs : List (Int × Int) → List Int
  | [] => []
  | (k, v) :: ps => k :: v :: flattenPairs ps

def flattenTriples : List (Int × Int × Int) → List Int
  | [] => []
  | (b, e, s) :: ts => b :: e :: s :: flattenTriples ts

/-- Lexer rows (`emit_lexer.go`, `mode_table`): `stateFlags, gotoCount, (rangeBegin, rangeEnd,
gotoState)*, (actionType, actionParam)*`. -/
def encodeLexRow (flags : Int) (triples : List (Int × Int × Int)) (pairs : List (Int × Int)) : List Int :=
  flags :: (triples.length : Int) :: (flattenTriples triples ++ flattenPairs pairs)

def takeTriples : Nat → List Int → Option (List (Int × Int × Int) × List Int)
  | 0, rest => some ([], rest)
  | n + 1, b :: e :: s :: rest =>
    match takeTriples n rest with
    | some (ts, rest') => some ((b, e, s) :: ts, rest')
    | none => none
  | _ + 1, _ => none

def toPairs : List Int → Option (List (Int × Int))
  | [] => some []
  | k :: v :: rest =>
    match toPairs rest with
    | some ps => some ((k, v) :: ps)
    | none => none
  | [_] => none

/-- The reading `PushRune` makes of a row: flags, `gotoN` triples, then pairs up to the end of the
row ("'actionCount' is determined by the amount of uint32 left in the row"). `none` when the row
is too short for its own `gotoCount` or the action section has odd length. -/
def decodeLexRow : List Int → Option (Int × List (Int × Int × Int) × List (Int × Int))
  | flags :: n :: rest =>
    if n < 0 then none else
    match takeTriples n.toNat rest with
    | none => none
    | some (ts, rest') =>
      match toPairs rest' with
      | none => none
      | some ps => some (flags, ts, ps)
  | _ => none

/-- First-match lookup in a key/value row: what `_Find` returns on a well-formed row. -/
def firstMatch : List (Int × Int) → Int → Option Int
  | [], _ => none
  | (k, v) :: ps, x => if k = x then some v else firstMatch ps x

end Lox.Table
