"""Shared machinery of /verif/bin/check (python3 stdlib only).

A check = (Lean side) property theorems kernel-checked + axiom audit
        + (tie) correspondence families / validators run against /repo's current working tree
        + (on any break) a counterexample search with the property's own oracle.
"""
import fcntl
import hashlib
import json
import os
import re
import shutil
import subprocess
import sys
import tempfile
import time

VERIF = os.environ.get("VERIF_HOME") or os.path.dirname(os.path.dirname(os.path.abspath(__file__)))
REPO = os.environ.get("VERIF_REPO", "/repo")
LEAN = VERIF + "/lean"
BUILD = VERIF + "/.build"
GOENV = {"GOFLAGS": "-mod=mod", "GOPROXY": "off", "GOSUMDB": "off", "GOTOOLCHAIN": "local"}
ALLOWED_AXIOMS = {"propext", "Classical.choice", "Quot.sound"}
FORBIDDEN = re.compile(r"\b(sorry|admit|native_decide|bv_decide|implemented_by|unsafe)\b|^axiom\s|maxHeartbeats\s+0")


def env():
    e = dict(os.environ)
    e.update(GOENV)
    return e


def sh(cmd, cwd=None, timeout=3600, stdin=None, check=False, extra_env=None):
    e = env()
    if extra_env:
        e.update(extra_env)
    p = subprocess.run(cmd, cwd=cwd, shell=isinstance(cmd, str), stdin=stdin, stdout=subprocess.PIPE,
                       stderr=subprocess.STDOUT, timeout=timeout, env=e)
    out = p.stdout.decode("utf-8", "replace")
    if check and p.returncode != 0:
        raise RuntimeError("command failed: %s\n%s" % (cmd, out[-4000:]))
    return p.returncode, out


class Lock:
    def __init__(self, name):
        os.makedirs(BUILD, exist_ok=True)
        self.path = os.path.join(BUILD, name + ".lock")

    def __enter__(self):
        self.f = open(self.path, "w")
        fcntl.flock(self.f, fcntl.LOCK_EX)
        return self

    def __exit__(self, *a):
        fcntl.flock(self.f, fcntl.LOCK_UN)
        self.f.close()


def lean_sources():
    out = []
    for root, dirs, files in os.walk(LEAN):
        dirs[:] = [d for d in dirs if d != ".lake"]
        for f in files:
            if f.endswith(".lean") or f == "lakefile.toml":
                out.append(os.path.join(root, f))
    return sorted(out)


def lean_hash():
    h = hashlib.sha256()
    for p in lean_sources():
        h.update(p.encode())
        h.update(open(p, "rb").read())
    return h.hexdigest()


def strip_comments(src):
    # remove /- ... -/ (nested) and -- comments
    out = []
    i, depth, n = 0, 0, len(src)
    while i < n:
        if src.startswith("/-", i):
            depth += 1
            i += 2
        elif depth and src.startswith("-/", i):
            depth -= 1
            i += 2
        elif depth:
            if src[i] == "\n":
                out.append("\n")
            i += 1
        elif src.startswith("--", i):
            while i < n and src[i] != "\n":
                i += 1
        else:
            out.append(src[i])
            i += 1
    return "".join(out)


def property_theorems():
    """{Cnn: [fully qualified theorem names]} from lean/Lox/Props/Cnn.lean (namespace Lox.Props.Cnn)."""
    res = {}
    pdir = LEAN + "/Lox/Props"
    if not os.path.isdir(pdir):
        return res
    root = strip_comments(open(LEAN + "/Lox.lean").read())
    imported = set(re.findall(r"^import\s+(\S+)", root, re.M))
    for f in sorted(os.listdir(pdir)):
        if "Lox.Props." + f[:-5] not in imported:
            continue  # delivered but not yet part of the checked library
        m = re.match(r"(C\d+)(?:_\w+)?\.lean$", f)
        if not m:
            continue
        src = strip_comments(open(os.path.join(pdir, f)).read())
        names = re.findall(r"^\s*(?:@\[[^\]]*\]\s*)?(?:protected\s+)?theorem\s+([A-Za-z_][\w.'!?]*)", src, re.M)
        res.setdefault(m.group(1), [])
        res[m.group(1)] += ["Lox.Props.%s.%s" % (m.group(1), n) for n in names]
    return res


def ensure_lean():
    """lake build + forbidden-construct grep + `#print axioms` audit of every property theorem.
    Cached by a hash of all Lean sources. Returns dict(ok, log, axioms={thm: [axioms]}, theorems={Cnn: [...]})."""
    with Lock("lean"):
        h = lean_hash()
        cache = os.path.join(BUILD, "lean_audit.json")
        if os.path.exists(cache):
            try:
                c = json.load(open(cache))
                if c.get("hash") == h and c.get("ok") and os.path.exists(LEAN + "/.lake/build/bin/loxdrv"):
                    return c
            except Exception:
                pass
        res = {"hash": h, "ok": False, "log": "", "axioms": {}, "theorems": {}, "forbidden": []}
        # forbidden constructs (outside comments)
        for p in lean_sources():
            if not p.endswith(".lean"):
                continue
            src = strip_comments(open(p).read())
            for ln, line in enumerate(src.split("\n"), 1):
                if FORBIDDEN.search(line):
                    res["forbidden"].append("%s:%d: %s" % (p, ln, line.strip()))
        rc, out = sh("lake build", cwd=LEAN, timeout=7200)
        res["log"] = out[-6000:]
        if rc != 0:
            json.dump(res, open(cache, "w"))
            return res
        thms = property_theorems()
        res["theorems"] = thms
        allnames = [n for ns in thms.values() for n in ns]
        if allnames:
            audit = os.path.join(LEAN, "Audit.lean")
            with open(audit, "w") as f:
                f.write("import Lox\n")
                for n in allnames:
                    f.write("#print axioms %s\n" % n)
            rc, out = sh("lake env lean Audit.lean", cwd=LEAN, timeout=3600)
            os.remove(audit)
            if rc != 0:
                res["log"] += "\nAUDIT FAILED\n" + out[-4000:]
                json.dump(res, open(cache, "w"))
                return res
            # parse: "'name' depends on axioms: [a, b]" or "'name' does not depend on any axioms"
            flat = re.sub(r"\s+", " ", out)
            for m in re.finditer(r"'(\S+?)' (does not depend on any axioms|depends on axioms: \[([^\]]*)\])", flat):
                name = m.group(1)
                axs = [a.strip() for a in (m.group(3) or "").split(",") if a.strip()]
                res["axioms"][name] = axs
        res["ok"] = not res["forbidden"]
        json.dump(res, open(cache, "w"), indent=1)
        return res


def ensure_leanchecker():
    """Independent re-check of the compiled library with `leanchecker` (thorough tier), cached by source hash."""
    with Lock("leanchecker"):
        h = lean_hash()
        cache = os.path.join(BUILD, "leanchecker.json")
        if os.path.exists(cache):
            try:
                c = json.load(open(cache))
                if c.get("hash") == h:
                    return c
            except Exception:
                pass
        t0 = time.time()
        rc, out = sh("lake env leanchecker Lox", cwd=LEAN, timeout=4 * 3600)
        res = {"hash": h, "ok": rc == 0, "log": out[-3000:], "wall_s": round(time.time() - t0, 1)}
        json.dump(res, open(cache, "w"), indent=1)
        return res


class Run:
    """One invocation of a check."""

    def __init__(self, prop, tier, seed):
        self.prop = prop
        self.tier = tier
        self.seed = seed
        self.t0 = time.time()
        self.tmp = tempfile.mkdtemp(prefix="verif-%s-" % prop, dir=os.environ.get("TMPDIR", "/tmp"))
        self.harness = None
        self.violations = []      # (replay_path, found_input: bool)
        self.known_printed = []
        self.obligations = []     # (name, ok, detail)
        self.cov = {"evaluations": 0, "distinct_nontrivial": 0, "samples": [], "families": {}}
        self.assumptions = []
        self.lean = None
        self.notes = []

    def cleanup(self):
        shutil.rmtree(self.tmp, ignore_errors=True)

    # ---- Lean side ----
    def require_theorems(self, minimum=1):
        """Obligation: every theorem in Lox/Props/<prop>.lean is kernel-checked with allowed axioms."""
        self.lean = ensure_lean()
        if not self.lean["ok"]:
            self.obligations.append(("lean-build", False, (self.lean.get("forbidden") or [self.lean["log"][-1500:]])))
            return False
        names = self.lean["theorems"].get(self.prop, [])
        if self.tier == "thorough" and os.environ.get("VERIF_SKIP_LEANCHECKER") != "1":
            lc = ensure_leanchecker()
            self.obligations.append(("leanchecker: independent re-check of every compiled module of the library", lc["ok"], lc["log"][-600:] if not lc["ok"] else "ok in %ss" % lc.get("wall_s")))
        ok_all = len(names) >= minimum
        if len(names) < minimum:
            self.obligations.append(("theorems-present", False, "expected >= %d property theorems, found %d" % (minimum, len(names))))
        for n in names:
            axs = self.lean["axioms"].get(n)
            ok = axs is not None and set(axs) <= ALLOWED_AXIOMS
            self.obligations.append(("theorem " + n, ok, "axioms: %s" % (axs,)))
            ok_all = ok_all and ok
        return ok_all

    # ---- Go side ----
    def build_harness(self):
        if self.harness:
            return self.harness
        out = os.path.join(self.tmp, "verifdrv")
        rc, log = sh([VERIF + "/bin/build-harness", out], timeout=1800)
        if rc != 0:
            raise HarnessBuildError(log)
        self.harness = out
        return out

    def run_family(self, family, n=100, extra_args=None, replay=None, timeout=3600):
        """Runs a generator family on the implementation and the same case lines on the Lean driver.
        Returns dict(cases, impl, model, mismatches=[(idx, case, impl, model)], meta)."""
        h = self.build_harness()
        d = tempfile.mkdtemp(prefix=family + "-", dir=self.tmp)
        cmd = [h, family, "-seed", str(self.seed), "-n", str(n), "-tier", self.tier, "-out", d]
        if replay:
            cmd += ["-replay", replay]
        if extra_args:
            cmd += extra_args
        rc, log = sh(cmd, timeout=timeout, extra_env={"GOMEMLIMIT": "8GiB"})
        if rc != 0:
            raise FamilyError(family, "harness exited %d: %s" % (rc, log[-3000:]))
        with open(d + "/cases.txt", "rb") as fin, open(d + "/model.txt", "wb") as fout:
            p = subprocess.run([LEAN + "/.lake/build/bin/loxdrv"], stdin=fin, stdout=fout, stderr=subprocess.PIPE, timeout=timeout)
        if p.returncode != 0:
            raise FamilyError(family, "lean driver exited %d: %s" % (p.returncode, p.stderr.decode()[-2000:]))
        cases = open(d + "/cases.txt", encoding="utf-8", errors="replace").read().split("\n")
        impl = open(d + "/impl.txt", encoding="utf-8", errors="replace").read().split("\n")
        model = open(d + "/model.txt", encoding="utf-8", errors="replace").read().split("\n")
        if cases and cases[-1] == "":
            cases.pop()
        if impl and impl[-1] == "":
            impl.pop()
        if model and model[-1] == "":
            model.pop()
        mism = []
        if not (len(cases) == len(impl)):
            raise FamilyError(family, "line count mismatch cases=%d impl=%d" % (len(cases), len(impl)))
        for i, c in enumerate(cases):
            m = model[i] if i < len(model) else "<missing>"
            a, b = impl[i].rstrip(), m.rstrip()
            if a != b and not (a == "ok" and b.startswith("ok ")):
                mism.append((i, c, impl[i], m))
        meta = json.load(open(d + "/meta.json"))
        self.cov["evaluations"] += len(cases)
        self.cov["distinct_nontrivial"] += meta.get("distinct", 0)
        self.cov["families"][family] = {"cases": len(cases), "distinct": meta.get("distinct", 0),
                                       "counters": meta.get("counters", {}), "extra": meta.get("extra", {}),
                                       "mismatches": len(mism)}
        for s in meta.get("samples", [])[:4]:
            self.cov["samples"].append(s)
        return {"cases": cases, "impl": impl, "model": model, "mismatches": mism, "meta": meta, "dir": d}

    def run_witnesses(self, props=None):
        """Re-runs the committed witnesses of this property (corpus/<Cnn>/*.json) on the working tree first.
        A failing witness of a `finding:` entry prints KNOWN-FINDING; a failing witness of a `fixed:` entry
        (or of no entry) is a violation with the witness as the replay. Returns the set of active finding ids."""
        import glob
        props = props or [self.prop]
        pats = [VERIF + "/corpus/%s/*.json" % p for p in props]
        if not any(glob.glob(p) for p in pats):
            return set()
        h = self.build_harness()
        d = tempfile.mkdtemp(prefix="witness-", dir=self.tmp)
        rc, log = sh([h, "witness", "-out", d] + pats, timeout=1800)
        if rc != 0:
            raise FamilyError("witness", log[-3000:])
        cases = open(d + "/cases.txt").read().split("\n")
        impl = open(d + "/impl.txt").read().split("\n")
        orc = open(d + "/oracle.txt").read().split("\n")
        kf = {k["id"]: k for k in known_findings()}
        failing, seen = {}, set()
        for i, c in enumerate(cases):
            if not c.startswith("# witness "):
                continue
            wid = c.split()[2]
            seen.add(wid)
            if i < len(orc) and orc[i].strip():
                failing.setdefault(wid, []).append((c, impl[i], orc[i]))
        active = set()
        for wid, rows in failing.items():
            k = kf.get(wid)
            if k and k["kind"] == "finding":
                active.add(wid)
                self.known(wid, k["text"].split(" ", 3)[-1] if k["text"].count(" ") >= 3 else k["text"])
            else:
                self.violation("witness-" + wid, {"kind": "property-violated-by-implementation",
                                                  "what": "committed witness %s fails on the current tree%s" % (wid, " (entry is marked fixed: the defect is back)" if k else ""),
                                                  "runs": [{"case": c, "implementation": im, "why": o} for (c, im, o) in rows],
                                                  "witness_files": pats}, True)
        stale = [w for w in seen if w in kf and kf[w]["kind"] == "finding" and w not in failing]
        if stale:
            self.notes.append("stale findings (witness no longer fails): %s" % sorted(stale))
        self.cov["witnesses"] = {"run": sorted(seen), "failing": sorted(failing), "active_findings": sorted(active)}
        self.obligations.append(("witnesses: every committed witness of a repaired defect passes (%d witnesses)" % len(seen),
                                 not [w for w in failing if w not in active], "failing: %s" % sorted(failing)))
        return active

    # ---- results ----
    def replay_path(self, tag):
        d = VERIF + "/replays"
        os.makedirs(d, exist_ok=True)
        return os.path.join(d, "%s-%s-%d-%s.json" % (self.prop, self.tier, self.seed, tag))

    def violation(self, tag, payload, found_input):
        p = self.replay_path(tag)
        payload = dict(payload)
        payload.setdefault("property", self.prop)
        payload.setdefault("seed", self.seed)
        payload.setdefault("tier", self.tier)
        payload.setdefault("how_to_rerun", "bin/check %s --replay %s" % (self.prop, p))
        with open(p, "w") as f:
            json.dump(payload, f, indent=1, ensure_ascii=False)
        self.violations.append((p, found_input))

    def known(self, fid, what):
        line = "KNOWN-FINDING: property=%s id=%s %s" % (self.prop, fid, what)
        head = "KNOWN-FINDING: property=%s id=%s " % (self.prop, fid)
        if not any(l.startswith(head) for l in self.known_printed):
            self.known_printed.append(line)
        else:
            self.notes.append("also: " + line)

    def finish(self, level, explanation, trusted_base, checker_cmd="cd /verif/lean && lake build && lake env leanchecker Lox"):
        wall = time.time() - self.t0
        ob = len(self.obligations)
        dis = sum(1 for o in self.obligations if o[1])
        cov = dict(self.cov)
        cov.update({
            "obligations": ob, "discharged": dis, "checker_cmd": checker_cmd, "trusted_base": trusted_base,
            "explanation": explanation,
            "obligation_list": [{"name": o[0], "ok": o[1], "detail": o[2] if isinstance(o[2], str) else json.dumps(o[2])[:600]} for o in self.obligations],
            "rule": "cases are generated from one splitmix64 stream seeded by VERIF_SEED plus exhaustive small-universe enumerations and the committed corpus; "
                    "distinct = different canonical case lines; non-trivial = not rejected by the op parser on either side",
            "known_findings_printed": self.known_printed,
            "notes": self.notes,
        })
        cov["samples"] = cov["samples"][:12] or ["(no generated cases in this check)"]
        if cov["evaluations"] == 0:
            cov["evaluations"] = ob
        ev = {
            "property_id": self.prop, "tier": self.tier, "seed": self.seed, "level": level, "coverage": cov,
            "assumptions": self.assumptions, "wall_s": round(wall, 2), "violations": len(self.violations),
        }
        # evidence of runs against another checkout (VERIF_REPO, used to test seeded defects) is kept apart:
        # the committed evidence must describe /repo itself
        evdir = VERIF + "/evidence" if os.path.realpath(REPO) == "/repo" else BUILD + "/evidence-other"
        os.makedirs(evdir, exist_ok=True)
        with open(evdir + "/%s.json" % self.prop, "w") as f:
            json.dump(ev, f, indent=1, ensure_ascii=False)
        for l in self.known_printed:
            print(l)
        # an undischarged obligation without a recorded violation is still a violation (not shown to hold)
        if dis != ob and not self.violations:
            bad = [o for o in self.obligations if not o[1]]
            self.violation("obligation", {"kind": "obligation-failed", "obligations": [[o[0], o[2]] for o in bad]}, False)
        for p, found in self.violations:
            print("VIOLATION property=%s replay=%s%s" % (self.prop, p, "" if found else " no-failing-input-found"))
        print("%s %s: %d/%d obligations, %d cases, %d violations, %.1fs" % (
            self.prop, self.tier, dis, ob, self.cov["evaluations"], len(self.violations), wall))
        self.cleanup()
        return 1 if self.violations else 0


class HarnessBuildError(Exception):
    pass


class FamilyError(Exception):
    def __init__(self, family, msg):
        super().__init__("%s: %s" % (family, msg))
        self.family = family


# ---- known findings ----
def known_findings():
    """Parse /verif/KNOWN_FINDINGS.txt -> list of dict(kind='finding'|'fixed', property, id, text, fields)."""
    p = VERIF + "/KNOWN_FINDINGS.txt"
    out = []
    if not os.path.exists(p):
        return out
    for line in open(p):
        line = line.strip()
        if not line or line.startswith("#"):
            continue
        m = re.match(r"(finding|fixed):\s+property=(C\d+)\s+(.*)$", line)
        if not m:
            continue
        rest = m.group(3)
        fields = dict(re.findall(r"(\w+)=(\S+)", rest))
        out.append({"kind": m.group(1), "property": m.group(2), "text": rest, "fields": fields, "id": fields.get("id", "")})
    return out


TRUSTED_COMMON = [
    "Lean 4.33.0 kernel (theorems in lean/Lox/Props/*.lean; axioms audited per theorem with #print axioms: subset of propext, Classical.choice, Quot.sound)",
    "Lean compiler/runtime for evaluating the executable models and validators in the loxdrv executable",
    "the hand-written Lean models are tied to /repo only by the correspondence harness (/verif/harness, injected with go build -overlay and compiled from the working tree on every run); generator quality bounds what the tie sees",
    "Go toolchain; python3 orchestrator (/verif/bin/check, /verif/lib)",
]
