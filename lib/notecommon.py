"""Families whose case lines are notes (`# …`, echoed by the Lean driver) and whose verdicts live in
the oracle column: an executable statement of the property evaluated against the implementation by
an independent reference (harness/drv/ops_lalr.go, ops_prec.go, …)."""
from lrcommon import expand_lets


def run_notes(r, family, prop, n, known_prefixes=(), label=None, also=()):
    res = r.run_family(family, n=n, timeout=7200)
    oracle = open(res["dir"] + "/oracle.txt", encoding="utf-8", errors="replace").read().split("\n")
    mine, known, other = [], {}, {}
    for i, c in enumerate(res["cases"]):
        o = oracle[i].strip() if i < len(oracle) else ""
        if not o:
            continue
        tags = [t.strip() for t in o.split(":", 1)[0].split(",")]
        if any(t in known_prefixes for t in tags):
            known.setdefault(tags[0], []).append((i, c, o))
        elif prop in tags or any(a in tags for a in also):
            mine.append((i, c, res["impl"][i], o))
        else:
            for t in tags:
                other[t] = other.get(t, 0) + 1
    r.obligations.append(("oracle %s: %s (support, not proof)" % (family, label or "independent reference agrees with the implementation on every case"),
                          not mine, "%d disagreeing cases of %d" % (len(mine), len(res["cases"]))))
    for (i, c, im, o) in mine[:3]:
        r.violation("%s-%d" % (family, i), {"kind": "property-violated-by-implementation", "what": o[:8000], "case": c[:4000], "family": family}, True)
    if res["mismatches"] and not mine:
        # note lines are echoed, so a mismatch here means the harness itself misbehaved
        i, c, im, mo = res["mismatches"][0]
        if not (c.startswith("#") and im.startswith("#")):
            r.violation(family + "-tie", {"kind": "correspondence-broken", "first": {"case": c[:4000], "implementation": im[:2000], "model": mo[:2000]}}, False)
    r.cov[family + "_counters"] = res["meta"].get("counters", {})
    r.cov.setdefault("other_property_hits", {}).update(other)
    return res, known
