"""C09 Syntax errors: always terminate, never accept silently, blame the right token."""
import common
import lrcommon

LEVEL = "proof"


def run(r):
    r.require_theorems(1)
    r.run_witnesses()
    lrcommon.run_lr(r, "C09", also=("C12",))
    r.assumptions += [
        "per generated grammar the theorems quantify over all token sequences (including lexer ERROR tokens); the space of grammars is sampled by the generator",
        "the model of parse/_recover (Lox/LR/Model.lean) is tied to compiled generated parsers on every run, including recovery paths and Error.Expected lists",
        "partial: termination of reduce chains and recovery are proved separately (tables_terminate, recoveries_bounded); soundness of runs WITH recovery and the correct-prefix property of the first Error are stated _partial (see DESIGN.md C09)",
    ]
    return r.finish(LEVEL, "Lean: recover_result, recover_progress, recoveries_bounded, recover_terminates, no_silent_accept_partial, error_tracked, error_delivered_partial over the model of parse/_recover for arbitrary tables; "
                    "tables_decide/parse_no_panic for error-free runs; tie: compiled generated parsers vs the model on all token strings up to a length incl. ERROR tokens, budgeted runs (a hang is an observation)",
                    common.TRUSTED_COMMON)
