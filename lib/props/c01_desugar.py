"""C01 / C03, desugaring part: `?`, `*`, `*!`, `+`, `@list` are rewritten by the front end into helper
rules; the Lean model `Lox.LR.desugar` reproduces rule/production numbering and kinds, and
`Lox.Props.C01.sugar_lang` / `Lox.Props.C03.sugar_values` are stated about that model.

`run_desugar(r)` runs the `desugar` correspondence family (harness/drv/ops_desugar.go against
lean/Lox/LR/{Desugar,DrvDesugar}.lean): random and hand-written sugar grammars go through the REAL
front end (parser.Parse + ast.Analyze, in-process); the canonical listing of the resulting
`lr1.Grammar` (terminal/rule counts, productions, production kinds as the `_act` template sees
them, rule names) is compared with the model's.

Search (runs on every accepted grammar, so in particular on every mismatch): the property statement
itself – "the grammar the front end built generates the documented language" – is evaluated by the
family: all token strings up to length 5 (quick) / 6 (thorough, at most 6000 per grammar) are
classified by the documented reading of the sugar (recog.go: Member, no helper rules) and by a CFG
recogniser over the real `lr1.Grammar` (ops_desugar.go: cfgMember); a difference is reported in the
oracle column as `C01: …` with the token string.
"""
import common

ASSUMPTIONS = [
    "desugar model: single unit, first rule is @start (what the harness renders); helper sharing is by (kind, child name, "
    "separator name), which equals the Go helper NAME because token/rule names are identifiers",
    "sugar_lang / sugar_values assume SGrammar.wf (start rule exists, references defined, names pairwise distinct and != ERROR); "
    "the front end enforces it (EOF/ERROR reserved for tokens and, since D23, for parser rules)",
]


def read_oracle(res):
    return open(res["dir"] + "/oracle.txt", encoding="utf-8", errors="replace").read().split("\n")


def analyse(r, fam, res, need_accepted=True):
    oracle = read_oracle(res)
    hits = []
    for i, c in enumerate(res["cases"]):
        o = oracle[i] if i < len(oracle) else ""
        if o.strip().startswith("C01:"):
            hits.append((i, c, res["impl"][i], o.strip()))
    counters = res["meta"].get("counters", {})
    nacc = counters.get("accepted", 0)
    r.obligations.append(("oracle %s: L(lr1.Grammar built by the front end) = documented language of the sugar grammar on all short "
                          "token strings (%d grammars, %d strings; support, not proof)" % (fam, nacc, counters.get("oracle-strings", 0)),
                          not hits, "%d grammars with a differing string" % len(hits)))
    for (i, c, im, o) in hits[:3]:
        r.violation("%s-%d" % (fam, i), {"kind": "property-violated-by-implementation", "what": o, "case": c,
                                         "implementation": im, "model": res["model"][i] if i < len(res["model"]) else None,
                                         "replay_case_line": c, "replay_family": fam}, True)
    mism = res["mismatches"]
    r.obligations.append(("correspondence %s: Lox.LR.desugar = lr1.Grammar of the real AST passes (numbering of rules and productions, "
                          "production kinds, rule names; `rejected` for refused specifications)" % fam, not mism and (nacc > 0 or not need_accepted),
                          "%d mismatches of %d cases" % (len(mism), len(res["cases"]))))
    if mism and not hits:
        i, c, im, mo = mism[0]
        r.violation("%s-corr" % fam, {
            "kind": "correspondence-broken", "family": fam,
            "first_disagreement": {"case": c, "implementation": im, "model": mo},
            "count": len(mism),
            "note": "search: the language of the grammar the front end built equals the documented language of the sugar grammar on every "
                    "token string up to the length bound, for all %d accepted grammars of this run (including the disagreeing ones); "
                    "no failing input found. The model Lox/LR/Desugar.lean (numbering / kinds / names) no longer matches internal/ast; "
                    "theorems Lox.Props.C01.sugar_lang and Lox.Props.C03.sugar_values talk about the model." % nacc,
            "replay_case_line": c, "replay_family": fam}, False)
    r.cov["desugar_counters"] = counters
    r.notes.append("desugar family: %d cases, %d accepted by the front end, %d rejected, %d with a shared helper rule" % (
        len(res["cases"]), nacc, counters.get("rejected", 0), counters.get("shared-helper", 0)))


def run_desugar(r):
    """Called from the C01 (and C03) check. Appends obligations/violations to `r`; returns the family result."""
    n = 300 if r.tier == "quick" else 1500
    res = r.run_family("desugar", n=n, timeout=3600)
    analyse(r, "desugar", res)
    for a in ASSUMPTIONS:
        if a not in r.assumptions:
            r.assumptions.append(a)
    return res


def replay_desugar(r, line):
    """Replay one `lr.desugar` case line (a violation file's `replay_case_line`)."""
    p = r.tmp + "/replay-desugar.txt"
    with open(p, "w") as f:
        f.write(line + "\n")
    res = r.run_family("desugar", replay=p)
    analyse(r, "desugar", res, need_accepted=False)
    return res
