"""C08 Non-greedy repetitions stop at the first complete match."""
import common
import lexcommon

LEVEL = "proof"


def run(r):
    r.require_theorems(1)
    active = r.run_witnesses()
    # rules of the stated shape among greedy neighbours that share no prefix with them: must be clean
    lexcommon.run_lex(r, "C08", n_quick=12, n_thorough=150, family="lexng")
    # greedy neighbour sharing the prefix: every deviation must be the known finding K2
    n = 6 if r.tier == "quick" else 60
    res = r.run_family("lexngk2", n=n, timeout=7200)
    by, hits = lexcommon.classify(res)
    k2_specs, other = 0, []
    for m in by["lex.bisim"]:
        # both faces of K2: the state-level non-greedy flag (a) sits on a row labelled by a greedy rule, or (b) stops a
        # still-viable greedy rule that shares the prefix when the non-greedy rule accepts
        if "K2 flagged row labelled by greedy rule" in m[3] or ("non-greedy flag cuts off rule" in m[3] and "(greedy)" in m[3]):
            k2_specs += 1
        else:
            other.append(m)
    other += by["lex.run"] + by["lex.wfmodes"] + by["other"]
    kf = {k["id"] for k in common.known_findings() if k["kind"] == "finding"}
    dev = hits.get("C08", [])
    r.obligations.append(("lexngk2: every validator failure on specs with a prefix-sharing greedy neighbour is the K2 condition (flagged row labelled by a greedy rule)",
                          not other, "%d other failures" % len(other)))
    if k2_specs or dev:
        if "K2" in kf:
            r.known("K2", "%d generated specs have a flagged row labelled by a greedy rule; %d inputs lexed differently from the rule-level definition" % (k2_specs, len(dev)))
        else:
            i, c, im, o = (dev or [(0, "", "", "validator: K2 condition")])[0]
            r.violation("lexngk2-%d" % i, {"kind": "property-violated-by-implementation", "what": o[:6000], "implementation_output": im}, bool(dev))
    if dev and not k2_specs and "K2" in kf:
        # deviations that the validator does not attribute to K2 are not covered by the finding
        i, c, im, o = dev[0]
        r.violation("lexngk2-unexplained-%d" % i, {"kind": "property-violated-by-implementation", "what": o[:6000], "implementation_output": im}, True)
    if other:
        i, c, im, mo = other[0]
        r.violation("lexngk2-tie", {"kind": "correspondence-broken", "first": {"case_line": lexcommon.expand_lets(res["cases"], i)[:20000], "implementation": im, "model": mo}}, False)
    r.assumptions += ["the non-greedy reading: a rule containing *? or +? matches the shortest words of its language; greedy rules keep longest match (Lox/Lex/BisimNG.lean specRunNG)"]
    return r.finish(LEVEL, "Lean: bisimNG_sound (table run = shortest-match spec for all strings), ng_shape_star/plus (token ends at the first occurrence of the terminator); "
                    "tie: validator on every emitted table of specs of the C08 shape, compiled lexers vs model and reference lexer; K2 recorded",
                    common.TRUSTED_COMMON)
