"""C05 @left/@right(n) give the documented operator grouping."""
import common
import notecommon
from props import c04_resolve

LEVEL = "proof"


def run(r):
    r.require_theorems(1)
    active = r.run_witnesses()
    c04_resolve.run_resolve(r)      # with r.prop == "C05" also checks the documented decision and K1
    n = 8 if r.tier == "quick" else 80
    res, known = notecommon.run_notes(r, "prec", "C05", n, known_prefixes=("K1",), also=("C04",),
                                      label="tree built by compiled expression parsers = precedence climbing over the operator table")
    if known.get("K1"):
        kf = {k["id"]: k for k in common.known_findings()}
        if "K1" in kf:
            r.known("K1", "%d runs group @right operators left-to-right (%s)" % (len(known["K1"]), known["K1"][0][2][:160]))
        else:
            i, c, o = known["K1"][0]
            r.violation("prec-k1", {"kind": "property-violated-by-implementation", "what": o, "case": c}, True)
    r.assumptions += c04_resolve.ASSUMPTIONS + ["operator tables give every level one associativity (the documented rule does not define mixed levels)"]
    return r.finish(LEVEL, "Lean: op_machine_climb (a shift-reduce machine whose S/R decisions follow the documented relation builds the precedence-climbing tree, all inputs), "
                    "resolve_documented_partial (resolveConflicts yields that relation except for @right, K1); tie: resolve family, compiled expression parsers vs climbing",
                    common.TRUSTED_COMMON)
