"""C02 / C10, emission part: EmitLexer's `mode_table` + codegen/table.go against their Lean model.

`run_lexemit(r, prop)` runs the `lexemit` correspondence family (harness/drv/ops_lexemit.go with the
export file harness/export/internal__codegen/lexemit.go, against lean/Lox/Lex/EmitModel.lean through
lean/Lox/Lex/DrvEmit.lean). Curated and random specifications (all modes; greedy and non-greedy
cardinalities) go through the real front end, the real `(*context).EmitLexer` is run on the very
`mode.Mode` objects `ModeBuilder.Build` returned, and the `_lexerModeN` arrays are read back from the
emitted lexer.gen.go. Per mode:

    lex.emit     emitMode on the real DFA (real state ids, transitions in ForEach order, pairs of
                 state.Data)                       = the real `_lexerModeN`, element for element
    lex.genmode  genMode = modeNFA -> buildDFA -> emitMode on the rules of the mode
                                                   = the real `_lexerModeN` up to the numbering of the
                                                     states (same breadth-first renumbering on both sides)

These are the models the end-to-end theorems talk about: Lox.Props.C02.generator_bisim /
generator_tableSpec / generator_startClean / generator_munch (for EVERY list of greedy rules over code
points the emitted array computes longest viable match, earliest rule) and Lox.Props.C10.emit_faithful
/ generator_wfMode / generator_wfModes (every emitted row decodes to the state's flags, sorted disjoint
transitions and action pairs; every generated table is a well-formed mode).

Independently of the model, the oracle column evaluates C10's statement on the REAL array: decoded with
the row format documented in the generated PushRune it must give back, state by state, the flags, the
sorted transitions and the action pairs of the DFA it was emitted from.
"""
import common

STAGES = [
    ("lex.emit", "emitMode (mode_table row encoding + AddRow/Array) on the real DFA of the mode = the real _lexerModeN array, element for element"),
    ("lex.genmode", "genMode (NFACons, Build, mode_table) on the rules of the mode = the real _lexerModeN array up to the numbering of the DFA states"),
]

ASSUMPTIONS = [
    "lexemit: for lex.genmode the arrays are compared after the same breadth-first renumbering of the states on both sides (the model numbers DFA "
    "states by order of creation, the real transitiveClosure by a depth-first walk over an unstable sort); lex.emit compares the real array itself",
    "lexemit: generator_bisim / generator_munch assume rules without *? / +? (non-greedy rules: C08, K2) over code points 0..0x10FFFF; "
    "emit_faithful and the lex.emit tie cover non-greedy flags as well",
]


def classify(res):
    oracle = open(res["dir"] + "/oracle.txt", encoding="utf-8", errors="replace").read().split("\n")
    hits = {}
    for i, c in enumerate(res["cases"]):
        o = oracle[i] if i < len(oracle) else ""
        if o.strip():
            tags = o.split(":", 1)[0]
            for pid in tags.split(","):
                hits.setdefault(pid.strip(), []).append((i, c, res["impl"][i], o))
    by = {op: [] for op, _ in STAGES}
    by["drift"] = []
    by["other"] = []
    for m in res["mismatches"]:
        op = m[1].split(" ", 1)[0]
        if m[1].startswith("# export-drift"):
            by["drift"].append(m)
        elif m[1].startswith("#"):
            continue  # rejected / panicking specifications: reported through the oracle column
        else:
            by.get(op, by["other"]).append(m)
    return by, hits


def analyse(r, prop, res):
    by, hits = classify(res)
    counters = res["meta"].get("counters", {})
    count = {}
    for c in res["cases"]:
        op = c.split(" ", 1)[0]
        count[op] = count.get(op, 0) + 1
    mine = hits.get(prop, []) if prop == "C10" else []
    if prop == "C10":
        r.obligations.append(("oracle lexemit: every real _lexerModeN, decoded by the documented row format, gives back the flags, sorted transitions and "
                              "action pairs of every state of the DFA it was emitted from (%d modes, %d sharing rows, %d with a non-greedy flag)" % (
                                  counters.get("modes-emitted", 0), counters.get("modes-with-shared-rows", 0), counters.get("modes-with-nongreedy-flag", 0)),
                              not mine and counters.get("modes-emitted", 0) > 0, "%d modes whose array does not decode to their DFA" % len(mine)))
        for (i, c, im, o) in mine[:3]:
            r.violation("lexemit-%d" % i, {"kind": "property-violated-by-implementation", "what": o[:6000],
                                           "implementation_output": im[:4000], "case": c[:20000],
                                           "replay_case_line": c, "replay_family": "lexemit"}, True)
    broken = []
    for op, what in STAGES:
        bad = by[op]
        r.obligations.append(("tie lexemit %s: %s (%d cases)" % (op, what, count.get(op, 0)),
                              not bad and count.get(op, 0) > 0, "%d mismatches" % len(bad)))
        broken += bad
    r.obligations.append(("tie lexemit: state ids are the indices of DFA.States and every action is one of the five documented kinds "
                          "(no `export-drift` line)", not by["drift"], "%d drifts" % len(by["drift"])))
    broken += by["drift"] + by["other"]
    if broken and not mine:
        i, c, im, mo = broken[0]
        r.violation("lexemit-tie", {
            "kind": "correspondence-broken", "family": "lexemit",
            "first_disagreement": {"case": c[:20000], "implementation": im[:6000], "model": mo[:6000]},
            "counts": {k: len(v) for k, v in by.items() if v},
            "note": "search: the decode oracle found no array that fails to decode to its DFA among %d modes; oracle hits for other properties: %s" % (
                counters.get("modes-emitted", 0), {k: len(v) for k, v in hits.items()}),
            "names": "theorems of Lox/Props/C02_e2e.lean and C10_e2e.lean talk about the model Lox/Lex/EmitModel.lean (emitMode, genMode); "
                     "lex.emit localises a break in mode_table / table.go, lex.genmode alone a break in the stages before (see family lexmodel)",
            "replay_case_line": c, "replay_family": "lexemit"}, False)
    r.notes.append("lexemit family: %d specifications (%d with several modes), %d distinct mode DFAs emitted, %d rule lists generated, largest DFA %s states" % (
        counters.get("accepted", 0), counters.get("specs-with-modes", 0), counters.get("modes-emitted", 0),
        counters.get("modes-generated", 0), res["meta"].get("extra", {}).get("max-states")))
    return by, hits


def run_lexemit(r, prop="C02"):
    """Called from the C02 / C10 checks. Appends obligations/violations to `r`; returns the family result."""
    n = 40 if r.tier == "quick" else 400
    res = r.run_family("lexemit", n=n, timeout=7200)
    analyse(r, prop, res)
    for a in ASSUMPTIONS:
        if a not in r.assumptions:
            r.assumptions.append(a)
    return res


def replay_lexemit(r, line, prop="C02"):
    """Replay one `lex.genmode` case line of the family (from a violation file's `replay_case_line`): the rules are
    rebuilt from the line (one mode, token rules), rendered as a .lox specification and sent through the family again."""
    p = r.tmp + "/replay-lexemit.txt"
    with open(p, "w") as f:
        f.write(line + "\n")
    res = r.run_family("lexemit", replay=p)
    analyse(r, prop, res)
    return res
