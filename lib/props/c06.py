"""C06 Type-matched binding of action methods to productions.

Lean side (lean/Lox/Props/C06.lean): `assign` (mirror of codegen.AssignActions, parametrised by the
relations gotypes.AssignableTo / gotypes.Identical) succeeds exactly when the clauses of the
property hold (`assign_ok_iff`), binds every production to its unique matching method and types
helper rules by the documented derivation (`assign_binding_sound`, `helper_types`), names a
violating subject in every diagnostic (`assign_diag_names`, `violates_not_spec`), never reaches a
Go panic (`assign_no_panic`); the generated `_act` hands every action exactly the stack values,
never a substituted zero value (`stack_invariant`, `values_flow`, `values_flow_helpers`).

Tie (harness/drv/ops_assign.go, family `assign`): random Go packages (type shapes x grammars x
method layouts) through the REAL codegen.Generate; per package one `dec.assign` case line
(go/types' matrices + grammar + methods) answered by the Lean model; verdict, diagnostics
(kind:subject) and binding must coincide.

Oracle (independent of the Lean model, computed by the family with go/types on the sugar grammar):
  `C06: verdict differs from the property statement (…)`
  `C06: lox exit 0 but package does not compile …`
  `C06: parameter received a substituted zero value …` (compiled parser run on sentences, every
       token and action result carries an id)
"""
import common
import lrcommon

LEVEL = "proof"
FAMILY = "assign"

ASSUMPTIONS = [
    "the Go type system is a parameter: gotypes.AssignableTo / gotypes.Identical / gotypes.NewSlice are tabulated per package by go/types itself and are inputs of the model (Identical is assumed to be an equivalence relation; tabulated matrices are the evidence)",
    "grammars are the ones the lox front end produces (WF: helper rules x?, x*, x+, x*!, @list(x,s), @list(x,s)? have the shapes ast.ParserTerm.normalize writes; names of S' and of helper rules are not Go identifiers); rule names are unique",
    "run-time statement: a method returns a value of its declared result type and the lexer returns values of type Token (Go's static typing); the top stack slots spell the production being reduced (LR invariant, C01)",
    "\"the generated files compile with the package\" is observed on every accepted package of the run (go build), not proved",
]


def pkg_of(cases, idx):
    """Name of the generated package a case line belongs to (preceding `# pkg gNNNN …` line)."""
    for j in range(idx, -1, -1):
        if cases[j].startswith("# pkg "):
            return cases[j].split()[2]
    return None


def analyse(r, res):
    cases, impl, model = res["cases"], res["impl"], res["model"]
    extra = res["meta"].get("extra", {})
    counters = res["meta"].get("counters", {})
    oracle = open(res["dir"] + "/oracle.txt", encoding="utf-8", errors="replace").read().split("\n")
    hits, harness_problems, other = [], [], []
    for i, c in enumerate(cases):
        o = oracle[i].strip() if i < len(oracle) else ""
        if not o:
            continue
        for part in o.split(" ;; "):
            if part.startswith("C06:"):
                hits.append((i, part))
            elif part.startswith("harness"):
                harness_problems.append((i, part))
            else:
                other.append((i, part))
    # a generator panic on a type-checked package is neither a binding nor a refusal with a diagnostic
    for i, c in enumerate(cases):
        if c.startswith("dec.assign ") and i < len(impl) and impl[i].startswith("panic") and not any(j == i for j, _ in hits):
            hits.append((i, "C06: the generator panicked instead of binding the actions or refusing with a diagnostic: " + impl[i][:300]))
    npk = sum(1 for c in cases if c.startswith("dec.assign "))
    r.cov["programs"] = npk
    r.cov["assign_counters"] = counters

    # 1. the property statement evaluated on the implementation
    r.obligations.append(("oracle: property statement (go/types on the sugar grammar; go build; id-tagged runs) holds on every generated package (support, not proof)",
                          not hits, "%d violating packages of %d" % (len({i for i, _ in hits}), npk)))
    seen = set()
    for (i, what) in hits:
        if i in seen or len(seen) >= 3:
            continue
        seen.add(i)
        name = pkg_of(cases, i)
        r.violation("assign-%s" % name, {
            "kind": "property-violated-by-implementation", "what": [w for (j, w) in hits if j == i],
            "package": name, "package_text": extra.get("src:%s" % name),
            "implementation": impl[i], "model": model[i] if i < len(model) else None,
            "case_line": cases[i][:20000], "family": FAMILY,
            "note": "re-run with the recorded seed and tier regenerates the same package (the prelude p.go is fixed: see assignPrelude in harness/drv/ops_assign.go)",
        }, True)

    # 2. the package generator must stay inside the property's precondition, and the run-time log must be readable
    r.obligations.append(("harness self-check: every generated package type-checks and every run log is readable",
                          not harness_problems and not any(k.startswith("skipped:") for k in counters),
                          "%d problems, skipped: %s" % (len(harness_problems), {k: v for k, v in counters.items() if k.startswith("skipped:")})))
    if other:
        r.notes.append("oracle lines of other properties: %s" % [w[:200] for _, w in other[:3]])

    # 3a. the hypotheses of the theorems hold on every case (decided by the driver with the predicates the theorems use)
    hyp = [m for m in res["mismatches"] if m[1].startswith("dec.assignwf ")]
    nhyp = sum(1 for c in cases if c.startswith("dec.assignwf "))
    r.obligations.append(("hypotheses: WF (helper-rule shapes, helper names are no Go identifiers) and IdentEquiv (Identical is an equivalence on the tabulated universe) hold on every case (decide (WF c), identCheck)",
                          not hyp and nhyp > 0, "%d failing of %d%s" % (len(hyp), nhyp, (": " + hyp[0][3]) if hyp else "")))
    if hyp and not hits:
        i, c, im, mo = hyp[0]
        name = pkg_of(cases, i)
        r.violation("assign-hyp", {
            "kind": "theorem-hypothesis-fails", "family": FAMILY, "package": name, "answer": mo,
            "package_text": extra.get("src:%s" % name), "case_line": c[:20000],
            "note": "theorems Lox.Props.C06.* assume WF c and IdentEquiv c; on this case the driver decides them false, so they no longer speak about what the front end / go/types produce",
        }, False)

    # 3. model = implementation
    mism = [m for m in res["mismatches"] if m[1].startswith("dec.assign ")]
    r.obligations.append(("correspondence dec.assign: Lean model of AssignActions = real codegen.Generate (verdict, diagnostics kind:subject, binding, rule types) on every package",
                          not mism and npk > 0, "%d mismatches of %d" % (len(mism), npk)))
    if mism and not hits:
        i, c, im, mo = mism[0]
        name = pkg_of(cases, i)
        r.violation("assign-tie", {
            "kind": "correspondence-broken", "family": FAMILY,
            "first_disagreement": {"package": name, "implementation": im, "model": mo, "case_line": c[:20000],
                                   "package_text": extra.get("src:%s" % name)},
            "count": len(mism),
            "note": "search: the C06 oracle (property statement via go/types, go build, id-tagged runs) found no failing input among %d packages" % npk,
            "names": "theorems Lox.Props.C06.* are about Lox.Dec.Assign.assign (lean/Lox/Dec/Assign.lean), which no longer mirrors internal/codegen/assign_actions.go on this case",
        }, False)
    # 4. distribution actually hit
    need = ["lox-accepts", "lox-rejects", "compiled", "runs"]
    missing = [k for k in need if not counters.get(k)]
    r.obligations.append(("coverage: accepted and rejected packages, compiled packages and parser runs all occur", not missing, "missing: %s" % missing))


def run(r):
    r.require_theorems(8)
    r.run_witnesses()
    n = 36 if r.tier == "quick" else 320
    res = r.run_family(FAMILY, n=n, timeout=7200)
    analyse(r, res)
    # "every action parameter holds exactly the value produced for its term" on RECOVERY paths and for parameters that are
    # interface-typed (one method shared by an `@error …` production and a `TOKEN …` sibling): the curated grammars of family
    # lrgen (they always run first) against the runtime model whose action log is proved for validated tables
    lrcommon.run_lr(r, "C06", n_quick=1, n_thorough=20, also=())
    r.assumptions += ASSUMPTIONS
    return r.finish(LEVEL,
                    "theorems: decision logic of AssignActions = the property's clauses for every grammar, method table and every pair of relations (assignable, identical); "
                    "binding soundness; diagnostics name a violating subject; stack-typing invariant and identity of _cast on every slot _act reads, for every run. "
                    "tie: random Go packages (type shapes: named/unnamed/pointer/slice/map/func/chan/interface/generic/alias/imported) x grammars x layouts through the real generator, "
                    "go/types matrices handed to the model; compile + id-tagged runs of every accepted package",
                    common.TRUSTED_COMMON + ["go/types (golang.org/x/tools/go/packages) for the relations AssignableTo / Identical; go build for 'compiles'"])
