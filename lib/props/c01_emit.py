"""C01 / C10, end to end on the LR side: family `emit` (harness/drv/ops_emit.go against
lean/Lox/LR/{EmitModel,DrvEmit}.lean).
Called as `c01_emit.run_emit(r, "C01")` from lib/props/c01.py and `c01_emit.run_emit(r, "C10")` from lib/props/c10.py.

  lr.emit   one line per grammar: the arrays _rules/_termCounts/_actions/_goto read back from the parser.gen.go the REAL
            generator wrote must equal, number for number, what the Lean model `Lox.LR.Emit.generateP`
            (= Cons.construct, then Emit.emitParserP) computes; a grammar lox refuses for conflicts must be answered
            `conflicts` by the model's own HasConflicts. Theorems about that model (for ALL grammars):
            Lox.Props.C01.generator_valid / generator_correct / generator_safe / generator_sound /
            emit_find_actions / emit_find_goto (lean/Lox/Props/C01_e2e.lean).
  oracle    the property stated directly on the implementation: _Find (documented addressing) on the emitted arrays
            returns, for every state and symbol, the action / transition of the real ParserTable of that grammar.

An oracle hit is a violation with the grammar as failing input. A model/implementation difference without an
oracle hit is reported `no-failing-input-found` and names the correspondence that no longer checks.
"""
import common

ASSUMPTIONS = [
    "emit: the grammar, name order and precedences of a case line come from an in-process run of the real front end on the same "
    ".lox text that codegen.Generate processed; the arrays from the parser.gen.go it wrote",
    "the end-to-end theorems (generator_valid, generator_safe) speak about the Lean model of ConstructLALR + EmitParser; the model is "
    "tied to the implementation on generated and curated grammars by this family (and by `construct`, `genmodel`, `resolve`, `table`)",
]


def _note(cases, i):
    for j in range(i - 1, max(-1, i - 3), -1):
        if cases[j].startswith("#"):
            return cases[j]
    return ""


def run_emit(r, prop):
    n = 10 if r.tier == "quick" else 60
    res = r.run_family("emit", n=n, timeout=7200)
    cases = res["cases"]
    try:
        oracle = open(res["dir"] + "/oracle.txt", encoding="utf-8", errors="replace").read().split("\n")
    except OSError:
        oracle = []
    counters = res["meta"].get("counters", {})
    lines = [i for i, c in enumerate(cases) if c.startswith("lr.emit ")]
    hits = {i: oracle[i].strip() for i in range(min(len(cases), len(oracle))) if oracle[i].strip()}
    bad = [m for m in res["mismatches"] if m[1].startswith("lr.emit ")]
    stray = [m for m in res["mismatches"] if not m[1].startswith("lr.emit ")]
    nacc = sum(v for k, v in counters.items() if k.endswith("-accepted"))
    r.obligations.append(("emit lr.emit: _rules/_termCounts/_actions/_goto of every emitted parser.gen.go = Lean model construct+emitParserP, "
                          "refused grammars = the model's HasConflicts (%d lines, %d accepted grammars; %s)"
                          % (len(lines), nacc, ", ".join("%s %d" % kv for kv in sorted(counters.items()))),
                          not bad and nacc > 0, "%d differing" % len(bad)))
    r.obligations.append(("oracle emit: _Find on the emitted arrays = the action cell / transition of the real ParserTable, for every (state, symbol)",
                          not hits, "%d hits" % len(hits)))
    if stray:
        r.obligations.append(("correspondence emit: bookkeeping lines agree", False, "%d mismatches, first: %r" % (len(stray), stray[0][1][:200])))
    reported = 0
    for i, o in list(hits.items())[:3]:
        r.violation("emit-oracle-%d" % i, {"kind": "property-violated-by-implementation", "why": o[:8000], "grammar": _note(cases, i)[:4000],
                                           "case": cases[i][:20000], "replay_case_line": cases[i], "replay_family": "emit"}, True)
        reported += 1
    if not reported:
        for (i, c, im, mo) in bad[:3]:
            r.violation("emit-%d" % i, {"kind": "model-implementation-mismatch", "implementation": im[:4000], "model": mo[:4000],
                                        "grammar": _note(cases, i)[:4000], "case": c[:20000], "replay_case_line": c, "replay_family": "emit"}, False)
    r.assumptions += ASSUMPTIONS
