"""C14 Checked-in generated parsers are a fixpoint of the current generator."""
import common
import lrcommon

LEVEL = "translation_validation"


def run(r):
    res = r.run_family("shipped", n=1, timeout=3600)
    oracle = open(res["dir"] + "/oracle.txt", encoding="utf-8", errors="replace").read().split("\n")
    hits = [(i, c, oracle[i]) for i, c in enumerate(res["cases"]) if i < len(oracle) and oracle[i].strip()]
    ndirs = res["meta"].get("counters", {}).get("directories", 0)
    r.obligations.append(("fixpoint: base.gen.go, lexer.gen.go, parser.gen.go of internal/parser and examples/{calc,jsonc,bolox} regenerate byte for byte (%d directories, exhaustive)" % ndirs,
                          not hits and ndirs == 4, "%d differences" % len(hits)))
    for (i, c, o) in hits[:4]:
        r.violation("shipped-%d" % i, {"kind": "property-violated-by-implementation", "what": o[:6000], "case": c}, True)
    mm = [m for m in res["mismatches"] if not m[1].startswith("#")]
    r.obligations.append(("validators: the CHECKED-IN parser tables pass LR.check (checkSafe where precedence is used) against the grammar in the same directory, and every checked-in mode table passes Lex.bisimNG against the rules in the same directory",
                          not mm, "%d failures: %s" % (len(mm), [m[3][:120] for m in mm[:3]])))
    known = set()
    if mm:
        # bolox's CHAR_SEQ rule matches the empty string (known finding K3): its mode table is outside the validator's premise
        kf = {k["id"] for k in common.known_findings() if k["kind"] == "finding"}
        rest = []
        for m in mm:
            if "K3" in kf and ("start-state-accepting" in m[3] or "nullable" in m[3] or "empty string" in m[3]):
                known.add("K3")
            else:
                rest.append(m)
        if rest and not hits:
            i, c, im, mo = rest[0]
            r.violation("shipped-validate", {"kind": "validator-rejects-checked-in-table", "first": {"case_line": c[:20000], "model": mo}}, False)
        elif not rest:
            r.obligations[-1] = (r.obligations[-1][0], True, "only failures explained by known finding K3")
    r.cov["programs"] = ndirs
    r.cov["disagreements_checked"] = len(hits) + len(mm)
    r.cov["exhaustive"] = True
    r.cov["samples"] = [c[:300] for c in res["cases"][:6]]
    return r.finish(LEVEL, "finite statement about the working tree, decided exhaustively: regenerate the four directories with the generator built from the working tree and compare all twelve files; "
                    "Lean validators give the semantic half (the shipped front end's tables parse/lex exactly parser.lox)", common.TRUSTED_COMMON)
