"""C04 Conflicts are reported exactly when the grammar is not LALR(1)."""
import common
import lrcommon
import notecommon
from props import c04_resolve
from props import c01_genmodel
from props import c04_verdict

LEVEL = "proof"


def run(r):
    r.require_theorems(1)
    r.run_witnesses(["C04", "C01"])
    c04_resolve.run_resolve(r)
    c01_genmodel.run_genmodel(r, props=("C01", "C04"))
    c04_verdict.run_verdict(r)
    n = 250 if r.tier == "quick" else 6000
    notecommon.run_notes(r, "lalr", "C04", n, label="verdict = (independent LALR(1) reference keeps a conflict after the documented precedence rule); "
                         "accepted automata equal the reference automaton item for item")
    # accepted grammars: the verified validator excludes hidden conflicts and missing lookaheads on the emitted tables
    nq = 8 if r.tier == "quick" else 100
    res = r.run_family("lrgen", n=nq, timeout=7200)
    vfail, mism, hits = lrcommon.classify(res)
    nval = res["meta"].get("counters", {}).get("validated", 0)
    r.obligations.append(("validator: emitted tables of accepted grammars are deterministic and complete w.r.t. the exported item sets (%d grammars)" % nval,
                          not vfail and nval > 0, "%d failures" % len(vfail)))
    if vfail:
        i, c, im, mo = vfail[0]
        r.violation("lr-tables", {"kind": "validator-rejects-emitted-table", "first": {"case_line": lrcommon.expand_lets(res["cases"], i)[:20000], "model": mo}},
                    False)
    mine = hits.get("C04", [])
    for (i, c, im, o) in mine[:2]:
        r.violation("lrgen-%d" % i, {"kind": "property-violated-by-implementation", "what": o}, True)
    r.assumptions += c04_resolve.ASSUMPTIONS + [
        "accepted grammars: item sets are exactly the LALR(1) item sets (check = no missing item/lookahead, justify = no invented one; items_exact, tables_are_lalr), "
        "evaluated on every emitted table; refused grammars: the verdict is compared with the independent reference (a test; no_invented_conflict_of is proved but not run on refused grammars)"]
    return r.finish(LEVEL, "Lean: resolveConflicts decision logic for all action cells (only one-rule S/R pairs with explicit precedences are settled; verdict = some cell keeps >1 action), "
                    "validator soundness for accepted tables; tie: resolve family vs the real resolveConflicts, verdict+automaton vs independent LALR(1) reference",
                    common.TRUSTED_COMMON)
