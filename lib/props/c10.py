"""C10 Emitted tables are faithful to the automata they encode."""
import common
import lexcommon
import lrcommon
from props import c10_table
from props import c02_lexmodel
from props import c02_lexemit
from props import c01_emit

LEVEL = "proof"


def run(r):
    r.require_theorems(1)
    c10_table.run_table(r)
    lexcommon.run_lex(r, "C10", use=("lex.bisim", "lex.wfmodes"), also_if_broken=("C02", "C07", "C11"))
    c02_lexmodel.run_lexmodel(r, "C10")
    c02_lexemit.run_lexemit(r, "C10")
    c01_emit.run_emit(r, "C10")
    # parser tables: the validator reads the arrays back by the documented row format
    n = 8 if r.tier == "quick" else 120
    res = r.run_family("lrgen", n=n, timeout=7200)
    vfail, mism, hits = lrcommon.classify(res)
    nval = res["meta"].get("counters", {}).get("validated", 0)
    r.obligations.append(("validator: parser arrays read back from parser.gen.go = a valid LR automaton for the grammar with the exported item sets (%d grammars)" % nval,
                          not vfail and nval > 0, "%d failures" % len(vfail)))
    if vfail:
        i, c, im, mo = vfail[0]
        found = hits.get("C01", []) or hits.get("C09", [])
        r.violation("lr-tables", {"kind": "validator-rejects-emitted-table", "first": {"case_line": lrcommon.expand_lets(res["cases"], i)[:20000], "model": mo},
                                  "oracle_hits": [h[3] for h in found[:2]]}, bool(found))
    r.assumptions += c10_table.ASSUMPTIONS if hasattr(c10_table, "ASSUMPTIONS") else []
    return r.finish(LEVEL, "Lean: table codec round trip for all rows (AddRow/Array/_Find), lexer row codec, bisim_sound and decode_wf for mode tables, LR.check for parser tables; "
                    "tie: table family vs newTable, validators on every emitted table", common.TRUSTED_COMMON)
