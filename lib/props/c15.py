"""C15 Character classes and literals denote exact code-point sets."""
import common

LEVEL = "proof"


def parse_ranges(s):
    xs = [int(x) for x in s.split()]
    return [(xs[i], xs[i + 1]) for i in range(0, len(xs) - 1, 2)]


def points(*lists):
    ps = set()
    for l in lists:
        for b, e in l:
            for x in (b - 1, b, b + 1, e - 1, e, e + 1):
                ps.add(x)
    return ps


def member(rs, x):
    return any(b <= x <= e for b, e in rs)


def oracle(case, impl):
    """Evaluates the property statement itself on the implementation's answer.
    Returns None if it holds, else a description."""
    op, _, payload = case.partition(" ")
    if impl.startswith("PANIC"):
        return "implementation panicked: " + impl
    try:
        if op == "rang3.flatten":
            inp = parse_ranges(payload)
            out = parse_ranges(impl)
            if any(b > e for b, e in inp):
                return None
            for x in points(inp, out):
                if member(inp, x) != member(out, x):
                    return "code point %d: in input set = %s, in flattened set = %s" % (x, member(inp, x), member(out, x))
            for i in range(len(out) - 1):
                if not (out[i][1] < out[i + 1][0]):
                    return "output not sorted/disjoint at %d" % i
        elif op == "rang3.subtract":
            a, _, b = payload.partition("|")
            a, b = parse_ranges(a), parse_ranges(b)
            out = parse_ranges(impl)
            if any(x > y for x, y in a + b):
                return None
            for x in points(a, b, out):
                want = member(a, x) and not member(b, x)
                if member(out, x) != want:
                    return "code point %d: in A\\B = %s, in result = %s" % (x, want, member(out, x))
        elif op == "rang3.normalize":
            inp = parse_ranges(payload)
            if any(b > e for b, e in inp):
                return None
            pieces = parse_ranges(impl.split(";")[0])
            for i in range(len(pieces)):
                for j in range(i + 1, len(pieces)):
                    (b1, e1), (b2, e2) = pieces[i], pieces[j]
                    if max(b1, b2) <= min(e1, e2):
                        return "pieces %s and %s overlap" % (pieces[i], pieces[j])
            for (b, e) in inp:
                inside = [(pb, pe) for (pb, pe) in pieces if b <= pb and pe <= e]
                for x in points([(b, e)], pieces):
                    if (b <= x <= e) != member(inside, x):
                        return "range %s is not the exact union of the pieces it contains (code point %d)" % ((b, e), x)
            for x in points(inp, pieces):
                if member(inp, x) != member(pieces, x):
                    return "code point %d gained or lost by splitting" % x
            # the callbacks tell the caller WHICH pieces replace which range (mode.normalizeInputs relabels the
            # edges with them): replaying them, every input range must end up as the exact union of its pieces
            log = impl.split(";", 1)[1].strip() if ";" in impl else ""
            owners = {}
            for i, rg in enumerate(inp):
                owners.setdefault(rg, set()).add(i)
            if log:
                for ent in log.split("/"):
                    q = parse_ranges(ent)
                    if len(q) != 4:
                        return "callback entry %r does not hold four ranges" % ent
                    own = owners.pop(q[0], set())
                    for pc in set(q[1:]):
                        owners.setdefault(pc, set()).update(own)
            for i, (b, e) in enumerate(inp):
                mine = [pc for pc, ow in owners.items() if i in ow]
                for x in points([(b, e)], mine):
                    if (b <= x <= e) != member(mine, x):
                        return "after the callbacks, range %s is relabelled with pieces %s which are not its exact union (code point %d)" % ((b, e), sorted(mine), x)
        elif op == "rang3.rel":
            (b1, e1), (b2, e2) = parse_ranges(payload)
            if b1 > e1 or b2 > e2:
                return None
            got = [int(x) for x in impl.split()]
            want = [int(b1 <= b2 and e2 <= e1), int(max(b1, b2) <= min(e1, e2)), int(max(b1, b2) <= min(e1, e2) + 1),
                    (b1 > b2) - (b1 < b2) or (e1 > e2) - (e1 < e2)]
            # internal helper relations: a disagreement here is not by itself a violation of C15;
            # it shows up as a correspondence break and the other ops are the search.
            _ = (got, want)
        elif op == "rang3.flattenlog":
            inp = parse_ranges(payload)
            if any(b > e for b, e in inp):
                return None
            eff, _, res = impl.partition(";")
            eff, res = parse_ranges(eff), parse_ranges(res)
            for x in points(inp, eff):
                if member(inp, x) != member(eff, x):
                    return "merge callbacks change the set at code point %d" % x
            if sorted(eff) != sorted(res):
                return "callback effect %s differs from returned ranges %s" % (eff, res)
    except Exception as ex:  # malformed answer
        return "unparseable answer %r (%s)" % (impl, ex)
    return None


def analyse(r, fam, res):
    """Property oracle on every case; model/impl disagreements are searched with it."""
    bad = 0
    for i, c in enumerate(res["cases"]):
        why = oracle(c, res["impl"][i])
        if why:
            bad += 1
            if bad <= 3:
                r.violation("%s-%d" % (fam, i), {"kind": "property-violated-by-implementation", "case": c, "implementation": res["impl"][i],
                                                 "model": res["model"][i] if i < len(res["model"]) else None, "why": why,
                                                 "replay_case_line": c}, True)
    r.obligations.append(("oracle %s: set-theoretic meaning holds on every generated case (support, not proof)" % fam, bad == 0, "%d failing" % bad))
    mism = res["mismatches"]
    r.obligations.append(("correspondence %s: model = implementation on every case" % fam, not mism, "%d mismatches" % len(mism)))
    if mism and bad == 0:
        i, c, im, mo = mism[0]
        r.violation("%s-corr" % fam, {"kind": "correspondence-broken", "family": fam, "first_disagreement": {"case": c, "implementation": im, "model": mo},
                                      "count": len(mism), "note": "the property oracle found no failing input among %d cases" % len(res["cases"]),
                                      "replay_case_line": c}, False)


def run(r):
    r.require_theorems(1)
    r.run_witnesses()
    n = 300 if r.tier == "quick" else 5000
    res = r.run_family("rang3", n=n)
    analyse(r, "rang3", res)
    # class expressions as TEXT through the real front end (escapes, escaped dash in every position, ~, difference)
    res2 = r.run_family("classtext", n=400 if r.tier == "quick" else 20000)
    orc = open(res2["dir"] + "/oracle.txt", encoding="utf-8", errors="replace").read().split("\n")
    hits = [(i, c, res2["impl"][i], orc[i]) for i, c in enumerate(res2["cases"]) if i < len(orc) and orc[i].strip()]
    r.obligations.append(("oracle classtext: GetRanges of every class expression parsed from text = the meaning of its written items (support, not proof)",
                          not hits, "%d failing of %d" % (len(hits), len(res2["cases"]))))
    for (i, c, im, o) in hits[:3]:
        r.violation("classtext-%d" % i, {"kind": "property-violated-by-implementation", "what": o[:4000], "case": c, "implementation": im,
                                          "model": res2["model"][i] if i < len(res2["model"]) else None}, True)
    mm = res2["mismatches"]
    r.obligations.append(("correspondence classtext: classItems (on_char_class) + ClassExpr.eval (GetRanges) = real front end on every class text",
                          not mm and len(res2["cases"]) > 0, "%d mismatches" % len(mm)))
    if mm and not hits:
        i, c, im, mo = mm[0]
        r.violation("classtext-corr", {"kind": "correspondence-broken", "family": "classtext", "first_disagreement": {"case": c, "implementation": im, "model": mo},
                                       "count": len(mm), "note": "theorems class_items_as_written / class_text_den / eval_den are about Lox.Rang3.classItems and ClassExpr.eval"}, False)
    r.assumptions += ["the tokens of a class (CLASS_CHAR / CLASS_DASH and their code points) are produced by the shipped front-end lexer, whose tables are validated under C14; the family feeds text, the model receives the intended token list",
                      "int32 arithmetic does not overflow on code points (model uses Int)",
                      "the order of ranges with equal lower bound after Flatten's second (unstable) sort does not affect the result (proved for the merge loop: see Lox.Props.C15)"]
    return r.finish(LEVEL, "theorems: range algebra denotations for all lists of ranges (induction, no universe bound); tie: exhaustive small universe + boundary sampling vs the real rang3 functions",
                    common.TRUSTED_COMMON)


def replay(r, path):
    import json
    d = json.load(open(path))
    line = d.get("replay_case_line") or d.get("case")
    p = r.tmp + "/replay.txt"
    open(p, "w").write(line + "\n")
    res = r.run_family("rang3", replay=p)
    analyse(r, "rang3", res)
    return r.finish(LEVEL, "replay", common.TRUSTED_COMMON)
