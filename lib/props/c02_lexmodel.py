"""C02 / C10, generator part: the lexer generator's own algorithms against their Lean model.

`run_lexmodel(r, prop)` runs the `lexmodel` correspondence family (harness/drv/ops_lexmodel.go with
the export files harness/export/internal__lexergen__{dfa,mode}/model.go, against
lean/Lox/Lex/{GenNFA,GenDFA,GenOpt,DrvGen}.lean). Random specifications go through the real front
end; for every mode the real `NFACons`, `normalizeInputs`, `NFAToDFA` (before and after
`optimize`), `splitStartState`, `mergeTransitions`, `pickAction` are observed stage by stage and
compared with the model the theorems of Lox/Props/C02_gen.lean and C10_gen.lean talk about:

    lex.rxre       Rx.toRe            = the Re the lexgen family validates tables against
    lex.thompson   modeNFA            = the real mode NFA, state ids included
    lex.normalize  normalizeNFA       = the NFA after normalizeInputs
    lex.subset     subset             = NFAToDFA without optimize   (up to renaming of DFA states)
    lex.optimize   optimize           = … after optimize
    lex.build      splitStart, mergeTransitions, pickAction = the DFA ModeBuilder.Build returns
    lex.runs       runs of the final DFA on all words of length <= 3 over the mode's alphabet

Independently of the model, the oracle column evaluates the property statement itself on the REAL
final DFA: on every such word, dead / unlabelled / winning rule must be what the rule-level
reference (own Thompson NFAs + set simulation, harness/drv/lexoracle.go) says.
"""
import common

STAGES = [
    ("lex.rxre", "Rx.toRe (reading of a written expression) = prefix code used by lex.bisim (astExprCode)"),
    ("lex.thompson", "Thompson construction: modeNFA = NFA built by the real NFACons methods (exact state ids, edges, accepting states, non-greedy marks)"),
    ("lex.normalize", "normalizeNFA = NFA after the real normalizeInputs"),
    ("lex.subset", "subset = real NFAToDFA before optimize (canonical renumbering; NFA-state sets, winners, transitions)"),
    ("lex.optimize", "optimize = real optimize (partition refinement)"),
    ("lex.build", "splitStart + mergeTransitions + pickAction = DFA returned by the real ModeBuilder.Build"),
    ("lex.runs", "runs of the model's final DFA = runs of the real final DFA on all words of length <= 3"),
]

ASSUMPTIONS = [
    "lexmodel: DFA states are compared up to renaming (breadth-first canonical numbering on both sides); the real numbering of "
    "transitiveClosure depends on an unstable sort and is not modelled",
    "lexmodel: all rules of a mode come from one file (pickAction's cross-file conflict is an error path and not modelled)",
]


def classify(res):
    oracle = open(res["dir"] + "/oracle.txt", encoding="utf-8", errors="replace").read().split("\n")
    hits = {}
    for i, c in enumerate(res["cases"]):
        o = oracle[i] if i < len(oracle) else ""
        if o.strip():
            tags = o.split(":", 1)[0]
            for pid in tags.split(","):
                hits.setdefault(pid.strip(), []).append((i, c, res["impl"][i], o))
    by = {op: [] for op, _ in STAGES}
    by["drift"] = []
    by["other"] = []
    for m in res["mismatches"]:
        op = m[1].split(" ", 1)[0]
        if m[1].startswith("# export-drift"):
            by["drift"].append(m)
        elif m[1].startswith("#"):
            continue  # rejected / panicking specifications: reported through the oracle column
        else:
            by.get(op, by["other"]).append(m)
    return by, hits


def analyse(r, prop, res):
    by, hits = classify(res)
    counters = res["meta"].get("counters", {})
    count = {}
    for c in res["cases"]:
        op = c.split(" ", 1)[0]
        count[op] = count.get(op, 0) + 1
    # the oracle column is tagged C02; its statement ("the real final DFA is dead / unlabelled / labelled as the rules say") is
    # literally C10's as well ("subset construction, state merging and range merging change nothing observable")
    mine = hits.get("C02", []) if prop in ("C02", "C10") else []
    if prop in ("C02", "C10"):
        r.obligations.append(("oracle lexmodel: on every word of length <= 3 over the mode's alphabet the REAL final DFA is dead / unlabelled / labelled "
                              "exactly as the rule-level definition says (%d words, %d modes; support, not proof)" % (counters.get("words", 0), counters.get("modes", 0)),
                              not mine and counters.get("modes", 0) > 0, "%d modes with a differing word" % len(mine)))
        for (i, c, im, o) in mine[:3]:
            r.violation("lexmodel-%d" % i, {"kind": "property-violated-by-implementation", "what": o[:6000],
                                            "implementation_output": im[:4000], "case": c[:20000],
                                            "replay_case_line": c, "replay_family": "lexmodel"}, True)
    broken = []
    for op, what in STAGES:
        bad = by[op]
        r.obligations.append(("tie lexmodel %s: %s (%d cases)" % (op, what, count.get(op, 0)),
                              not bad and count.get(op, 0) > 0, "%d mismatches" % len(bad)))
        broken += bad
    r.obligations.append(("tie lexmodel: the staged pipeline of the export files reproduces ModeBuilder.Build and the rebuilt NFAs have the ids of the pass "
                          "(no `export-drift` line)", not by["drift"], "%d drifts" % len(by["drift"])))
    broken += by["drift"] + by["other"]
    if broken and not mine:
        i, c, im, mo = broken[0]
        r.violation("lexmodel-tie", {
            "kind": "correspondence-broken", "family": "lexmodel",
            "first_disagreement": {"case": c[:20000], "implementation": im[:6000], "model": mo[:6000]},
            "counts": {k: len(v) for k, v in by.items() if v},
            "note": "search: the rule-level reference found no differing word among %d words of %d modes; oracle hits for other properties: %s" % (
                counters.get("words", 0), counters.get("modes", 0), {k: len(v) for k, v in hits.items()}),
            "names": "theorems of Lox/Props/C02_gen.lean and C10_gen.lean talk about the models Lox/Lex/GenNFA.lean, GenDFA.lean, GenOpt.lean; "
                     "the first stage that disagrees localises the break",
            "replay_case_line": c, "replay_family": "lexmodel"}, False)
    r.notes.append("lexmodel family: %d specifications, %d modes, %d with states merged by optimize, %d with a split start state, largest subset DFA %s states" % (
        counters.get("accepted", 0), counters.get("modes", 0), counters.get("optimize-merged-states", 0),
        counters.get("start-state-split", 0), res["meta"].get("extra", {}).get("max-dfa-states")))
    return by, hits


def run_lexmodel(r, prop="C02"):
    """Called from the C02 / C10 checks. Appends obligations/violations to `r`; returns the family result."""
    n = 60 if r.tier == "quick" else 600
    res = r.run_family("lexmodel", n=n, timeout=7200)
    analyse(r, prop, res)
    for a in ASSUMPTIONS:
        if a not in r.assumptions:
            r.assumptions.append(a)
    return res


def replay_lexmodel(r, line, prop="C02"):
    """Replay one `lex.*` case line of the family (from a violation file's `replay_case_line`): the rules are
    rebuilt from the line, rendered as a .lox specification and sent through all stages again."""
    p = r.tmp + "/replay-lexmodel.txt"
    with open(p, "w") as f:
        f.write(line + "\n")
    res = r.run_family("lexmodel", replay=p)
    analyse(r, prop, res)
    return res
