"""C10, table-codec part: the row-compressed table of internal/codegen/table.go.

`run_table(r)` runs the `table` correspondence family (harness/drv/ops_table.go against
lean/Lox/Table/{Model,Drv}.lean), records the obligations and, independently of the Lean model,
evaluates the property statement itself on every answer of the implementation:
re-decode the emitted array with the documented addressing (`off := a[i]; count := a[off];
row := a[off+1 : off+1+count]`) and compare with the rows that were added.
"""
import common

ASSUMPTIONS = [
    "table arrays are shorter than 2^31 elements, so offsets/counts converted with E(x) do not wrap (model uses unbounded integers)",
    "the Go dedup map is keyed by rowKey(row) (varints of int64(x)); the model keys by row content; "
    "rowKey is proved injective (Lox.Props.C10.rowKey_injective) and its byte model is tied by the table.rowkey* ops",
]


def parse_rows(payload):
    idx, rows = [], []
    for sec in payload.split(";"):
        if not sec.strip():
            continue
        i, _, r = sec.partition(":")
        idx.append(int(i))
        rows.append([int(x) for x in r.split()])
    return idx, rows


def decode_varints(bs):
    """Inverse of binary.AppendVarint applied repeatedly; None if malformed."""
    out, i = [], 0
    while i < len(bs):
        ux, shift = 0, 0
        while True:
            if i >= len(bs):
                return None
            b = bs[i]
            i += 1
            if b < 0 or b > 255:
                return None
            ux |= (b & 0x7F) << shift
            shift += 7
            if b < 0x80:
                break
        x = ux >> 1
        if ux & 1:
            x = ~x
        out.append(x)
    return out


def oracle(case, impl):
    """The property statement evaluated on the implementation's answer. None = holds."""
    op, _, payload = case.partition(" ")
    try:
        if op in ("table.build32", "table.buildu32"):
            unsigned = op.endswith("u32")
            hole = 4294967295 if unsigned else -1
            idx, rows = parse_rows(payload)
            lo, hi = (0, 4294967295) if unsigned else (-2147483648, 2147483647)
            if any(not (lo <= v <= hi) for r in rows for v in r):
                return None if impl.strip() == "bad-value" else "value outside the element type accepted"
            increasing = all(idx[k] < idx[k + 1] for k in range(len(idx) - 1)) and (not idx or idx[0] >= 0)
            if impl.startswith("PANIC"):
                if increasing:
                    return "panic on strictly increasing indices: " + impl
                return None
            if not increasing:
                return "no panic although the indices do not strictly increase (rows would be overwritten or misplaced)"
            a = [int(x) for x in impl.split()]
            n = (idx[-1] + 1) if idx else 0
            if len(a) < n:
                return "array shorter than the offset vector (%d < %d)" % (len(a), n)
            added = dict(zip(idx, rows))
            for i in range(n):
                off = a[i]
                if i not in added:
                    if off != hole:
                        return "index %d was never added but its offset entry is %d, not the hole marker" % (i, off)
                    continue
                if off == hole:
                    return "index %d was added but reads as a hole" % i
                if not (n <= off < len(a)):
                    return "offset of index %d = %d is outside the row store [%d,%d)" % (i, off, n, len(a))
                count = a[off]
                if count < 0 or off + 1 + count > len(a):
                    return "row of index %d: count %d leaves the array (offset %d, length %d)" % (i, count, off, len(a))
                got = a[off + 1:off + 1 + count]
                if got != added[i]:
                    return "index %d reads back %s, added %s" % (i, got, added[i])
            for x in range(len(idx)):
                for y in range(x + 1, len(idx)):
                    same_off = a[idx[x]] == a[idx[y]]
                    if same_off != (rows[x] == rows[y]):
                        return "indices %d and %d: same offset = %s but rows equal = %s" % (idx[x], idx[y], same_off, rows[x] == rows[y])
        elif op in ("table.rowkey32", "table.rowkeyu32"):
            if impl.startswith("PANIC"):
                return "rowKey panicked: " + impl
        elif op in ("table.write32", "table.writeu32"):
            xs = [int(x) for x in payload.split()]
            if impl.strip() == "bad-value":
                return None
            text = impl.replace("/", " ")
            back = [int(t) for t in text.replace(",", " ").split()]
            if back != xs:
                return "emitted text reads back as %s, not %s" % (back[:20], xs[:20])
    except Exception as ex:  # malformed answer
        return "unparseable answer %r (%s)" % (impl[:200], ex)
    return None


def analyse(r, fam, res):
    bad = 0
    for i, c in enumerate(res["cases"]):
        why = oracle(c, res["impl"][i])
        if why:
            bad += 1
            if bad <= 3:
                r.violation("%s-%d" % (fam, i), {"kind": "property-violated-by-implementation", "case": c,
                                                 "implementation": res["impl"][i],
                                                 "model": res["model"][i] if i < len(res["model"]) else None,
                                                 "why": why, "replay_case_line": c, "replay_family": "table"}, True)
    # key injectivity on the implementation's own answers: two different rows with one key is a
    # violation (wrong sharing); a key that merely is not the documented varint string is only a
    # correspondence break (reported through the model mismatch below).
    keys, undecodable = {}, 0
    for i, c in enumerate(res["cases"]):
        op, _, payload = c.partition(" ")
        if op not in ("table.rowkey32", "table.rowkeyu32"):
            continue
        im = res["impl"][i].strip()
        if im == "bad-value" or im.startswith("PANIC"):
            continue
        try:
            row = tuple(int(x) for x in payload.split())
            if decode_varints([int(x) for x in im.split()]) != list(row):
                undecodable += 1
        except ValueError:
            undecodable += 1
            continue
        prev = keys.setdefault((op, im), (row, c))
        if prev[0] != row:
            bad += 1
            if bad <= 3:
                r.violation("%s-key-%d" % (fam, i), {"kind": "property-violated-by-implementation",
                                                    "why": "rowKey collision: rows %s and %s have the same key %s, so AddRow shares them" % (list(prev[0]), list(row), im),
                                                    "case": c, "other_case": prev[1], "implementation": im,
                                                    "replay_case_line": c, "replay_family": "table"}, True)
    r.obligations.append(("tie %s: rowKey bytes are the signed-varint string of the row (independent python decoder)" % fam, undecodable == 0,
                          "%d keys do not decode back to their row" % undecodable))
    r.obligations.append(("oracle %s: every emitted array re-decodes to the added rows, holes read as holes, offsets shared iff rows equal, "
                          "all offsets/counts in range; no two different rows with one key (support, not proof)" % fam, bad == 0, "%d failing" % bad))
    mism = res["mismatches"]
    r.obligations.append(("correspondence %s: model = implementation on every case" % fam, not mism, "%d mismatches" % len(mism)))
    if mism and bad == 0:
        i, c, im, mo = mism[0]
        r.violation("%s-corr" % fam, {"kind": "correspondence-broken", "family": fam,
                                      "first_disagreement": {"case": c, "implementation": im, "model": mo},
                                      "count": len(mism),
                                      "note": "the property oracle found no failing input among %d cases" % len(res["cases"]),
                                      "replay_case_line": c, "replay_family": "table"}, False)
    panics = res["meta"].get("counters", {}).get("panic", 0)
    r.notes.append("table family: %d cases, %d of them exercise the monotonicity panic" % (len(res["cases"]), panics))


def run_table(r):
    """Called from the C10 check. Appends obligations/violations to `r`; returns the family result."""
    n = 500 if r.tier == "quick" else 8000
    res = r.run_family("table", n=n)
    analyse(r, "table", res)
    for a in ASSUMPTIONS:
        if a not in r.assumptions:
            r.assumptions.append(a)
    return res


def replay_table(r, line):
    """Replay one `table.*` case line (from a violation file's `replay_case_line`)."""
    p = r.tmp + "/replay-table.txt"
    with open(p, "w") as f:
        f.write(line + "\n")
    res = r.run_family("table", replay=p)
    analyse(r, "table", res)
    return res
