"""C17 Ill-formed specifications are rejected at the right place; well-formed ones never."""
import binascii
import common

LEVEL = "proof"


def decode_case(line):
    """Returns (fault, blame, [lox texts]) of an `analyze` case line."""
    fault, blame, files = "none", "-", []
    if line.startswith("#"):
        # "# overlap <hex>;<hex> => …"
        parts = line.split()
        hexes = parts[2] if len(parts) > 2 else ""
        fault = "overlap"
    else:
        extra = line.split("|", 1)[1] if "|" in line else ""
        f = dict(x.split("=", 1) for x in extra.split() if "=" in x)
        fault, blame, hexes = f.get("fault", "none"), f.get("blame", "-"), f.get("files", "")
    for h in hexes.split(";"):
        if h in ("", "-"):
            files.append("")
            continue
        try:
            files.append(binascii.unhexlify(h).decode("utf-8", "replace"))
        except Exception:
            files.append("<undecodable>")
    return fault, blame, files


def analyse(r, res):
    oracle = open(res["dir"] + "/oracle.txt", encoding="utf-8", errors="replace").read().split("\n")
    hits = []
    for i, c in enumerate(res["cases"]):
        o = oracle[i] if i < len(oracle) else ""
        if o.strip():
            hits.append((i, c, res["impl"][i], o))
    counters = res["meta"].get("counters", {})
    n_wf = counters.get("fault:none", 0)
    n_faulty = sum(v for k, v in counters.items() if k.startswith("fault:") and k != "fault:none")
    r.obligations.append(("oracle: every well-formed specification accepted (%d), every single/multi-fault variant rejected (%d) "
                          "with a diagnostic inside the faulty declaration; no panic (support, not proof)" % (n_wf, n_faulty),
                          not hits, "%d violating cases of %d" % (len(hits), len(res["cases"]))))
    for (i, c, im, o) in hits[:3]:
        fault, blame, files = decode_case(c)
        r.violation("analyze-%d" % i, {
            "kind": "property-violated-by-implementation", "what": o, "fault_injected": fault,
            "lines_of_faulty_declarations(1000*file+line)": blame,
            "lox_files": {"%s.lox" % chr(ord("a") + k): t for k, t in enumerate(files)},
            "implementation": im, "model": res["model"][i] if i < len(res["model"]) else None,
            "expected": "well-formed: no diagnostic; faulty: at least one diagnostic, positioned inside a faulty declaration",
            "replay_case_line": c, "family": "analyze",
        }, True)
    mism = res["mismatches"]
    r.obligations.append(("correspondence dec.analyze: Lean analyze (diagnostics in order, kind/name/line) and wellFormedB = "
                          "real front end and generator intent on every case", not mism, "%d mismatches" % len(mism)))
    if mism and not hits:
        i, c, im, mo = mism[0]
        fault, blame, files = decode_case(c)
        r.violation("analyze-corr", {
            "kind": "correspondence-broken", "family": "analyze",
            "first_disagreement": {"implementation": im, "model": mo, "fault_injected": fault,
                                   "lox_files": {"%s.lox" % chr(ord("a") + k): t for k, t in enumerate(files)}},
            "count": len(mism),
            "note": "search: the C17 oracle (accept well-formed / reject faulty inside the faulty declaration) found no failing input among %d cases; "
                    "the model Lox/Dec/Analyze.lean no longer mirrors internal/ast (a new, reworded or re-ordered diagnostic shows up as `other:` or as a different kind/line)" % len(res["cases"]),
            "names": "theorems Lox.Props.C17.* speak about Lox.Dec.Analyze.analyze",
            "replay_case_line": c,
        }, False)
    r.cov["analyze_counters"] = counters
    r.cov["injectors"] = res["meta"].get("extra", {}).get("injectors", [])


def run(r):
    r.require_theorems(3)
    r.run_witnesses()
    n = 150 if r.tier == "quick" else 3000
    res = r.run_family("analyze", n=n)
    analyse(r, res)
    r.assumptions += [
        "the AST handed to the Lean model is the harness' own AST of the text it rendered (declaration ids, line of the first token of every node); "
        "that the real parser builds the corresponding ast.* tree from that text is covered by the front end's own tables (C14) and by the line/kind agreement of every diagnostic",
        "`Conflicting lexer actions` (rules of two files accepting the same text in one mode) depends on the rules' languages and is outside the AST-level model; "
        "the generator keeps the files' default-mode rules disjoint and the `overlap` sub-family checks that the overlap is reported without a crash",
        "WellFormed presupposes that the files parse (SyntaxOk: valid escapes, positive precedences that fit an int, `?` as the only cardinality of @list, non-empty expressions)",
    ]
    return r.finish(LEVEL,
                    "Lean: analyze = [] <-> WellFormed (both directions), every diagnostic lies in the span of the declaration it blames, "
                    "every fault injector yields its diagnostic inside the injected declaration; tie: random multi-file specifications and "
                    "every injector at random sites through the real parser + ast.Context.Analyze, diagnostics compared in order",
                    common.TRUSTED_COMMON)


def replay(r, path):
    import json
    d = json.load(open(path))
    line = d.get("replay_case_line") or d.get("case")
    p = r.tmp + "/replay.txt"
    open(p, "w").write(line + "\n")
    res = r.run_family("analyze", replay=p)
    analyse(r, res)
    return r.finish(LEVEL, "replay", common.TRUSTED_COMMON)
