"""C04, verdict for refused AND accepted grammars: the output of the real lr1.ConstructLALR (item sets,
transitions, HasConflicts) validated without emitted tables.

`run_verdict(r)` runs the `conflict` correspondence family (harness/drv/ops_conflict.go against
lean/Lox/LR/{ConflictCheck,DrvConflict}.lean) and, when present, the `construct` family
(harness/drv/ops_construct.go against lean/Lox/LR/{ConstructModel,DrvConstruct}.lean).

  conflict   one `lr.conflict_check` line per grammar. The Lean side answers `ok conflicts` / `ok clean` only if
             the recorded item sets are closed (⊇), justified (⊆), have distinct kernels AND the conflict flag
             recomputed from them by definition equals the recorded HasConflicts (theorems
             Lox.Props.C04.conflict_check_sound / verdict_exact / refused_has_lalr_conflict / accepted_has_none).
             The oracle column carries the verdict of the independent LALR(1) reference of family `lalr` on the same run.
  construct  the Lean model of the worklist of ConstructLALR (states in creation order, items, transitions) against the
             real one (Lox.Props.C04.construct_*).

A `fail …` answer (or any other disagreement) is a violation. It comes with a failing input (found_input=True) when
the independent reference of the same run also flags that grammar; otherwise it is reported `no-failing-input-found`
and names the validator / correspondence that no longer checks.
"""
import common

ASSUMPTIONS = [
    "the validated certificate is what the harness reads from the ParserTable of the real run: States[i].Items(), "
    "Transitions(state).Inputs()/Get, HasConflicts; Prod.Rule/Precedence/Associativity as printed in the prodinfo section",
    "Lox.LR.Gen.cellOn / Lox.Dec.hasConflicts model createActions / the loop of resolveConflicts (tied by families genmodel and resolve)",
]

THEOREM_NOTE = ("Lox.Props.C04.conflict_check_sound (item sets = LALR(1) item sets by definition), verdict_exact (flag recomputed from the "
                "certificate = some cell with two candidate actions the documented precedence rule does not settle), "
                "refused_has_lalr_conflict, accepted_has_none talk about what `lr.conflict_check` validates")


def _oracle(res):
    try:
        return open(res["dir"] + "/oracle.txt", encoding="utf-8", errors="replace").read().split("\n")
    except OSError:
        return []


def _grammar_note(cases, i):
    """The `# conflict …` / `# construct …` note preceding case i (the .lox text of the grammar)."""
    for j in range(i - 1, max(-1, i - 3), -1):
        if cases[j].startswith("#"):
            return cases[j]
    return ""


def analyse(r, res, family, op, what, with_oracle=True):
    cases, impl, model = res["cases"], res["impl"], res["model"]
    oracle = _oracle(res)
    counters = res["meta"].get("counters", {})
    lines = [i for i, c in enumerate(cases) if c.startswith(op + " ")]
    hits = {}
    for i in lines:
        o = oracle[i].strip() if i < len(oracle) else ""
        if o:
            hits[i] = o
    bad = [(i, c, im, mo) for (i, c, im, mo) in res["mismatches"] if c.startswith(op + " ")]
    stray = [m for m in res["mismatches"] if not m[1].startswith(op + " ")]
    r.obligations.append(("%s %s: %s (%d lines; %s)" % (family, op, what, len(lines),
                          ", ".join("%s %d" % kv for kv in sorted(counters.items()))),
                          not bad and len(lines) > 0, "%d failing" % len(bad)))
    if with_oracle:
        r.obligations.append(("oracle %s: the independent LALR(1) reference (family lalr) agrees with the implementation on every grammar of this run "
                              "(support, not proof)" % family, not hits, "%d disagreeing of %d" % (len(hits), len(lines))))
    if stray:
        r.obligations.append(("correspondence %s: bookkeeping lines agree" % family, False,
                              "%d mismatches, first: %r" % (len(stray), stray[0][1][:200])))
    reported = 0
    # 1. disagreements that the independent reference confirms: violation with the grammar as failing input
    for (i, c, im, mo) in bad:
        if i in hits and reported < 3:
            r.violation("%s-%d" % (family, i), {
                "kind": "property-violated-by-implementation", "why": hits[i][:8000], "validator": mo[:2000], "implementation": im[:2000],
                "grammar": _grammar_note(cases, i)[:4000], "case": c[:20000], "replay_case_line": c, "replay_family": family}, True)
            reported += 1
    # 2. reference hits without a validator failure (the validator is then too weak or the reference wrong)
    for i, o in list(hits.items())[:3]:
        if not any(b[0] == i for b in bad) and reported < 3:
            r.violation("%s-oracle-%d" % (family, i), {
                "kind": "property-violated-by-implementation", "why": o[:8000], "validator": (model[i] if i < len(model) else "")[:2000],
                "implementation": impl[i][:2000], "grammar": _grammar_note(cases, i)[:4000], "case": cases[i][:20000],
                "replay_case_line": cases[i], "replay_family": family}, True)
            reported += 1
    # 3. disagreements nobody else confirms
    unconfirmed = [b for b in bad if b[0] not in hits]
    if unconfirmed and reported == 0:
        i, c, im, mo = unconfirmed[0]
        r.violation("%s-corr" % family, {
            "kind": "validator-rejects-or-correspondence-broken", "family": family, "op": op, "count": len(unconfirmed),
            "first_disagreement": {"grammar": _grammar_note(cases, i)[:4000], "case": c[:20000], "implementation": im[:4000], "model": mo[:4000]},
            "note": ("the independent LALR(1) reference found nothing wrong with this grammar" if with_oracle else
                     "this family carries no property oracle: the Lean model of the ConstructLALR worklist and the implementation "
                     "disagree (e.g. a different processing order only renumbers the states; family conflict validates the result itself)"),
            "names": THEOREM_NOTE,
            "replay_case_line": c, "replay_family": family}, False)
    r.cov[family + "_counters"] = counters
    return bad, hits


def run_verdict(r, with_construct=True):
    """Called from the C04 check. Appends obligations/violations to `r`."""
    n = 300 if r.tier == "quick" else 6000
    res = r.run_family("conflict", n=n, timeout=7200)
    out = {"conflict": analyse(r, res, "conflict", "lr.conflict_check",
                               "item sets and transitions of every run of ConstructLALR, refused and accepted, are the LALR(1) automaton by "
                               "definition (closed, justified, kernels distinct) and HasConflicts = the verdict by definition")}
    if with_construct and _has_family(r, "construct"):
        nc = 200 if r.tier == "quick" else 3000
        res2 = r.run_family("construct", n=nc, timeout=7200)
        out["construct"] = analyse(r, res2, "construct", "lr.construct",
                                   "the Lean model of the ConstructLALR worklist produces the states (creation order), items and transitions "
                                   "of the real ConstructLALR", with_oracle=False)
    for a in ASSUMPTIONS:
        if a not in r.assumptions:
            r.assumptions.append(a)
    return out


def _has_family(r, family):
    """True iff the harness registers `family` (the construct family is delivered separately)."""
    import subprocess
    try:
        h = r.build_harness()
        p = subprocess.run([h], stdout=subprocess.PIPE, stderr=subprocess.STDOUT, timeout=60)
        return any(l.split()[:1] == [family] for l in p.stdout.decode(errors="replace").split("\n"))
    except Exception:
        return False


def replay_verdict(r, line, family="conflict"):
    """Replay one case line (a violation file's `replay_case_line`)."""
    p = r.tmp + "/replay-%s.txt" % family
    with open(p, "w") as f:
        f.write(line + "\n")
    res = r.run_family(family, replay=p)
    op = line.split(" ", 1)[0]
    return analyse(r, res, family, op, "replayed line")
