"""C04 / C05, decision-logic part: lr1.resolveConflicts on action cells.

`run_resolve(r)` runs the `resolve` correspondence family (harness/drv/ops_resolve.go +
harness/export/internal__parsergen__lr1/resolve.go against lean/Lox/Dec/{Resolve,DrvResolve}.lean),
records the obligations and, independently of the Lean model, evaluates the property statement
itself on every answer of the implementation:

  C04  an action disappears from a cell only if the cell is exactly one shift and one reduce, all
       contributing shift productions and the reduced production belong to one rule, all
       contributing productions carry one explicit precedence and the reduced one carries an
       explicit precedence; such a cell keeps exactly one of its two actions; every other cell is
       unchanged; the conflict verdict of a cell is "more than one action left"; the verdict of a
       table is the disjunction over its cells.
  C05  (only when the run is for C05) the action kept is the documented one: higher precedence
       wins, equal precedence: @left reduces, @right shifts (associativity of the production on the
       stack). Deviations located at an equal-precedence cell whose reduced production is @right
       are known finding K1 when the implementation agrees with the pinned model and the model
       with K1 switched off (`dec.resolvedoc`) gives the documented answer.
"""
import subprocess

import common

FAMILY = "resolve"
K1_WITNESS_LINE = "dec.resolve 2 3 1 | s 13 0 0 0 0 0 0 0 0 , r 0"   # the calc cell: state 22 on '^'
K1_TEXT = ("@right(n) groups left-to-right: resolveConflicts takes the @right branch only when the shift has exactly one "
           "contributing item (len(shift.Prods)==1 && shift.Prods[0]==reduce.Prods[0]); createActions adds one item per lookahead "
           "(examples/calc: 8 items), so the reduce is kept")

ASSUMPTIONS = [
    "Prod.Precedence is never negative (the front end stores only positive numbers; the model uses Nat with 0 = no qualifier)",
    "pointer equality of *Prod / *Rule / *ItemSet in resolveConflicts and AddShift is equality of production / rule / state numbers",
    "action cells are non-empty (createActions creates a cell only when it adds an action; resolveConflicts asserts it; the model's checkTable panics likewise)",
]


# ---------- parsing ----------
def parse_case(case):
    op, _, payload = case.partition(" ")
    is_, _, cs = payload.partition("|")
    infos = []
    for f in is_.split(";"):
        w = f.split()
        if not w:
            continue
        infos.append((int(w[0]), int(w[1]), int(w[2])))
    cells = []
    for c in cs.split(";"):
        calls = []
        if c.strip():
            for e in c.split(","):
                w = e.split()
                if w[0] == "s":
                    for p in w[2:]:
                        calls.append(("s", int(w[1]), int(p)))
                elif w[0] == "r":
                    calls.append(("r", int(w[1])))
                else:
                    calls.append(("a",))
        cells.append(calls)
    return op, infos, cells


def build_cell(calls):
    """ActionMap.AddShift/AddReduce/AddAccept as documented in action.go; None = the real code panics."""
    cell = []
    for c in calls:
        if c[0] == "s":
            for a in cell:
                if a[0] == "s":
                    if a[1] != c[1]:
                        return None
                    a[2].append(c[2])
                    break
            else:
                cell.append(("s", c[1], [c[2]]))
        elif c[0] == "r":
            cell.append(("r", c[1]))
        else:
            if any(a[0] == "a" for a in cell):
                return None
            cell.append(("a",))
    return cell


def parse_actions(s):
    out = []
    for e in s.split(","):
        w = e.split()
        if not w:
            continue
        if w[0] == "s":
            out.append(("s", int(w[1]), [int(x) for x in w[2:]]))
        elif w[0] == "r":
            out.append(("r", int(w[1])))
        else:
            out.append(("a",))
    return out


def parse_answer(op, impl):
    cells_s, _, flag = impl.rpartition("|")
    cells, flags = [], []
    for c in cells_s.split(";"):
        if op in ("dec.resolve", "dec.resolvedoc"):
            acts, _, f = c.rpartition(":")
            flags.append(int(f))
        else:
            acts = c
            flags.append(None)
        cells.append(parse_actions(acts))
    return cells, flags, int(flag)


def norm(a):
    return (a[0], a[1], tuple(a[2])) if a[0] == "s" else tuple(a)


# ---------- the property statement ----------
def sr_pair_of_one_rule(infos, before):
    """(shift, reduce) if `before` is a cell the documented precedence rule applies to, else None."""
    if len(before) != 2:
        return None
    sh = [a for a in before if a[0] == "s"]
    rd = [a for a in before if a[0] == "r"]
    if len(sh) != 1 or len(rd) != 1:
        return None
    sh, rd = sh[0], rd[0]
    rr, rprec, _ = infos[rd[1]]
    if not sh[2] or rprec <= 0:
        return None
    precs = set()
    for p in sh[2]:
        rule, prec, _ = infos[p]
        if rule != rr or prec <= 0:
            return None
        precs.add(prec)
    if len(precs) != 1:
        return None
    return sh, rd


def documented(shift_prec, reduce_prec, right):
    if shift_prec < reduce_prec:
        return "r"
    if shift_prec > reduce_prec:
        return "s"
    return "s" if right else "r"


def oracle_line(case, impl, want_documented):
    """Returns (violations, k1_candidates): lists of dict(cell_index, why, cell)."""
    bad, k1 = [], []
    op, infos, cells = parse_case(case)
    if impl.startswith("PANIC") or impl.strip() == "bad-op":
        return bad, k1     # shapes createActions cannot produce; covered by the correspondence only
    after_cells, flags, table_flag = parse_answer(op, impl)
    befores = [build_cell(c) for c in cells]
    if any(b is None or not b for b in befores):
        bad.append({"cell_index": -1, "why": "no panic although a cell is empty or was filled inconsistently", "cell": ""})
        return bad, k1
    if len(after_cells) != len(befores):
        bad.append({"cell_index": -1, "why": "answer has %d cells, case has %d" % (len(after_cells), len(befores)), "cell": ""})
        return bad, k1
    any_conflict = False
    for i, (before, after) in enumerate(zip(befores, after_cells)):
        cell_txt = " , ".join(("s %d %s" % (a[1], " ".join(map(str, a[2])))) if a[0] == "s" else " ".join(map(str, a)) for a in before)

        def fail(why):
            bad.append({"cell_index": i, "why": why, "cell": cell_txt, "after": [list(norm(a)) for a in after]})
        nb, na = [norm(a) for a in before], [norm(a) for a in after]
        # nothing invented, order kept
        it = iter(nb)
        if not all(any(x == y for y in it) for x in na):
            fail("the cell after resolution is not a sub-sequence of the cell before")
            continue
        sr = sr_pair_of_one_rule(infos, before)
        if na != nb and sr is None:
            fail("an action was removed from a cell that is not a shift/reduce pair of one rule with explicit precedences "
                 "(reduce/reduce, accept, cross-rule, unqualified or mixed-precedence conflicts must never be hidden)")
            continue
        if sr is not None and len(na) != 1:
            fail("a shift/reduce pair of one rule with explicit precedences was not settled by the precedence rule "
                 "(the grammar would be rejected although the documented rule leaves one action)")
            continue
        conflict = len(na) > 1
        any_conflict = any_conflict or conflict
        if flags[i] is not None and bool(flags[i]) != conflict:
            fail("conflict verdict %d for a cell that keeps %d action(s)" % (flags[i], len(na)))
            continue
        if want_documented and sr is not None:
            sh, rd = sr
            sp, (_, rp, right) = infos[sh[2][0]][1], infos[rd[1]]
            want = documented(sp, rp, right)
            if na[0][0] != want:
                entry = {"cell_index": i, "cell": cell_txt, "after": [list(na[0])],
                         "why": "kept %s, the documented decision for shift precedence %d against reduce precedence %d (%s) is %s" % (
                             "shift" if na[0][0] == "s" else "reduce", sp, rp, "@right" if right else "@left", "shift" if want == "s" else "reduce")}
                if sp == rp and right:
                    entry["facet"] = "self" if all(p == rd[1] for p in sh[2]) else "other-production"
                    k1.append(entry)    # at K1's site; explained only if the model conditions hold, checked by the caller
                else:
                    bad.append(entry)
    if bool(table_flag) != any_conflict:
        bad.append({"cell_index": -1, "why": "HasConflicts = %d but %s cell keeps more than one action" % (table_flag, "some" if any_conflict else "no"), "cell": ""})
    return bad, k1


# ---------- Lean driver on ad-hoc lines ----------
def lean_answers(lines, timeout=600):
    p = subprocess.run([common.LEAN + "/.lake/build/bin/loxdrv"], input=("\n".join(lines) + "\n").encode(),
                       stdout=subprocess.PIPE, stderr=subprocess.PIPE, timeout=timeout)
    out = p.stdout.decode("utf-8", "replace").split("\n")
    return out[:len(lines)]


def as_doc(line):
    op, _, payload = line.partition(" ")
    return {"dec.resolve": "dec.resolvedoc", "dec.table": "dec.tabledoc"}.get(op, op) + " " + payload


def analyse(r, fam, res):
    want_doc = (r.prop == "C05")
    cases, impl, model = res["cases"], res["impl"], res["model"]
    mism = res["mismatches"]
    mism_idx = {m[0] for m in mism}
    bad_total, k1_lines, shown = 0, {}, 0
    for i, c in enumerate(cases):
        try:
            bad, k1 = oracle_line(c, impl[i], want_doc)
        except Exception as ex:  # malformed answer
            bad, k1 = [{"cell_index": -1, "why": "unparseable answer %r (%s)" % (impl[i][:200], ex), "cell": ""}], []
        if k1:
            k1_lines[i] = k1
        for b in bad:
            bad_total += 1
            if shown < 3:
                shown += 1
                _violation(r, fam, i, c, impl[i], model[i] if i < len(model) else None, b)

    # K1: deviations from the documented decision at equal precedence with an @right production on the stack
    k1_cells = sum(len(v) for v in k1_lines.values())
    if k1_lines:
        idxs = sorted(k1_lines)
        doc = dict(zip(idxs, lean_answers([as_doc(cases[i]) for i in idxs])))
        unexplained = 0
        for i in idxs:
            agrees_with_pinned_model = i not in mism_idx
            ok_doc = True
            try:
                op, infos, cells = parse_case(cases[i])
                dcells, _, _ = parse_answer("dec.resolvedoc" if op == "dec.resolve" else "dec.tabledoc", doc[i])
                for e in k1_lines[i]:
                    before = build_cell(cells[e["cell_index"]])
                    sh, rd = sr_pair_of_one_rule(infos, before)
                    want = documented(infos[sh[2][0]][1], infos[rd[1]][1], infos[rd[1]][2])
                    got = dcells[e["cell_index"]]
                    if len(got) != 1 or got[0][0] != want:
                        ok_doc = False
            except Exception:
                ok_doc = False
            if not (agrees_with_pinned_model and ok_doc):
                unexplained += len(k1_lines[i])
                bad_total += len(k1_lines[i])
                if shown < 3:
                    shown += 1
                    e = dict(k1_lines[i][0])
                    e["why"] += " (not explained by K1: implementation %s the pinned model, K1-free model %s the documented answer)" % (
                        "agrees with" if agrees_with_pinned_model else "differs from", "gives" if ok_doc else "does not give")
                    _violation(r, fam, i, cases[i], impl[i], model[i] if i < len(model) else None, e)
        if unexplained == 0:
            w = lean_and_impl_witness(r)
            facets = [e.get("facet") for v in k1_lines.values() for e in v]
            r.known("K1", K1_TEXT + "; %d equal-precedence @right cells of this run keep the reduce (%d: the production against itself with "
                    "several contributing items; %d: a different production of the same @right level is shifted, second facet of the same "
                    "condition); witness %s -> %s" % (k1_cells, facets.count("self"), facets.count("other-production"), K1_WITNESS_LINE, w))
    if want_doc:
        r.notes.append("resolve family: %d resolved cells deviate from the documented decision, all at K1's site" % k1_cells if k1_cells
                       else "resolve family: every resolved cell keeps the documented action (K1 not observed: stale finding?)")

    what = "C04 statement on every cell (only one-rule qualified S/R pairs change, they keep one action, verdict = more than one action left)"
    if want_doc:
        what += " and C05 documented decision on every resolved cell (modulo known finding K1)"
    r.obligations.append(("oracle %s: %s (support, not proof)" % (fam, what), bad_total == 0, "%d failing" % bad_total))

    # correspondence; if the only disagreements are cells where the implementation follows the K1-free model, K1 has been repaired
    stale = False
    if mism:
        idxs = [m[0] for m in mism]
        doc = lean_answers([as_doc(cases[i]) for i in idxs])
        if all(doc[k].rstrip() == impl[i].rstrip() for k, i in enumerate(idxs)):
            stale = True
            r.notes.append("stale finding K1: on all %d disagreeing lines the implementation equals the model with K1 switched off "
                           "(resolveOneDoc); the correspondence is established against that model" % len(mism))
    ok = (not mism) or stale
    r.obligations.append(("correspondence %s: model = implementation on every case%s" % (fam, " (K1 off)" if stale else ""), ok,
                          "%d mismatches" % len(mism)))
    if mism and not stale and bad_total == 0:
        i, c, im, mo = mism[0]
        r.violation("%s-corr" % fam, {"kind": "correspondence-broken", "family": fam,
                                      "first_disagreement": {"case": c[:2000], "implementation": im[:2000], "model": mo[:2000]},
                                      "count": len(mism),
                                      "note": "the property oracle found no failing input among %d lines" % len(cases),
                                      "replay_case_line": c, "replay_family": FAMILY}, False)
    cnt = res["meta"].get("counters", {})
    extra = res["meta"].get("extra", {})
    r.notes.append("resolve family: %d lines; real pipeline: %d grammars, %d multi-action cells, right-assoc self cells %d of which with a single contributing item %d; calc: %s" % (
        len(cases), cnt.get("pipeline-grammar conflicts=0", 0) + cnt.get("pipeline-grammar conflicts=1", 0),
        cnt.get("pipeline-multi-action-cells", 0), cnt.get("pipeline-right-assoc-self-cell", 0),
        cnt.get("pipeline-right-assoc-self-cell-with-single-item", 0), extra.get("calc right-assoc self S/R cell", "?")))


def _violation(r, fam, i, case, impl, model, b):
    # the failing input is the single cell, replayable on its own
    op, _, payload = case.partition(" ")
    infos_txt = payload.partition("|")[0].strip()
    line = case
    if b.get("cell"):
        line = "dec.resolve %s | %s" % (infos_txt, b["cell"])
    r.violation("%s-%d-%d" % (fam, i, b["cell_index"]), {
        "kind": "property-violated-by-implementation", "why": b["why"], "failing_cell": b.get("cell"), "cell_after": b.get("after"),
        "productions (rule prec right)": infos_txt, "case": case[:4000], "implementation": impl[:4000],
        "model": (model or "")[:4000], "replay_case_line": line, "replay_family": FAMILY}, True)


def lean_and_impl_witness(r):
    """Re-runs the committed K1 witness cell on the current implementation; returns its answer."""
    p = r.tmp + "/k1-witness.txt"
    with open(p, "w") as f:
        f.write(K1_WITNESS_LINE + "\n")
    cov = dict(r.cov)                       # do not count the witness replay as coverage
    fams = dict(r.cov["families"])
    res = r.run_family(FAMILY, replay=p)
    r.cov = cov
    r.cov["families"] = fams
    return res["impl"][0] if res["impl"] else "?"


def k1_active(r):
    """True iff the K1 witness still fails on the current tree (the @right(3) cell keeps the reduce)."""
    return lean_and_impl_witness(r).strip().startswith("r 0")


def run_resolve(r):
    """Called from the C04 and C05 checks. Appends obligations/violations/known findings to `r`."""
    n = 400 if r.tier == "quick" else 6000
    res = r.run_family(FAMILY, n=n)
    analyse(r, FAMILY, res)
    for a in ASSUMPTIONS:
        if a not in r.assumptions:
            r.assumptions.append(a)
    return res


def replay_resolve(r, line):
    """Replay one `dec.resolve` / `dec.table` case line (a violation file's `replay_case_line`)."""
    p = r.tmp + "/replay-resolve.txt"
    with open(p, "w") as f:
        f.write(line + "\n")
    res = r.run_family(FAMILY, replay=p)
    analyse(r, FAMILY, res)
    return res
