"""C11 Lexing always reaches EOF and accounts for every character."""
import common
import lexcommon
from props import c07_lexgenspec

LEVEL = "proof"


def run(r):
    r.require_theorems(1)
    r.run_witnesses()
    lexcommon.run_lex(r, "C11")
    c07_lexgenspec.run_lexgenspec(r, "C11")
    # non-greedy rules (`*?`, `+?`, also a rule that is nothing but a `+?` term): progress and EOF
    lexcommon.run_lex(r, "C11", n_quick=10, n_thorough=100, family="lexng")
    r.assumptions += [
        "per generated specification the theorems quantify over all input strings; the space of specifications is sampled by the generator",
        "rules handed to the validator come from the harness' own AST (class expressions evaluated by the harness' own set arithmetic), tables from the file the real generator wrote",
        "UTF-8 decoding is bytes.Reader.ReadRune as observed (invalid bytes arrive as U+FFFD, width 1)",
    ]
    return r.finish(LEVEL, "Lean: bisim_sound (table run = rule-level spec for all strings), bsearch_correct, runtime theorems over the PushRune/simplelexer model; "
                    "tie: validator on every emitted table, compiled generated lexers vs the runtime model, reference lexer on every input",
                    common.TRUSTED_COMMON)
