"""C01 / C04, generator side: lr1.First / Closure / Goto / Next / LR0Key / createActions.

`run_genmodel(r)` runs the `genmodel` correspondence family (harness/drv/ops_genmodel.go +
harness/export/internal__parsergen__lr1/genmodel.go against lean/Lox/LR/{GenModel,DrvGenModel}.lean),
records the obligations and reads the oracle column, which evaluates the property statements on the
implementation's answers independently of the Lean model:

  C01  FIRST(α) misses no terminal (nor ε) that an enumeration of the sentential forms reachable from
       α by head expansion finds; Closure/Goto miss no item the closure rule requires with these
       semantic FIRST sets; createActions misses no action of a completed item / of a terminal after a dot.
  C04  FIRST(α) invents no terminal (nor ε) when the enumeration was exhaustive; Closure/Goto and
       createActions invent nothing.

An oracle hit is a violation with the failing input (grammar + op line, replayable on its own). A
model/implementation disagreement without an oracle hit is reported `no-failing-input-found` and
names the op whose correspondence broke.
"""
import common

FAMILY = "genmodel"

ASSUMPTIONS = [
    "lr1.Grammar: pointer equality of *Terminal / *Rule / *Prod is equality of their indices; every production's rule is in g.Rules "
    "(the model numbers rules by the left-hand sides that occur)",
    "Go set iteration order is not observable in the answers compared (FIRST sets, item sets and Next are compared as sets in canonical order; "
    "Next's order by NAME only decides state numbering and is outside Lox.LR.Grammar)",
    "production and dot numbers fit uint32 (LR0Key writes them as big-endian uint32; the model keeps the pairs)",
]

THEOREM_NOTE = ("theorems Lox.Props.C01.first_complete/firstOK_of_model/first_terminates/closure_* and Lox.Props.C04.first_sound/"
                "closure_spec/lr0Key_spec/actions_spec talk about Lox/LR/GenModel.lean; this family is what ties that model to "
                "internal/parsergen/lr1/{first,closure,goto,next,item,item_set,construct}.go")


def expand(cases, idx):
    """The case line with $G replaced by the grammar bound by the preceding `@let G`."""
    g = None
    for c in cases[:idx]:
        if c.startswith("@let G "):
            g = c[len("@let G "):]
    line = cases[idx]
    return line.replace("$G", g) if g is not None else line


def analyse(r, res, props=("C01", "C04"), replay=False):
    cases, impl, model = res["cases"], res["impl"], res["model"]
    oracle = open(res["dir"] + "/oracle.txt", encoding="utf-8", errors="replace").read().split("\n")
    hits = {}
    for i, c in enumerate(cases):
        o = oracle[i].strip() if i < len(oracle) else ""
        if o:
            hits.setdefault(o.split(":", 1)[0].strip(), []).append((i, c, impl[i], o))
    mine = [h for p in props for h in hits.get(p, [])]
    mine.sort(key=lambda h: ("FIRST() " in h[3], h[0]))   # the empty string last: least telling
    other = {k: len(v) for k, v in hits.items() if k not in props}
    # 1. the property statements on the implementation's answers
    r.obligations.append(("oracle %s: semantic FIRST by enumeration of derivations, reference closure with it, textbook action "
                          "candidates — on every answer of lr1.First/Closure/Goto/createActions (support, not proof)" % FAMILY,
                          not mine, "%d failing of %d" % (len(mine), len(cases))))
    for (i, c, im, o) in mine[:3]:
        line = expand(cases, i)
        r.violation("%s-%d" % (FAMILY, i), {
            "kind": "property-violated-by-implementation", "why": o, "case": line[:8000], "implementation": im[:4000],
            "model": (model[i] if i < len(model) else "")[:4000], "replay_case_line": line, "replay_family": FAMILY}, True)
    # 2. correspondence per op
    mism = res["mismatches"]
    by_op = {}
    for (i, c, im, mo) in mism:
        by_op.setdefault(c.split(" ", 1)[0], []).append((i, c, im, mo))
    counters = res["meta"].get("counters", {})
    for op in ("lr.first", "lr.closure", "lr.goto", "lr.next", "lr.lr0key", "lr.actions"):
        n = counters.get(op, 0)
        bad = by_op.get(op, [])
        if replay and n == 0 and not bad:
            continue
        r.obligations.append(("correspondence %s: Lean model = implementation on every case (%d distinct lines)" % (op, n),
                              not bad and n > 0, "%d mismatches" % len(bad)))
    stray = [m for m in mism if m[1].split(" ", 1)[0] not in ("lr.first", "lr.closure", "lr.goto", "lr.next", "lr.lr0key", "lr.actions")]
    if stray:
        r.obligations.append(("correspondence %s: bookkeeping lines agree" % FAMILY, False, "%d mismatches, first: %r" % (len(stray), stray[0][1][:200])))
    if mism and not mine:
        i, c, im, mo = mism[0]
        line = expand(cases, i)
        r.violation("%s-corr" % FAMILY, {
            "kind": "correspondence-broken", "family": FAMILY, "op": c.split(" ", 1)[0],
            "ops_with_mismatches": {k: len(v) for k, v in by_op.items()},
            "first_disagreement": {"case": line[:8000], "implementation": im[:4000], "model": mo[:4000]},
            "count": len(mism),
            "note": "the property oracle found no failing input among %d lines; oracle hits for other properties: %s" % (len(cases), other),
            "names": THEOREM_NOTE, "replay_case_line": line, "replay_family": FAMILY}, False)
    r.notes.append("genmodel family: %d lines over %d grammars (%s); panics exercised: %d; oracle hits for other properties: %s" % (
        len(cases), sum(v for k, v in counters.items() if k.startswith("grammar ")),
        ", ".join("%s %d" % (k[8:], v) for k, v in sorted(counters.items()) if k.startswith("grammar ")),
        sum(v for k, v in counters.items() if k.endswith(" panic")), other))
    return hits


def run_genmodel(r, props=("C01", "C04")):
    """Called from the C01 and C04 checks. Appends obligations/violations to `r`; returns (family result, oracle hits)."""
    n = 60 if r.tier == "quick" else 600
    res = r.run_family(FAMILY, n=n, timeout=7200)
    hits = analyse(r, res, props)
    for a in ASSUMPTIONS:
        if a not in r.assumptions:
            r.assumptions.append(a)
    return res, hits


def replay_genmodel(r, line, props=("C01", "C04")):
    """Replay one expanded `lr.*` case line (a violation file's `replay_case_line`)."""
    p = r.tmp + "/replay-genmodel.txt"
    with open(p, "w") as f:
        f.write(line + "\n")
    res = r.run_family(FAMILY, replay=p)
    analyse(r, res, props, replay=True)
    return res
