"""C13 Output is a function of the .lox files and the user's Go sources only.

Level `other`. What is carried by what:
  * theorems (Lox/Props/C13.lean): the order-independence arguments the code relies on, for all lists: sort_perm (sorting by a unique
    key erases the iteration order, for every sorting algorithm), fold_set_perm / fold_map_perm (insert-only loops), heap_perm /
    normalize_perm (the range heap and Normalize's callback log depend on the SET pushed), imports_alias_deterministic,
    pick_source_ignores_generated (PreParseGo never reads a generated file);
  * checked static premise: that the Go code depends on map iteration order ONLY through the listed loops. Family `facts_mapranges`
    regenerates every `range` over a built-in map of the packages linked into cmd/lox with a mechanical classification of the loop body
    and compares it with expect/map_ranges.json (classification + covering theorem per site);
  * dynamic support: family `determinism` compares the bytes of the three files and of --report across fresh processes, working
    directories, re-runs over own output, stale output of another grammar and package, and a package rename.
"""
import json
import os

import common
from props import c12

LEVEL = "other"
EXPECT = common.VERIF + "/expect/map_ranges.json"
EXPECT_AMBIENT = common.VERIF + "/expect/ambient_sources.json"

# classification -> does the iteration order stay inside the loop?
HARMLESS = {"collect-then-sorted", "insert-only", "lookup-only", "order-irrelevant-reduction"}


def dynamic(r, n, replay=None):
    res = r.run_family("determinism", n=n, replay=replay, timeout=6 * 3600)
    hits = c12.read_oracle(res)
    r.cov["determinism_counters"] = res["meta"].get("counters", {})
    r.obligations.append(("oracle determinism: base.gen.go, lexer.gen.go, parser.gen.go and --report are byte-identical across fresh processes, working directories, "
                          "re-runs, stale output of a different grammar/package and a package rename (support, not proof)", not hits,
                          "%d differing runs of %d" % (len(hits), len(res["cases"]))))
    for (i, c, o) in hits[:4]:
        what, case = c12.split_case(o)
        r.violation("determinism-%d" % i, {"kind": "property-violated-by-implementation", "what": what, "case": c, "input": case,
                                           "expected": "identical bytes", "actual": what, "family": "determinism",
                                           "how_to_rerun_by_hand": "write the files of `input` into two fresh directories, run `lox --report <dir>` in each as described by the scenario, diff"}, True)
    return res, hits


def run(r):
    r.require_theorems(8)
    r.run_witnesses()
    diff, sites, exp = c12.facts(r, "facts_mapranges", EXPECT, ("class", "effects"), ", classification and effect list")
    cover = {s["id"]: s for s in exp["sites"]}
    uncovered = [s["id"] for s in exp["sites"] if not s.get("covered_by")]
    r.obligations.append(("every listed range names the order-independence theorem (Lox.Props.C13.*) that covers it", not uncovered, "%s" % uncovered))
    # theorem names mentioned in covered_by must exist (first word(s) are theorem names separated by ` / ` or ` + `)
    audited = (r.lean or {}).get("axioms", {})
    names = set()
    for s in exp["sites"]:
        for part in s.get("covered_by", "").replace("+", "/").split("/"):
            part = part.strip()
            if part and " " not in part and "-" not in part:
                names.add("Lox.Props.C13." + part)
    missing = sorted(n for n in names if not (n in audited and set(audited[n]) <= common.ALLOWED_AXIOMS))
    r.obligations.append(("every covering theorem is kernel-checked", not missing, "missing: %s" % missing))
    leaking = [s["id"] for s in sites if s.get("class") not in HARMLESS]
    r.cov["map_ranges"] = {"total": len(sites), "by_class": {}, "order_leaves_the_loop": leaking,
                           "covered_by": {s["id"]: s.get("covered_by") for s in exp["sites"]}}
    for s in sites:
        r.cov["map_ranges"]["by_class"][s.get("class")] = r.cov["map_ranges"]["by_class"].get(s.get("class"), 0) + 1
    # second static premise: no clock, environment, process, host, hidden map iteration, directory order, goroutine or address
    # reaches the output other than through the listed (justified) sites
    adiff, asites, aexp = c12.facts(r, "facts_ambient", EXPECT_AMBIENT, (), "")
    if adiff and not (adiff["new_sites"] or adiff["changed_sites"] or adiff["load_errors"]) and asites is not None:
        # a listed site that is gone only makes the premise easier to meet: the inventory is an upper bound
        name, _, detail = r.obligations.pop()
        r.obligations.append((name.replace(", and nothing listed is missing", " (listed sites that no longer exist are tolerated)"), True, detail))
        r.notes.append("ambient sources no longer present: %s" % adiff["gone_sites"])
        adiff = None
    r.cov["ambient_sources"] = {"total": len(asites), "by_kind": {}, "status": {s["id"]: s.get("status") for s in aexp["sites"]}}
    for s in asites:
        r.cov["ambient_sources"]["by_kind"][s.get("kind")] = r.cov["ambient_sources"]["by_kind"].get(s.get("kind"), 0) + 1
    # the insertion-ordered containers themselves: real stablemap.Map / MultiMap / set.Set / stack / array against the pointer-level
    # Lean model that is proved to refine insertion-ordered lists for ALL operation sequences and every Go-map iteration order
    # (Lox.Props.C13.stablemap_refines, foreach_order_independent_of_go_map, set_refines, multimap_refines)
    cres = r.run_family("containers", n=300 if r.tier == "quick" else 6000)
    chits = c12.read_oracle(cres)          # oracle.txt: insertion-order reference (slices) vs implementation
    cmm = cres["mismatches"]               # pointer-level Lean model vs implementation
    r.obligations.append(("containers: stablemap.Map / MultiMap / set.Set / stack / array = pointer-level model "
                          "(proved to refine insertion-ordered lists for all operation sequences)", not cmm and not chits,
                          "%d mismatches, %d oracle hits of %d" % (len(cmm), len(chits), len(cres["cases"]))))
    for (i, c, o) in chits[:3]:
        r.violation("containers-%d" % i, {"kind": "property-violated-by-implementation", "what": o, "case": c,
                    "implementation": cres["impl"][i], "family": "containers",
                    "note": "an insertion-ordered container of internal/base no longer iterates in insertion order / no longer behaves like the list it stands for; "
                            "every automaton and table the generator emits is numbered through these containers"}, True)
    if cmm and not chits:
        i, c, im, mo = cmm[0]
        r.violation("containers-tie", {"kind": "correspondence-broken", "first": {"case": c, "implementation": im, "model": mo},
                                       "names": "Lox.Props.C13.stablemap_refines / set_refines / multimap_refines speak about lean/Lox/Dec/Containers.lean"}, False)
    n = 4 if r.tier == "quick" else 80
    res, hits = dynamic(r, n)
    if adiff and not hits:
        r.violation("facts-ambient", dict(adiff, note="family determinism found no differing output among %d runs" % len(res["cases"])), False)
    elif adiff:
        r.notes.append("ambient-source inventory also broken: new=%d gone=%d" % (len(adiff["new_sites"]), len(adiff["gone_sites"])))
    if diff and not hits:
        r.violation("facts", dict(diff, note="family determinism found no differing output among %d runs" % len(res["cases"])), False)
    elif diff:
        r.notes.append("static premise also broken: new=%d gone=%d changed=%d" % (len(diff["new_sites"]), len(diff["gone_sites"]), len(diff["changed_sites"])))
    if (missing or uncovered) and not hits and not diff:
        r.violation("theorems", {"kind": "obligation-failed", "missing_theorems": missing, "uncovered_sites": uncovered}, False)
    r.assumptions += [
        "uniqueness of the sort keys (token/rule/mode names, import paths, state ids, mode indices) is a fact of C17/C19 and of the numbering code, not re-proved here",
        "diagnostics on stderr are not among the artefacts C13 names: two loops (AssignActions) report several errors in map order; no file is written in that case",
        "go/packages, go/types method order, Jet and gofmt are assumed to be functions of their inputs; only sampled by family determinism",
        "other sources of nondeterminism (clock, environment, process, host, working directory, map iteration through maps.Keys/reflect/sync.Map, directory order, "
        "goroutines/channels, addresses) are inventoried by family facts_ambient against expect/ambient_sources.json (regenerated on every run; 4 justified sites, none "
        "reaches a generated file); a %v of a pointer or a map printed by fmt is not recognisable syntactically and is only sampled dynamically (fresh processes, another environment)",
    ]
    return r.finish(LEVEL,
                    "PARTIAL, level other. Proved (Lean, all lists and all permutations): sorting by a unique key, insert-only folds into sets/maps, the range heap's pop sequence and "
                    "Normalize's callback log, the import alias table, and PreParseGo's choice of source file do not depend on iteration order or on generated files lying around. "
                    "Checked static premise (not a theorem): the %d `range` statements over built-in maps in the generator are regenerated from source on every run, classified "
                    "mechanically and matched with the theorem that covers them; %d of them let the order leave the loop mechanically (%s) and are argued in expect/map_ranges.json. "
                    "Dynamic support: byte comparison of the three files and --report across processes, directories, stale output and a package rename."
                    % (len(sites), len(leaking), "; ".join(x.split(":maprange")[0] for x in leaking) or "none"),
                    common.TRUSTED_COMMON + ["go/packages + go/types used by the fact extractor (harness/drv/ops_facts.go)"])
