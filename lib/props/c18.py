"""C18 Concurrent use: generated lexer state machines and parsers keep all mutable state in their own
instances; any number of instances of the same or of different grammars can run on different
goroutines with the same results as one after another and without data races.

Level "other":
  theorem  Lox.Props.C18.interleave_independent / interleave_perm / others_irrelevant (and, when
           imported, the instantiation with the real runtime models in Props/C18_runtime.lean):
           N state machines over disjoint states and a shared IMMUTABLE table behave under every
           interleaving exactly as when run alone;
  premise  (re-extracted on every run, harness family facts_shared, go/types): the only
           package-level variables of the generated files are the tables of
           expect/shared_state.json and no generated function can write through them;
  support  harness family concurrent: mixed generated packages on many goroutines under
           `go build -race`, compared with sequential runs;
  outside  the Go memory model and the completeness of the race detector.
"""
import json
import re

import common

LEVEL = "other"
EXPECT = common.VERIF + "/expect/shared_state.json"


def _oracle(res):
    o = open(res["dir"] + "/oracle.txt", encoding="utf-8", errors="replace").read().split("\n")
    hits, other = [], {}
    for i, c in enumerate(res["cases"]):
        t = o[i].strip() if i < len(o) else ""
        if not t:
            continue
        tag = t.split(":", 1)[0].strip()
        if tag == "C18":
            hits.append((i, c, t))
        else:
            other[tag] = other.get(tag, 0) + 1
    return hits, other


def _tie_broken(r, res, family):
    """note lines are echoed by the Lean driver: a mismatch means the harness itself misbehaved"""
    bad = res["mismatches"]
    if bad:
        i, c, im, mo = bad[0]
        r.violation(family + "-tie", {"kind": "correspondence-broken", "first": {"case": c[:4000], "implementation": im[:2000], "model": mo[:2000]}}, False)
    return not bad


def run(r):
    quick = r.tier == "quick"
    # ---- theorem audit ----
    r.require_theorems(1)

    # ---- dynamic support first: its outcome decides how a broken premise is reported ----
    dyn = r.run_family("concurrent", n=12 if quick else 48, timeout=7200)
    dhits, dother = _oracle(dyn)
    dc = dyn["meta"].get("counters", {})
    dx = dyn["meta"].get("extra", {})
    race_on = dc.get("race-detector-active", 0) == 1
    ran = dc.get("executions-concurrent", 0)
    diverged = [h for h in dhits if "differs from sequential" in h[2] or "leaks between runs" in h[2]]
    races = [h for h in dhits if "data race reported" in h[2]]
    crashed = [h for h in dhits if "crashed" in h[2] or "did not finish" in h[2]]
    dyn_failing = bool(diverged or races or crashed)

    # ---- static premise ----
    st = r.run_family("facts_shared", n=8 if quick else 60, timeout=7200)
    shits, sother = _oracle(st)
    inv = st["meta"].get("extra", {}).get("inventory", {}) or {}
    exp = json.load(open(EXPECT))
    unexpected_vars, drift = [], []
    kinds = sorted(inv)
    for kind in kinds:
        k = inv[kind]
        for f, vs in sorted((k.get("vars") or {}).items()):
            allowed = set(exp["package_level_vars"].get(f, []))
            for v in vs:
                if v not in allowed:
                    unexpected_vars.append("%s: %s: var %s" % (kind, f, v))
            for v in sorted(allowed - set(vs)):
                drift.append("%s: expected variable `%s` is not declared in %s" % (kind, v, f))
        for pat, fs in sorted((k.get("readers") or {}).items()):
            want = exp["readers"].get(pat)
            if want is None:
                drift.append("%s: generated code mentions package-level variable `%s` (in %s), which the inventory does not list" % (kind, pat, ", ".join(fs)))
            elif sorted(fs) != sorted(want):
                drift.append("%s: readers of %s are %s, inventory says %s" % (kind, pat, sorted(fs), sorted(want)))
        for pat in sorted(set(exp["readers"]) - set(k.get("readers") or {})):
            drift.append("%s: nothing reads %s any more" % (kind, pat))
        got_fields = sorted(k.get("receiver_fields_written") or [])
        if got_fields != sorted(exp["receiver_fields_written"]):
            drift.append("%s: receiver fields written are %s, inventory says %s" % (kind, got_fields, sorted(exp["receiver_fields_written"])))
    n_pkgs = sum(inv[k].get("packages", 0) for k in inv)
    n_funcs = sum(inv[k].get("functions_analysed", 0) for k in inv)
    have_kinds = {k.split(":")[0] for k in kinds}
    repo_kinds = [k for k in kinds if k.startswith("repo:")]
    covered = len(repo_kinds) == 4 and any(k.startswith("parser") for k in kinds) and any(k.startswith("lexer") for k in kinds) \
        and any("bounds" in k for k in kinds) and any("error" in k for k in kinds)

    not_established = [h for h in shits if "premise not established" in h[2]]
    # the same statement of the template shows up in every generated package: report it once
    static_viol, seen_stmt, where = [], {}, {}
    for h in shits:
        if h in not_established:
            continue
        key = re.sub(r"\s*\(package [^()]*\)\s*$", "", h[2])
        m = re.search(r"\(package ([^,()]*)(?:, kind ([^()]*))?\)\s*$", h[2])
        where.setdefault(key, []).append((m.group(2) or m.group(1)) if m else "?")
        if key not in seen_stmt:
            seen_stmt[key] = True
            static_viol.append((h[0], h[1], key))
    static_viol = [(i, c, "%s (in %d packages; kinds: %s)" % (k, len(where[k]), ", ".join(sorted(set(where[k]))))) for (i, c, k) in static_viol]

    # ---- obligations ----
    r.obligations.append(("static premise (facts_shared, go/types, every function of base.gen.go/lexer.gen.go/parser.gen.go of %d packages: kinds %s): "
                          "the package-level variables of the generated files are exactly the table variables of expect/shared_state.json"
                          % (n_pkgs, ", ".join(kinds)),
                          not unexpected_vars and not [h for h in static_viol if "unexpected package-level variable" in h[2]] and not not_established and covered,
                          ("unexpected: %s" % unexpected_vars[:4]) if unexpected_vars else
                          ("premise not established: %s" % not_established[0][2][:300]) if not_established else
                          ("coverage incomplete: kinds %s" % kinds) if not covered else "none unexpected"))
    writes = [h for h in static_viol if "unexpected package-level variable" not in h[2]]
    r.obligations.append(("static premise: no generated function assigns to, appends to, copies into, takes the address of, or hands to code outside the generated files "
                          "a package-level variable or anything aliasing one (l.mode, mode, elements of l.modeStack included); every other write goes through a receiver field, a local or a parameter "
                          "(%d functions analysed)" % n_funcs,
                          not writes and not not_established, "%d statements: %s" % (len(writes), [h[2][:200] for h in writes[:3]])))
    r.obligations.append(("dynamic support (concurrent): %s packages, %s jobs, %s executions on %s goroutines, GOMAXPROCS {%s}, %s: concurrent outputs equal sequential outputs, "
                          "a second sequential pass equals the first, no data race reported (support, not proof)"
                          % (sum(v for k, v in dc.items() if k.startswith("packages:")), dc.get("jobs", 0), ran, dx.get("goroutines"), dx.get("gomaxprocs"),
                             "built with -race" if race_on else "RACE DETECTOR NOT AVAILABLE (%s)" % dx.get("race_detector")),
                          not dhits and ran > 0, "%d differing, %d race reports, %d crashes" % (len(diverged), dc.get("race-reports", 0), len(crashed))))
    ok_tie = _tie_broken(r, st, "facts_shared") and _tie_broken(r, dyn, "concurrent")

    # ---- violations ----
    dyn_payload = [{"case": c[:3000], "what": o[:6000]} for (i, c, o) in (diverged + races + crashed)[:4]]
    for (i, c, o) in (diverged + races + crashed)[:3]:
        r.violation("concurrent-%d" % i, {"kind": "property-violated-by-implementation", "what": o[:8000], "case": c[:4000], "family": "concurrent",
                                          "static_premise": [h[2][:1000] for h in static_viol[:6]]}, True)
    for n, (i, c, o) in enumerate(static_viol[:4]):
        r.violation("shared-%d" % n, {
            "kind": "property-violated-by-implementation" if dyn_failing else "premise-of-theorem-violated",
            "what": o[:6000], "case": c[:2000], "family": "facts_shared",
            "theorem": "Lox.Props.C18.interleave_independent needs the shared tables to be immutable and every other piece of state to be per instance",
            "concurrent_family_of_this_run": dyn_payload or "no differing result, no race report in %d concurrent executions%s" % (ran, "" if race_on else " (race detector not available)"),
        }, dyn_failing)
    if unexpected_vars and not static_viol:
        r.violation("shared-inventory", {"kind": "premise-of-theorem-violated", "what": "package-level variables outside expect/shared_state.json: %s" % unexpected_vars[:10],
                                         "concurrent_family_of_this_run": dyn_payload or "clean"}, dyn_failing)
    if not_established and not static_viol:
        i, c, o = not_established[0]
        r.violation("shared-premise", {"kind": "correspondence-broken", "what": o[:6000], "case": c[:2000]}, False)
    if ran == 0 and not dhits:
        r.violation("concurrent-norun", {"kind": "correspondence-broken", "what": "the concurrent runner did not execute anything", "other": dother}, False)

    if drift:
        grouped = {}
        for d in drift:
            kind, msg = d.split(": ", 1)
            grouped.setdefault(msg, []).append(kind)
        drift = ["%s: %s" % (", ".join(ks), msg) for msg, ks in grouped.items()]
        r.notes.append("inventory drift against expect/shared_state.json (not a violation by itself: every function of the generated files is analysed whatever its name): %s" % drift[:12])
    if not race_on:
        r.notes.append("race detector not available in this environment: %s; the concurrent family ran without it" % dx.get("race_detector"))
    r.cov["shared_state_inventory"] = inv
    r.cov["expected_inventory"] = {k: exp[k] for k in ("package_level_vars", "readers", "receiver_fields_written")}
    r.cov["inventory_drift"] = drift
    r.cov["concurrent_counters"] = dc
    r.cov["concurrent_setup"] = dx
    r.cov["race_detector"] = dx.get("race_detector")
    r.cov["programs"] = n_pkgs + sum(v for k, v in dc.items() if k.startswith("packages:"))
    r.cov["other_property_hits"] = {**sother, **dother}
    r.cov["tie_ok"] = ok_tie
    r.assumptions += [
        "Go memory model: a goroutine that only reads variables initialised before main and writes only memory reachable from its own instance is race free and sequentially consistent with itself (not modelled in Lean)",
        "the race detector only sees the executions that happened (support, not proof); `go build -race` %s" % ("was used" if race_on else "was NOT available"),
        "user-written action methods, lexers and Token types are outside the property (the analysis treats every function outside the three generated files as an unknown callee that is never handed a table)",
        "the may-alias analysis of harness/drv/ops_shared.go is field-based and flow-insensitive (an over-approximation for the Go subset the templates use: no reflection, unsafe, cgo or assembly in generated files)",
    ]
    return r.finish(LEVEL,
                    "theorem (Lean, kernel-checked): schedule independence of machines with disjoint states over immutable tables - for every interleaving of the steps of N instances "
                    "(same or different grammars) each instance's trace and final state equal those of its solo run (interleave_independent, interleave_perm, others_irrelevant; "
                    "with a shared mutable cell the statement is shown to fail). "
                    "checked premise (static, re-extracted from the generated code of this working tree on every run, compared with expect/shared_state.json): the package-level variables of "
                    "base.gen.go/lexer.gen.go/parser.gen.go are exactly _rules, _termCounts, _actions, _goto, _lexerMode<N>, _lexerModes; no generated function can write through them or through "
                    "an alias (l.mode, mode, l.modeStack elements), take their address, or pass them to code outside the generated files; all other writes go through receiver fields, locals, parameters. "
                    "support (dynamic): mixed generated parsers (with @error recovery, with _onBounds) and lexers on many goroutines under the race detector equal their sequential runs. "
                    "NOT modelled: the Go memory model (that disjoint writes + read-only sharing imply race freedom) and the completeness of the race detector; hence level `other`.",
                    common.TRUSTED_COMMON + ["go/types + golang.org/x/tools/go/packages (type information for the fact extractor)", "Go race detector (ThreadSanitizer runtime) as dynamic support"])
