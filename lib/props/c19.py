"""C19 Token constants: one per terminal, EOF=0, ERROR=1, same numbers in all tables."""
import common
import lexcommon
from props import c07_lexgenspec
import lrcommon

LEVEL = "proof"


def run(r):
    r.require_theorems(1)
    r.run_witnesses()
    # numbering model vs the real front end; constants, accept parameters, _TokenToString read back from the emitted files
    n = 60 if r.tier == "quick" else 1500
    res = r.run_family("terminals", n=n, timeout=3600)
    oracle = open(res["dir"] + "/oracle.txt", encoding="utf-8", errors="replace").read().split("\n")
    hits = [(i, c, res["impl"][i], oracle[i]) for i, c in enumerate(res["cases"]) if i < len(oracle) and oracle[i].strip()]
    r.obligations.append(("oracle terminals: constants, lexer accept parameters, parser row keys and _TokenToString read back from the emitted files follow declaration order (support, not proof)",
                          not hits, "%d violating cases" % len(hits)))
    for (i, c, im, o) in hits[:3]:
        r.violation("terminals-%d" % i, {"kind": "property-violated-by-implementation", "what": o[:6000], "case": c[:4000], "implementation": im[:2000]}, True)
    mm = res["mismatches"]
    r.obligations.append(("correspondence dec.terminals: Lean numbering model = const block emitted by the real generator", not mm, "%d mismatches" % len(mm)))
    if mm and not hits:
        i, c, im, mo = mm[0]
        r.violation("terminals-tie", {"kind": "correspondence-broken", "first": {"case": c, "implementation": im, "model": mo}}, False)
    # the same numbers in the tables: lexgen checks accept parameters (bisim with expected pairs), lrgen feeds tokens by constant
    lexcommon.run_lex(r, "C19", n_quick=6, n_thorough=60, use=("lex.bisim",), also_if_broken=("C02", "C07", "C11"))
    c07_lexgenspec.run_lexgenspec(r, "C19")
    return r.finish(LEVEL, "Lean: terminals/constBlock/tokenToString model: EOF=0, ERROR=1, dense, injective, declaration order, ??? outside; "
                    "tie: numbering model vs emitted const block on random multi-file specs; accept parameters and row keys checked through the table validators",
                    common.TRUSTED_COMMON)
