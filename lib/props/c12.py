"""C12 The generator never crashes: terminates, and either writes all files and exits 0 or prints a diagnostic and exits non-zero.

Level `other`. What is carried by what:
  * theorems (Lox/Props/C12.lean + the no-panic theorems of C01/C06/C10/C11/C15 it restates): the enumerated panic sites that
    grammar TEXT can steer (escape decoding, precedence numbers, range algebra, table builder, generated LR/lexer runtime of the
    front end, action binding) are unreachable;
  * checked static premise: the enumeration itself. Family `facts_panics` regenerates, from /repo's working tree, every panic(),
    assert.*, single-value type assertion, non-constant index/slice, strconv parse and integer division of the packages linked
    into cmd/lox and compares it with expect/panic_sites.json (status + reason per site). A new, vanished or changed site breaks
    the tie;
  * fuzzing (support, not proof): family `cli_fuzz` runs the real command as a subprocess on mutated specifications and Go
    packages and evaluates the property statement itself.
"""
import json
import os
import re

import common

LEVEL = "other"
EXPECT = common.VERIF + "/expect/panic_sites.json"
FACT_FAMILY = "facts_panics"
DYN_FAMILY = "cli_fuzz"
TAG = "C12"


def site_key(sid):
    """pkg:func:kind:ord (without the expression text)."""
    return ":".join(sid.split(":", 4)[:4])


def compare_sites(found, expected, fields=("auto",)):
    """Returns (new, gone, changed) between the extractor's sites and the expectation file."""
    f = {s["id"]: s for s in found}
    e = {s["id"]: s for s in expected}
    new = [f[i] for i in f if i not in e]
    gone = [e[i] for i in e if i not in f]
    changed = []
    # same position, different expression text -> report as one change
    gk = {site_key(s["id"]): s for s in gone}
    for s in list(new):
        k = site_key(s["id"])
        if k in gk:
            changed.append({"site": k, "expected": gk[k]["id"], "found": s["id"], "what": "expression text changed"})
            new.remove(s)
            gone.remove(gk[k])
    for i in f:
        if i in e:
            for fld in fields:
                if (f[i].get(fld) or "") != (e[i].get(fld) or ""):
                    changed.append({"site": i, "field": fld, "expected": e[i].get(fld), "found": f[i].get(fld)})
    return new, gone, changed


def read_oracle(res):
    p = res["dir"] + "/oracle.txt"
    lines = open(p, encoding="utf-8", errors="replace").read().split("\n")
    out = []
    for i, c in enumerate(res["cases"]):
        o = lines[i].strip() if i < len(lines) else ""
        if o:
            out.append((i, c, o))
    return out


def split_case(o):
    """oracle text -> (what, case json or None)"""
    what, _, cj = o.partition(" | case: ")
    try:
        return what, json.loads(cj)
    except Exception:
        return what, None


def dynamic(r, n, replay=None):
    """Runs cli_fuzz; returns (hits of this property, witness hits)."""
    extra = [common.VERIF + "/corpus/C12/*.json"]
    res = r.run_family(DYN_FAMILY, n=n, extra_args=None if replay else extra, replay=replay, timeout=6 * 3600)
    hits, whits = [], {}
    for (i, c, o) in read_oracle(res):
        m = re.match(r"WITNESS (\S+): ", o)
        if m:
            whits.setdefault(m.group(1), []).append((i, c, o))
        else:
            hits.append((i, c, o))
    ran = set()
    for c in res["cases"]:
        m = re.match(r"# cli \d+ witness (\S+)", c)
        if m:
            ran.add(m.group(1))
    res["witnesses_run"] = ran
    cnt = res["meta"].get("counters", {})
    r.cov["cli_fuzz_counters"] = {k: v for k, v in cnt.items() if not k.startswith("diag:")}
    r.cov["cli_fuzz_diagnostic_kinds"] = len([k for k in cnt if k.startswith("diag:")])
    r.cov["cli_fuzz_extra"] = res["meta"].get("extra", {})
    return res, hits, whits


def finding_text(k):
    return k["text"].split(" ", 3)[-1] if k["text"].count(" ") >= 3 else k["text"]


def report_dynamic(r, hits, whits, ncases, ran=()):
    kf = {k["id"]: k for k in common.known_findings()}
    # listed findings of this property: printed when the witness still fails; when the (expensive) witness was not
    # run in this tier the line is printed all the same, saying so; a witness that ran and passed is a stale finding
    for k in kf.values():
        if k["kind"] != "finding" or k["property"] != r.prop or k["id"] in whits:
            continue
        if k["id"] in ran:
            r.notes.append("stale finding (witness no longer fails): %s" % k["id"])
            r.cov.setdefault("stale_findings", []).append(k["id"])
        else:
            r.known(k["id"], finding_text(k) + " (witness re-run only in the thorough tier)")
    for wid, rows in sorted(whits.items()):
        k = kf.get(wid)
        if k and k["kind"] == "finding":
            r.known(wid, finding_text(k))
            continue
        i, c, o = rows[0]
        what, case = split_case(o)
        r.violation("witness-" + wid, {"kind": "property-violated-by-implementation", "what": what,
                                       "note": "committed witness %s fails on the current tree%s" % (wid, " (entry is marked fixed: the defect is back)" if k else " (no KNOWN_FINDINGS entry)"),
                                       "input": case, "expected": "exit 0 with all three files that compile, or exit != 0 with a diagnostic; never a panic trace or a hang",
                                       "replay_case_line": "cli " + json.dumps(case) if case else None}, True)
    bad_w = [w for w in whits if not (kf.get(w) and kf[w]["kind"] == "finding")]
    r.cov["witnesses"] = {"run": sorted(ran), "failing": sorted(whits), "active_findings": sorted(w for w in whits if w not in bad_w)}
    r.obligations.append(("witnesses (real CLI): every committed C12 witness of a repaired defect behaves", not bad_w, "failing: %s" % sorted(bad_w)))
    r.obligations.append(("oracle cli_fuzz: exit 0 => three non-empty files that compile; exit != 0 => a diagnostic; no panic trace; no timeout (support, not proof)",
                          not hits, "%d violating cases of %d" % (len(hits), ncases)))
    for (i, c, o) in hits[:4]:
        what, case = split_case(o)
        r.violation("cli-%d" % i, {"kind": "property-violated-by-implementation", "what": what, "case": c, "input": case,
                                   "expected": "exit 0 with base.gen.go, lexer.gen.go, parser.gen.go non-empty and compiling, or exit != 0 with at least one diagnostic line; never `panic:`/`goroutine`, never a timeout",
                                   "actual": what, "replay_case_line": "cli " + json.dumps(case) if case else None, "family": DYN_FAMILY}, True)
    return bool(hits) or bool(bad_w)


def facts(r, family, expect_path, fields, label):
    """Runs a fact family and compares it with the committed expectation. Returns (diff payload or None, sites, expectation)."""
    res = r.run_family(family, n=1, timeout=3600)
    sites = res["meta"].get("extra", {}).get("sites") or []
    load_err = [o for (_, _, o) in read_oracle(res)]
    exp = json.load(open(expect_path))
    new, gone, changed = compare_sites(sites, exp["sites"], fields)
    ok = not (new or gone or changed or load_err) and len(sites) > 0
    r.obligations.append(("%s: every site regenerated from the working tree (%d) is listed in %s with the same identity%s, and nothing listed is missing"
                          % (family, len(sites), os.path.relpath(expect_path, common.VERIF), label), ok,
                          "new=%d gone=%d changed=%d%s" % (len(new), len(gone), len(changed), (" load: " + load_err[0][:300]) if load_err else "")))
    r.cov[family + "_packages"] = res["meta"].get("extra", {}).get("packages")
    if ok:
        return None, sites, exp
    payload = {"kind": "static-premise-broken", "family": family, "expectation_file": expect_path,
               "new_sites": [{"id": s["id"], "at": s.get("pos"), "class": s.get("class"), "effects": s.get("effects")} for s in new[:40]],
               "gone_sites": [s["id"] for s in gone[:40]], "changed_sites": changed[:40], "load_errors": load_err[:3],
               "what": "the inventory the theorems and justifications were written against no longer matches /repo's working tree: "
                       "read the named sites, decide their status, and update the expectation file (or the code)"}
    return payload, sites, exp


def run(r):
    r.require_theorems(4)
    # The committed witnesses (corpus/C12/*.json) are replayed by family cli_fuzz through the REAL command line, before the
    # generated cases (the generic in-process `witness` family would count a recovered panic as `rejected`, so it is not used here).
    diff, sites, exp = facts(r, FACT_FAMILY, EXPECT, ("auto",), " and loop-guard shape")
    # every `proved:` status must name a kernel-checked theorem with allowed axioms
    audited = (r.lean or {}).get("axioms", {})
    missing = sorted({s["status"][7:] for s in exp["sites"] if s["status"].startswith("proved:") and
                      not (s["status"][7:] in audited and set(audited[s["status"][7:]]) <= common.ALLOWED_AXIOMS)})
    r.obligations.append(("every `proved:<theorem>` status of expect/panic_sites.json names a kernel-checked theorem", not missing, "missing: %s" % missing))
    reach = [s for s in exp["sites"] if s["status"].startswith("reachable:")]
    r.obligations.append(("no site is marked reachable", not reach, "%s" % [s["id"] for s in reach]))
    by = {}
    for s in exp["sites"]:
        by[s["status"].split(":")[0]] = by.get(s["status"].split(":")[0], 0) + 1
    r.cov["panic_sites"] = {"total": len(sites), "by_status": by, "by_kind": {}}
    for s in sites:
        r.cov["panic_sites"]["by_kind"][s["kind"]] = r.cov["panic_sites"]["by_kind"].get(s["kind"], 0) + 1
    # correspondence of the Lean model of the text helpers
    n = 400 if r.tier == "quick" else 20000
    ft = r.run_family("fronttext", n=n)
    mm = ft["mismatches"]
    r.obligations.append(("correspondence dec.fronttext: Lean unescape/hexToRune/fixLiteral/qualif/checkEscapes = the real functions of internal/parser on every case "
                          "(well-escaped: same value; ill-escaped: both panic)", not mm, "%d mismatches of %d" % (len(mm), len(ft["cases"]))))
    # dynamic support
    # quick: every fixed adversarial file + every Go package variant once (≈ 190 runs, two thirds of which stop in the
    # front end within milliseconds) + 25 random mutations; thorough: + 2000 random cases and the two budgeted witnesses K6/K7
    n = 25 if r.tier == "quick" else 2000
    res, hits, whits = dynamic(r, n)
    found = report_dynamic(r, hits, whits, len(res["cases"]), res["witnesses_run"])
    # the random specification generators of the lexer/parser families, through the real generator in-process:
    # a generator panic on a VALID specification of a particular shape (one-rule modes, nullable chains, …)
    import lexcommon
    import lrcommon
    gen_panics = []
    for fam, nq, nt, cls in (("lexgen", 16, 200, lexcommon), ("lrgen", 4, 60, lrcommon)):
        fres = r.run_family(fam, n=nq if r.tier == "quick" else nt, timeout=7200)
        fhits = cls.classify(fres)[-1]
        gen_panics += [(fam,) + h for h in fhits.get("C12", [])]
    r.obligations.append(("generator families: codegen.Generate never panics on the valid specifications of the lexgen/lrgen generators (support, not proof)",
                          not gen_panics, "%d panics" % len(gen_panics)))
    for (fam, i, c, im, o) in gen_panics[:3]:
        r.violation("%s-%d" % (fam, i), {"kind": "property-violated-by-implementation", "what": o[:8000], "family": fam}, True)
    found = found or bool(gen_panics)
    if mm and not found:
        i, c, im, mo = mm[0]
        r.violation("fronttext-corr", {"kind": "correspondence-broken", "family": "fronttext", "first_disagreement": {"case": c, "implementation": im, "model": mo},
                                       "count": len(mm), "names": "Lox.Props.C12.unescape_total / hexToRune_total / fixLiteral_total / qualif_total speak about Lox.Dec.FrontText",
                                       "note": "cli_fuzz found no failing input in this run"}, False)
    if diff and not found:
        r.violation("facts", dict(diff, note="cli_fuzz found no failing input among %d runs of the real command" % len(res["cases"])), False)
    elif diff:
        r.notes.append("static premise also broken: new=%d gone=%d changed=%d" % (len(diff["new_sites"]), len(diff["gone_sites"]), len(diff["changed_sites"])))
    if missing and not found and not diff:
        r.violation("theorems", {"kind": "obligation-failed", "what": "expect/panic_sites.json names theorems that are not kernel-checked", "missing": missing}, False)
    r.assumptions += [
        "go/packages (go list, go/types), the Jet template engine, go/format and the OS are not modelled: their failures are outside the theorems and only sampled by cli_fuzz",
        "nil dereferences and stack/heap exhaustion have no syntactic site and are not in the inventory; they are only sampled by cli_fuzz (D19 was of this kind)",
        "the undocumented --cpu-prof flag panics when its file cannot be created; command-line flags are not an input of C12",
        "resource exhaustion on adversarial input is recorded as known findings K6 (stack overflow at ~3M nesting levels) and K7 (exponential macro expansion); their witnesses cost minutes and run in the thorough tier only",
        "sites with status internal-invariant are NOT proved: the invariant is stated, and the families named there exercise it",
    ]
    return r.finish(LEVEL,
                    "PARTIAL, level other. Proved (Lean, all inputs): the text->value helpers of the front end never panic on what the front end's lexer lets through "
                    "(unescape/hexToRune/fixLiteral/checkEscapes on WellEscaped token bodies, precedence conversion on digit strings), Subtract's case split is exhaustive, "
                    "plus the no-panic theorems of C01 (generated LR runtime on validated tables), C06 (action binding), C10 (table builder), C11 (generated lexer runtime), "
                    "C15 (Normalize). Checked static premise (not a theorem): the list of panic-capable sites is regenerated from source on every run and each site carries a "
                    "status; %d of %d are `proved`, the rest are `guarded` by a named check or an `internal-invariant` that is stated but not proved. "
                    "Fuzzing (support): the real command on mutated specifications and Go packages, with the property statement as the oracle. "
                    "Termination of the whole generator and the behaviour of go list / Jet / gofmt are not proved." % (by.get("proved", 0), len(exp["sites"])),
                    common.TRUSTED_COMMON + ["go/packages + go/types used by the fact extractor (harness/drv/ops_facts.go) to enumerate the sites"])


def replay(r, path):
    d = json.load(open(path))
    line = d.get("replay_case_line")
    if not line:
        return run(r)
    p = r.tmp + "/replay.txt"
    open(p, "w").write(line + "\n")
    res, hits, whits = dynamic(r, 0, replay=p)
    report_dynamic(r, hits, whits, len(res["cases"]), res["witnesses_run"] | {k["id"] for k in common.known_findings()})
    return r.finish(LEVEL, "replay of one cli_fuzz case", common.TRUSTED_COMMON)
