"""C07 / C11 / C19, whole-specification generator model: family `lexgenspec` (harness/drv/ops_lexgenspec.go against
lean/Lox/Lex/{GenSpecModel,DrvGenSpec}.lean).

  lex.genmodes   the statements of a (multi-file, multi-mode) lexer specification as the REAL front end parsed them go to
                 the Lean model `genModes` (modes sorted by name with the default mode first, written action lists turned
                 into pairs, push-mode parameters = mode indices, accept parameters = terminal numbers, per-mode genMode);
                 every `_lexerModeN` array of the real lexer.gen.go must equal the model's up to the numbering of the DFA
                 states (same breadth-first renumbering on both sides); a specification lox refuses must be answered
                 `rejected` by the model.

Theorems about that model, for ALL specifications (rules over code points, non-empty classes, no rule matching the empty
string): Lox.Props.C11.generator_progress / generator_lexAll_terminates / generator_conservation / generator_each_byte_once,
Lox.Props.C07.generator_mode_stack / generator_all_actions_effective / generator_run_matched,
Lox.Props.C19.generator_accept_numbers / generator_token_rule_number / generator_emit_same_number.
"""

ASSUMPTIONS = [
    "lexgenspec: arrays are compared after the same breadth-first renumbering of the DFA states on both sides (the model numbers states by "
    "order of creation, the real transitiveClosure by a depth-first walk); the statements of a case line come from the real front end",
]


def run_lexgenspec(r, prop):
    n = 40 if r.tier == "quick" else 160
    res = r.run_family("lexgenspec", n=n, timeout=7200)
    try:
        oracle = open(res["dir"] + "/oracle.txt", encoding="utf-8", errors="replace").read().split("\n")
    except OSError:
        oracle = []
    hits = [(i, res["cases"][i], res["impl"][i], oracle[i].strip()) for i in range(min(len(res["cases"]), len(oracle))) if oracle[i].strip()]
    mm = [m for m in res["mismatches"] if not m[1].startswith("#")]
    r.obligations.append(("lexgenspec lex.genmodes: every _lexerModeN of every emitted lexer.gen.go = Lean model genModes (whole specification: mode order, "
                          "push-mode indices, accept numbers, per-mode automaton) up to state numbering; refused specifications answered `rejected`",
                          not mm, "%d differing lines of %d" % (len(mm), len(res["cases"]))))
    r.cov["lexgenspec_counters"] = res["meta"].get("counters", {})
    if mm:
        i, c, im, mo = mm[0]
        # a differing array on an accepted specification: the end-to-end theorems say what the model's array does on every input,
        # so the search for a failing input is the run-time families of this property (lexgen), which run in the same check
        r.violation("lexgenspec-tie", {"kind": "correspondence-broken", "family": "lexgenspec",
                                       "first": {"case_line": c[:20000], "implementation": im[:4000], "model": mo[:4000]},
                                       "count": len(mm), "oracle_lines": [h[3][:300] for h in hits[:3]],
                                       "names": "Lox.Props.%s.generator_* speak about lean/Lox/Lex/GenSpecModel.lean (genModes)" % prop}, False)
    for a in ASSUMPTIONS:
        if a not in r.assumptions:
            r.assumptions.append(a)
    return res
