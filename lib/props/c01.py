"""C01 Generated parser accepts exactly the language of the grammar."""
import common
import lrcommon
from props import c01_desugar
from props import c01_genmodel
from props import c01_emit

LEVEL = "proof"


def run(r):
    r.require_theorems(1)
    r.run_witnesses()
    lrcommon.run_lr(r, "C01", also=('C09',))
    c01_desugar.run_desugar(r)
    c01_genmodel.run_genmodel(r, props=("C01",))
    c01_emit.run_emit(r, "C01")
    r.assumptions += [
        "per generated grammar the theorem quantifies over all token sequences; the space of grammars is sampled by the generator",
        "the item-set certificate and the grammar come from an in-process run of the real front end + ConstructLALR; the arrays from the file the real generator wrote",
    ]
    return r.finish(LEVEL, "Lean: validator soundness theorems (accept <-> derivation, unique tree, post-order actions, bounds invariant) + runtime model; "
                    "tie: validator run on every emitted table, compiled generated parsers vs the runtime model, property oracle on every run",
                    common.TRUSTED_COMMON)

