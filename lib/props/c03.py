"""C03 Actions run as the unique bottom-up derivation; sugar yields documented values."""
import common
import lrcommon
from props import c01_desugar

LEVEL = "proof"


def run(r):
    r.require_theorems(1)
    r.run_witnesses()
    lrcommon.run_lr(r, "C03", also=())
    # sugar_values is stated about the model of the desugaring; a sentence of the documented language that the grammar the
    # front end built does not generate (or the other way round) is a sentence whose action tree cannot be its derivation tree
    c01_desugar.run_desugar(r)
    r.assumptions += [
        "per generated grammar the theorem quantifies over all token sequences; the space of grammars is sampled by the generator",
        "the item-set certificate and the grammar come from an in-process run of the real front end + ConstructLALR; the arrays from the file the real generator wrote",
    ]
    return r.finish(LEVEL, "Lean: validator soundness theorems (accept <-> derivation, unique tree, post-order actions, bounds invariant) + runtime model; "
                    "tie: validator run on every emitted table, compiled generated parsers vs the runtime model, property oracle on every run",
                    common.TRUSTED_COMMON)

