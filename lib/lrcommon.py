"""Shared part of the parser-side checks (C01, C03, C09, C16): the `lrgen` family.

One run of the family gives, per generated grammar that the real generator accepted:
  * `lr.validate` – the verified Lean validator on (grammar, emitted arrays read back from
    parser.gen.go, item-set certificate): answer must be `ok`;
  * `lr.parse`    – the compiled generated parser vs the Lean runtime model on every input;
  * oracle column – the property statements evaluated directly on the compiled parser
    (membership by an independent recogniser, yield of the rebuilt tree, bounds).
"""
import common


def classify(res):
    """Splits a family result into (validator failures, model mismatches, oracle hits by property)."""
    oracle = open(res["dir"] + "/oracle.txt", encoding="utf-8", errors="replace").read().split("\n")
    vfail, mism, hits = [], [], {}
    for i, c in enumerate(res["cases"]):
        o = oracle[i] if i < len(oracle) else ""
        if o.strip():
            pid = o.split(":", 1)[0].strip()
            hits.setdefault(pid, []).append((i, c, res["impl"][i], o))
    for (i, c, im, mo) in res["mismatches"]:
        if c.startswith(("lr.validate", "lr.recovery_ok", "lr.justify")):
            vfail.append((i, c, im, mo))
        else:
            mism.append((i, c, im, mo))
    return vfail, mism, hits


def expand_lets(cases, idx):
    """Returns the case line with $NAME references replaced by the preceding @let payloads."""
    env = {}
    for c in cases[:idx]:
        if c.startswith("@let "):
            name, _, payload = c[5:].partition(" ")
            env["$" + name] = payload
    line = cases[idx]
    for k, v in env.items():
        line = line.replace(k, v)
    return line


def run_lr(r, prop, n_quick=12, n_thorough=150, also=()):
    """Runs lrgen and files obligations/violations for property `prop` (oracle prefix `prop:`).
    `also`: further oracle prefixes that count for this property (e.g. C09 for C01's 'silent accept')."""
    n = n_quick if r.tier == "quick" else n_thorough
    res = r.run_family("lrgen", n=n, timeout=7200)
    vfail, mism, hits = classify(res)
    counters = res["meta"].get("counters", {})
    mine = []
    for p in (prop,) + tuple(also):
        mine += hits.get(p, [])
    # 1. the property statement evaluated on the implementation
    r.obligations.append(("oracle: %s evaluated on every run of every compiled generated parser (support, not proof)" % prop,
                          not mine, "%d violating runs of %d" % (len(mine), len(res["cases"]))))
    for (i, c, im, o) in mine[:3]:
        r.violation("lrgen-%d" % i, {"kind": "property-violated-by-implementation", "what": o, "implementation_output": im,
                                     "case_line": expand_lets(res["cases"], i)[:20000], "family": "lrgen", "seed": r.seed}, True)
    # 2. the verified validator on every emitted table
    nval = counters.get("validated", 0)
    r.obligations.append(("validator: LR.check = ok on the arrays read back from every emitted parser.gen.go (%d grammars)" % nval,
                          not vfail and nval > 0, "%d failures" % len(vfail)))
    # 3. runtime model = compiled parser
    r.obligations.append(("correspondence lr.parse: Lean runtime model = compiled generated parser on every input",
                          not mism, "%d mismatches" % len(mism)))
    # C03 only: on a table the validator accepted, the model's action log IS the post-order of the unique
    # derivation tree with the documented sugar values (parse_actions_postorder, sugar_values). An accepted
    # input on which the compiled parser logs other action calls is therefore a failing input of C03.
    proven = []
    if prop in ("C03", "C06") and mism and not mine:
        bad_pkgs = set()
        for (i, c, im, mo) in vfail:
            bad_pkgs.update(w for w in c.split() if w.startswith("$"))
        for (i, c, im, mo) in mism:
            if not c.startswith("lr.parse") or not (im.startswith("acc") and mo.startswith("acc")):
                continue
            if any(w in bad_pkgs for w in c.split() if w.startswith("$")):
                continue
            ai = [e for e in im.split(" ; ") if e.startswith("A ")]
            am = [e for e in mo.split(" ; ") if e.startswith("A ")]
            if ai != am:
                rules = lambda xs: [e.split()[1] for e in xs]
                kind = "other action calls" if rules(ai) != rules(am) else "the same action calls with other argument values"
                proven.append((i, c, im, mo, kind))
        for (i, c, im, mo, kind) in proven[:3]:
            r.violation("lrgen-actions-%d" % i, {
                "kind": "property-violated-by-implementation",
                "what": prop + ": on an accepted input the compiled parser executes %s than the post-order of the derivation tree (the model's log, proved by parse_actions_postorder / sugar_values for tables that pass LR.check)" % kind,
                "implementation_output": im, "model_output": mo, "case_line": expand_lets(res["cases"], i)[:20000], "family": "lrgen", "seed": r.seed}, True)
    if (vfail or mism) and not mine and not proven:
        first = (vfail or mism)[0]
        others = {k: len(v) for k, v in hits.items()}
        r.violation("lrgen-tie", {
            "kind": "validator-rejects-emitted-table" if vfail else "correspondence-broken",
            "first": {"case_line": expand_lets(res["cases"], first[0])[:20000], "implementation": first[2], "model": first[3]},
            "validator_failures": len(vfail), "model_mismatches": len(mism),
            "note": "search: the %s oracle found no failing input among %d runs; oracle hits for other properties: %s" % (prop, len(res["cases"]), others),
            "names": "theorems Lox.Props.%s.* rely on LR.check (Lox/LR/Check.lean) and on the runtime model Lox/LR/Model.lean" % prop,
        }, False)
    r.cov["lrgen_counters"] = counters
    r.cov["programs"] = nval
    return res, hits
