#!/usr/bin/env python3
"""Regenerates /verif/MANIFEST.json from the table below (kept in one place so it stays valid)."""
import json

BASELINE_OFF = "cd /repo && GOFLAGS=-mod=mod GOPROXY=off GOSUMDB=off go test -json -vet=off -count=1 -timeout 25m ./..."

CLAIMED = {
    # id: (level, text, note, technique, design_ref)
    "C15": ("proof",
            "Lean theorems over the model of rang3 (Flatten/Subtract/Normalize, class evaluation) for all lists of ranges; the model is tied to the Go functions by an exhaustive small-universe + boundary-sampling correspondence run on every check.",
            "Trusted: Lean kernel (axioms ⊆ propext, Classical.choice, Quot.sound), the correspondence harness, int32-without-overflow reading of rune arithmetic.",
            "Lean 4 theorems (induction over range lists) + differential correspondence model↔Go", "§7 C15"),
}

NOT_YET = {
}

ALL = ["C%02d" % i for i in range(1, 20)]


def main():
    checks = []
    for pid in ALL:
        if pid not in CLAIMED:
            continue
        level, text, note, tech, ref = CLAIMED[pid]
        checks.append({
            "property_id": pid,
            "quick_cmd": "bin/check %s --tier quick" % pid,
            "thorough_cmd": "bin/check %s --tier thorough" % pid,
            "evidence_file": "/verif/evidence/%s.json" % pid,
            "replay_cmd_template": "bin/check %s --replay {path}" % pid,
            "engine": "lean4+go-correspondence",
            "level_claimed": {"category": level, "text": text, "design_ref": "DESIGN.md " + ref},
            "level_note": note,
            "technique": tech,
        })
    na = [{"property_id": p, "reason": NOT_YET.get(p, "check not built yet in this round (planned, see DESIGN.md §7); not claimed until its check exists")}
          for p in ALL if p not in CLAIMED]
    m = {
        "version": 1,
        "setup_cmd": "bin/setup",
        "hooks": {
            "guard": "verif",
            "enable": "bin/build-harness <out>: (cd /repo && go build -tags verif -overlay <generated overlay.json> ./cmd/verifdrv) — harness sources live in /verif/harness and carry //go:build verif; nothing is committed to /repo for hooks",
            "baseline_off_cmd": BASELINE_OFF,
            "source_commits": [],
            "add_only": True,
        },
        "engines": [
            {"name": "lean4+go-correspondence", "path": "/verif/lean, /verif/harness, /verif/bin/check",
             "serves_properties": [c["property_id"] for c in checks],
             "kind_free_text": "Lean 4 models + kernel-checked theorems; Go correspondence harness compiled from the working tree (go build -overlay); python3 orchestrator"},
        ],
        "checks": checks,
        "not_applicable": na,
        "notes": "See DESIGN.md. KNOWN_FINDINGS.txt lists recorded defects and fixed: entries.",
    }
    json.dump(m, open("/verif/MANIFEST.json", "w"), indent=1, ensure_ascii=False)
    print("claimed:", [c["property_id"] for c in checks])


if __name__ == "__main__":
    main()
