#!/usr/bin/env python3
"""Regenerates /verif/MANIFEST.json from the table below (kept in one place so it stays valid)."""
import json

BASELINE_OFF = "cd /repo && GOFLAGS=-mod=mod GOPROXY=off GOSUMDB=off go test -json -vet=off -count=1 -timeout 25m ./..."

TB = ("Trusted: Lean kernel (axioms ⊆ propext, Classical.choice, Quot.sound, audited per theorem on every run), Lean compiler for running "
      "validators/models, the Go correspondence harness (generator quality bounds what the tie sees), go toolchain.")

CLAIMED = {
    # id: (level, text, note, technique, design_ref)
    "C01": ("proof",
            "Verified validator: Lean theorems (check_sound, tables_exact, tables_decide, parse_decides, unambiguous) say that whenever LR.check accepts (grammar, emitted arrays, item-set certificate) the table-driven parser and the model of the generated parse() accept exactly the derivations of the grammar, for every token sequence. The validator runs on the arrays read back from every parser.gen.go the real generator emits for random sugar grammars; compiled generated parsers are compared with the runtime model on every input; membership is cross-checked by an independent recogniser.",
            TB + " Programs (grammars) are sampled; inputs are covered by the theorems per validated grammar.",
            "Lean 4 proof-carrying validation (LR validator soundness/completeness) + differential correspondence of the runtime model with compiled generated parsers", "§7 C01"),
    "C02": ("proof",
            "Verified validator: bisim_sound says that when Lex.bisim accepts (rules as regular expressions, emitted mode table) the table run equals the rule-level spec (viability, earliest matching rule) on every string; munch lifts it to ReadToken (longest viable prefix). Runs on every mode table emitted for random lexer specs; compiled lexers under the real simplelexer are compared with the Lean model and with an independent reference lexer.",
            TB, "Lean 4 proof-carrying validation (Antimirov derivatives, bisimulation checker soundness) + differential correspondence", "§7 C02"),
    "C03": ("proof",
            "actions_postorder / parse_actions_postorder: for validated tables the logged action calls are exactly the post-order of the unique derivation tree with children in production order; sugar interpretation model (interp) is tied to compiled parsers (values of ?, *, +, *!, @list) on every run.",
            TB, "Lean 4 theorems over the LR machine + differential correspondence of action logs", "§7 C03"),
    "C04": ("proof",
            "Decision logic of resolveConflicts proved for all action cells (only one-rule S/R pairs with explicit precedences are settled, exactly one action kept, verdict = some cell keeps more than one action); the ConstructLALR worklist is modelled in Lean and proved, for ALL grammars, to terminate without panicking and to return exactly the LALR(1) automaton by definition (construct_terminates / construct_sound / construct_complete / construct_correct / construct_order_irrelevant), the model being tied to the real ConstructLALR state by state on every run (family construct); every run of the real ConstructLALR, refused or accepted, is validated by the verified conflict checker (item sets closed, justified, kernels distinct, HasConflicts = verdict by definition: conflict_check_sound, verdict_exact); accepted tables are validated (no hidden conflict, no missing or invented lookahead); verdict and automaton are also compared with an independent LALR(1) reference on random and classic grammars.",
            TB + " The reading of the grammar out of lr1.Grammar and the printing of the automaton are harness code; the Lean construct model corresponds to the Go worklist by differential runs, not by translation.",
            "Lean 4 theorems on the resolution logic and on a model of ConstructLALR + verified validators + correspondence", "§7 C04"),
    "C05": ("proof",
            "op_machine_climb: a shift-reduce machine whose decisions follow the documented relation builds the precedence-climbing tree for all operator sequences; resolve_documented_partial: resolveConflicts yields that relation except for @right (known finding K1, negation proved on the calc cell). Compiled expression parsers over random operator tables are compared with precedence climbing; deviations are accepted only when explained by K1.",
            TB + " Partial: @right is a recorded known finding.",
            "Lean 4 theorem (operator-precedence machine = precedence climbing) + correspondence", "§7 C05"),
    "C06": ("proof",
            "assign_ok_iff (the model of AssignActions accepts exactly the packages the property describes, relative to go/types' assignability/identity relations), assign_binding_sound, assign_diag_names, assign_no_panic, stack_invariant/values_flow (every action argument is the stack value, never a substituted zero). The model is compared with the real codegen.Generate on random typed packages (named/unnamed/interface/pointer/generic/imported types, 13 binding-layout faults); accepted packages are compiled and run with id-tagged values.",
            TB + " The Go type system is a parameter: assignable/identical matrices come from go/types itself. 'Compiles' is observed, not proved.",
            "Lean 4 theorems on the binding model + differential correspondence with codegen.Generate + compile-and-run oracle", "§7 C06"),
    "C07": ("proof",
            "all_effective_frag/token, runActions_mode_stack, mode_stack_discipline, accum_prefix over the model of PushRune/simplelexer for all tables satisfying wfModes and all inputs; wfModes and the model are tied to every emitted lexer; expected action pairs (mode actions in written order, terminal last) are checked by the table validator.",
            TB, "Lean 4 invariants over the lexer runtime model + validators + correspondence", "§7 C07"),
    "C08": ("proof",
            "bisimNG_sound: when Lex.bisimNG accepts (rules, emitted table) the table run equals the shortest-match spec for rules containing *?/+? on every string; ng_shape_star/plus: for prefix · body*? · terminator the token ends at the first occurrence of the terminator. Runs on every table emitted for random specs of the stated shape; compiled lexers vs model and reference lexer. The leak of the non-greedy mark onto a greedy rule's accepting state is known finding K2 (the validator names it).",
            TB + " Partial: K2.", "Lean 4 proof-carrying validation (non-greedy bisimulation checker) + correspondence", "§7 C08"),
    "C09": ("proof",
            "Over the model of parse/_recover: parse_no_panic, parse_terminates, parse_total (all inputs incl. lexer ERROR tokens, any number of recoveries), accepted_edit_is_sentence, no_silent_accept, error_delivered, first_error_token (the first Error carries the first token at which the input stops being a prefix of a sentence), recoveries_bounded for validated tables; recover_result/recover_progress for arbitrary tables. The model is compared with compiled generated parsers on all token strings up to a length including lexer ERROR tokens, under a step budget (a hang is an observation).",
            TB + " first_error_token (correct-prefix) assumes the input holds no lexer ERROR token; premises check/justify/productive/termB/recoveryOK are evaluated on every emitted table.",
            "Lean 4 theorems over the model of the generated parse/_recover + correspondence with compiled parsers", "§7 C09"),
    "C10": ("proof",
            "Table codec theorems for all row lists (roundtrip, find_correct, shared_only_if_equal, indices_in_range, rowKey_injective), lexer row codec, decode_wf/table_faithful for mode tables, LR.check for parser tables; ties: table family vs newTable/AddRow/Array, validators on every emitted table.",
            TB, "Lean 4 theorems on the table codec + proof-carrying validation of emitted tables", "§7 C10"),
    "C11": ("proof",
            "progress, lexAll_terminates, conservation (segments partition the input), no_oob for all tables satisfying wfModes and all inputs; K3 (rule matching the empty string) and K5 (accumulated text dropped at EOF) are recorded known findings with kernel-checked negative witnesses.",
            TB + " Partial: K3, K5.", "Lean 4 termination/conservation theorems over the lexer runtime model + correspondence", "§7 C11"),
    "C12": ("other",
            "Lean: totality/no-panic theorems for the text→value helpers reachable from grammar text (unescape, hexToRune, fixLiteral, precedence conversion) and corollaries of the no-panic theorems of the other properties; a regenerated inventory of every panic / assert / unchecked assertion / non-constant index site in /repo compared with a committed classification (proved / guarded / internal-invariant); structured + byte-level fuzzing of the real CLI in subprocesses (exit 0 ⇒ three files that compile; exit ≠ 0 ⇒ a diagnostic; never a trace, never a hang).",
            "Not a proof of the universal claim: go/packages, Jet, gofmt and the OS are outside any Lean model. The static premise (site inventory) and fuzzing are checks, the theorems cover the enumerated grammar-text sites. Known findings K6 (stack overflow at ~3M nested parentheses) and K7 (macro doubling blow-up).",
            "Lean 4 theorems on enumerated panic sites + regenerated fact extractor + CLI fuzzing", "§7 C12"),
    "C13": ("other",
            "Lean: the order-independence arguments the code relies on for all lists (sort_perm, fold_set_perm, heap_perm, normalize_perm, pick_source_ignores_generated, imports_alias_deterministic); a regenerated inventory of every range over a built-in map with a mechanical classification (sorted-after / insert-only / lookup-only) compared with a committed list; dynamic: same spec generated in fresh processes, other working directories and over stale output of the same and of a different grammar, bytes and --report compared.",
            "That the Go code depends on map order only through the listed sites is a checked static premise, not a theorem; Jet/gofmt determinism is observed.",
            "Lean 4 order-independence theorems + regenerated map-range inventory + repeated generation", "§7 C13"),
    "C14": ("translation_validation",
            "Exhaustive: the four directories with checked-in generated code are regenerated with the generator built from the working tree and compared byte for byte; the checked-in tables additionally pass the Lean validators against the grammar/rules in the same directory.",
            "Finite statement about the working tree; Lean validators supply the semantic half.", "regeneration + byte comparison + Lean validators", "§7 C14"),
    "C15": ("proof",
            "Lean theorems over the model of rang3 (Flatten/Subtract/Normalize, class evaluation, relabelling callbacks) for all lists of ranges, and over the model of parser.on_char_class (class_items_as_written: the AST items are the written items, an escaped dash is a character in every position; class_text_den); the models are tied to the Go functions by an exhaustive small-universe + boundary-sampling correspondence (rang3) and by class expressions generated as TEXT in every spelling and sent through the real front end (classtext), run on every check; the oracle replays the Normalize callbacks (every range = exact union of the pieces it is relabelled with).",
            TB + " int32-without-overflow reading of rune arithmetic.",
            "Lean 4 theorems (induction over range lists) + differential correspondence model↔Go", "§7 C15"),
    "C16": ("proof",
            "erasure (presence of _onBounds changes nothing else), bounds_inv, on_bounds_calls for arbitrary tables, inputs and fuel over the model of parse(); the model's bounds log is compared with compiled parsers defining _onBounds on every run; nil twins (the same grammar with interface-typed rules whose actions return nil) must produce the same _onBounds calls.",
            TB, "Lean 4 invariants over the parser runtime model + correspondence", "§7 C16"),
    "C17": ("proof",
            "analyze_nil_iff (the model of the four front-end passes accepts exactly the well-formed specifications, WellFormed written from the property text), diag_in_decl, single_fault (29 fault injectors at any position / file / mode), wellFormedB_decides. The model is compared with the real front end on random multi-file specifications and every injector (kind and line of each diagnostic).",
            TB, "Lean 4 theorems on the analysis model + differential correspondence with the real front end", "§7 C17"),
    "C18": ("other",
            "Lean: interleave_independent and its instantiation with the real runtime models (any interleaving of N parser/lexer instances over shared immutable tables gives each instance its solo trace); checked premise: may-alias analysis of the generated files (only the table variables are package-level, nothing writes through them or their aliases) compared with a committed inventory; support: mixed packages run concurrently under -race and compared with sequential runs.",
            "The Go memory model and the race detector's completeness are not modelled; the premise is a static check of generated code.",
            "Lean 4 schedule-independence theorem + static shared-state inventory + race-detector runs", "§7 C18"),
    "C19": ("proof",
            "Numbering model theorems (EOF=0, ERROR=1, dense, injective, declaration order, ??? outside) + correspondence with the const block / _TokenToString emitted for random multi-file specs; accept parameters and row keys go through the table validators.",
            TB, "Lean 4 theorems on the numbering model + correspondence", "§7 C19"),
}

NOT_YET = {
}

ALL = ["C%02d" % i for i in range(1, 20)]


def main():
    checks = []
    for pid in ALL:
        if pid not in CLAIMED:
            continue
        level, text, note, tech, ref = CLAIMED[pid]
        checks.append({
            "property_id": pid,
            "quick_cmd": "bin/check %s --tier quick" % pid,
            "thorough_cmd": "bin/check %s --tier thorough" % pid,
            "evidence_file": "/verif/evidence/%s.json" % pid,
            "replay_cmd_template": "bin/check %s --replay {path}" % pid,
            "engine": "lean4+go-correspondence",
            "level_claimed": {"category": level, "text": text, "design_ref": "DESIGN.md " + ref},
            "level_note": note,
            "technique": tech,
        })
    na = [{"property_id": p, "reason": NOT_YET.get(p, "check not built yet in this round (planned, see DESIGN.md §7); not claimed until its check exists")}
          for p in ALL if p not in CLAIMED]
    m = {
        "version": 1,
        "setup_cmd": "bin/setup",
        "hooks": {
            "guard": "verif",
            "enable": "bin/build-harness <out>: (cd /repo && go build -tags verif -overlay <generated overlay.json> ./cmd/verifdrv) — harness sources live in /verif/harness and carry //go:build verif; nothing is committed to /repo for hooks",
            "baseline_off_cmd": BASELINE_OFF,
            "source_commits": [],
            "add_only": True,
        },
        "engines": [
            {"name": "lean4+go-correspondence", "path": "/verif/lean, /verif/harness, /verif/bin/check",
             "serves_properties": [c["property_id"] for c in checks],
             "kind_free_text": "Lean 4 models + kernel-checked theorems; Go correspondence harness compiled from the working tree (go build -overlay); python3 orchestrator"},
        ],
        "checks": checks,
        "not_applicable": na,
        "notes": "See DESIGN.md. KNOWN_FINDINGS.txt lists recorded defects and fixed: entries.",
    }
    json.dump(m, open("/verif/MANIFEST.json", "w"), indent=1, ensure_ascii=False)
    print("claimed:", [c["property_id"] for c in checks])


if __name__ == "__main__":
    main()
