"""Shared part of the lexer-side checks (C02, C07, C10, C11, C08): the `lexgen` family.

Per generated specification that the real generator accepted:
  * `lex.bisim`   – the verified Lean validator on (rules of a mode as regular expressions with their
                    expected action pairs, the emitted `_lexerModeN` read back from lexer.gen.go);
  * `lex.wfmodes` – the decidable well-formedness predicate the runtime theorems assume;
  * `lex.run`     – simplelexer over the compiled generated state machine vs the Lean runtime model;
  * oracle column – the rule-level reference lexer (harness/drv/lexoracle.go) on the same bytes.
"""
import common
from lrcommon import expand_lets


def classify(res):
    oracle = open(res["dir"] + "/oracle.txt", encoding="utf-8", errors="replace").read().split("\n")
    hits = {}
    for i, c in enumerate(res["cases"]):
        o = oracle[i] if i < len(oracle) else ""
        if o.strip():
            tags = o.split(":", 1)[0]
            for pid in tags.split(","):
                hits.setdefault(pid.strip(), []).append((i, c, res["impl"][i], o))
    by = {"lex.bisim": [], "lex.wfmodes": [], "lex.run": [], "other": []}
    for m in res["mismatches"]:
        op = m[1].split(" ", 1)[0]
        if op == "lex.bisimng":
            op = "lex.bisim"
        by.get(op, by["other"]).append(m)
    return by, hits


def run_lex(r, prop, n_quick=20, n_thorough=200, use=("lex.bisim", "lex.wfmodes", "lex.run"), family="lexgen", also_if_broken=()):
    """`also_if_broken`: oracle prefixes whose hits count as the failing input of `prop` when (and only when)
    a validator named in `use` rejected an emitted table in the same run."""
    n = n_quick if r.tier == "quick" else n_thorough
    res = r.run_family(family, n=n, timeout=7200)
    by, hits = classify(res)
    counters = res["meta"].get("counters", {})
    mine = hits.get(prop, [])
    r.obligations.append(("oracle: rule-level reference lexer = simplelexer over the compiled generated machine on every input (%s; support, not proof)" % prop,
                          not mine, "%d differing runs of %d" % (len(mine), len(res["cases"]))))
    for (i, c, im, o) in mine[:3]:
        r.violation("%s-%d" % (family, i), {"kind": "property-violated-by-implementation", "what": o[:6000], "implementation_output": im,
                                       "case_line": expand_lets(res["cases"], i)[:20000], "family": family}, True)
    broken = []
    if "lex.bisim" in use:
        nv = counters.get("modes-validated", 0)
        r.obligations.append(("validator: Lex.bisim = ok on every emitted mode table vs the rules it was built from (%d modes)" % nv,
                              not by["lex.bisim"] and nv > 0, "%d failures" % len(by["lex.bisim"])))
        broken += by["lex.bisim"]
    if "lex.wfmodes" in use:
        r.obligations.append(("validator: wfModes = ok on every emitted lexer (premise of the runtime theorems)",
                              not by["lex.wfmodes"], "%d failures" % len(by["lex.wfmodes"])))
        broken += by["lex.wfmodes"]
    if "lex.run" in use:
        r.obligations.append(("correspondence lex.run: Lean model of PushRune + simplelexer = compiled generated lexer on every input",
                              not by["lex.run"], "%d mismatches" % len(by["lex.run"])))
        broken += by["lex.run"]
    broken += by["other"]
    borrowed = []
    if broken and not mine and also_if_broken:
        # a specification's lines: its lex.bisim(ng) lines, lex.wfmodes, @let, then its runs
        spec, cur, prev_b = [], -1, False
        for c in res["cases"]:
            b = c.startswith(("lex.bisim", "lex.bisimng"))
            if b and not prev_b:
                cur += 1
            prev_b = b
            spec.append(cur)
        bad = {spec[m[0]] for m in broken if m[0] < len(spec)}
        for p in also_if_broken:
            borrowed += [h for h in hits.get(p, []) if spec[h[0]] in bad]
    if broken and not mine:
        first = broken[0]
        r.violation(family + "-tie", {
            "input": ({"what": borrowed[0][3][:6000], "implementation_output": borrowed[0][2],
                       "case_line": expand_lets(res["cases"], borrowed[0][0])[:20000]} if borrowed else None),
            "kind": "validator-rejects-emitted-table" if first[1].startswith(("lex.bisim", "lex.wf")) else "correspondence-broken",
            "first": {"case_line": expand_lets(res["cases"], first[0])[:20000], "implementation": first[2], "model": first[3]},
            "counts": {k: len(v) for k, v in by.items()},
            "note": ("the validator rejects the table of a specification on which the compiled lexer also differs from the rule-level definition (field `input`)"
                     if borrowed else "search: the reference lexer found no differing input among %d runs; oracle hits for other properties: %s" % (
                         len(res["cases"]), {k: len(v) for k, v in hits.items()})),
            "names": "theorems Lox.Props.%s.* rely on Lex.bisim (Lox/Lex/Bisim.lean), wfModes (Lox/Lex/Runtime.lean) and the model Lox/Lex/Model.lean" % prop,
        }, bool(borrowed))
    r.cov[family + "_counters"] = counters
    r.cov["programs"] = counters.get("accepted", 0)
    return res, hits
