//go:build verif

package main

import (
	"encoding/binary"
	"fmt"
	"sort"
	"strconv"
	"strings"

	"github.com/dcaiafa/lox/internal/parsergen/lr1"
)

// Family genmodel (C01/C04): the generator's own lookahead machinery — lr1.First, lr1.Closure,
// lr1.Goto, lr1.Next, ItemSet.LR0Key and createActions — against the Lean model
// Lox/LR/GenModel.lean (driver Lox/LR/DrvGenModel.lean).
//
// Grammars: random GenSpec specifications rendered to .lox text and passed through the real front
// end (RunFront: parse + analyze → lr1.Grammar), hand-written ones (left recursion under a nullable
// prefix, a nullable rule reached twice, ε-chains written use-before-definition, mutually recursive
// nullable rules), and grammars built directly through the lr1 API (unreachable / unproductive
// rules, rules without productions, random shapes the front end would reject).
//
// Protocol. `@let G <nTerms> <nRules> | <prods>` binds the grammar (encoding of grammarLine:
// productions separated by ';', each `lhs s1 s2 …`, terminal k written k, rule A written -(A+1));
// the ops take `$G` as their first two sections (a replayed line may carry them inline):
//
//   lr.first   $G | <symbols>             First(g, syms): terminal indices increasing, then `e` for ε; `-` = empty
//   lr.closure $G | <items p d a …>       Closure: items in SortItems order, `-` = empty, `panic`
//   lr.goto    $G | <items> | <symbol>    Goto
//   lr.next    $G | <items>               Next as a set (terminals increasing, then rules increasing)
//   lr.lr0key  $G | <items>               LR0Key decoded to its (prod, dot) pairs `p d p d …`
//   lr.actions $G | <items> | <a s a s …> createActions on a state with these items and these terminal
//                                         transitions: `a : s <target> <prods…> , r <prod> , a ; b : …`
//
// Oracle column (independent of FIRST-by-fixpoint and of the Lean model): FIRST semantically, by
// breadth-first enumeration of the sentential forms reachable by expanding the head symbol
// (truncated at gmTrunc symbols, exhaustive below the state cap): a terminal found there but not
// reported is `C01: FIRST(…) misses terminal …`; a reported terminal that an exhaustive, untruncated
// enumeration does not find is `C04: FIRST(…) invents terminal …`. Closure/Goto answers are checked
// against a reference closure that uses this semantic FIRST; createActions answers against the
// textbook statement (accept / reduce on the lookahead of a completed item, shift on the terminal
// after a dot).

const (
	gmTrunc    = 14
	gmStateCap = 6000
)

// ---------- grammar encoding ----------

func gmHeader(g *lr1.Grammar) string {
	return fmt.Sprintf("%d %d | %s", len(g.Terminals), len(g.Rules), grammarLine(g))
}

func gmSymCode(t lr1.Term) int {
	switch t := t.(type) {
	case *lr1.Terminal:
		return t.Index
	case *lr1.Rule:
		return -(t.Index + 1)
	}
	panic("bad term")
}

func gmSymsText(syms []lr1.Term) string {
	xs := make([]int, len(syms))
	for i, s := range syms {
		xs[i] = gmSymCode(s)
	}
	return joinInts(xs)
}

func gmInts(s string) ([]int, error) {
	var xs []int
	for _, f := range strings.Fields(s) {
		v, err := strconv.Atoi(f)
		if err != nil {
			return nil, err
		}
		xs = append(xs, v)
	}
	return xs, nil
}

func gmSym(g *lr1.Grammar, k int) (lr1.Term, error) {
	if k >= 0 {
		if k >= len(g.Terminals) {
			return nil, fmt.Errorf("terminal %d out of range", k)
		}
		return g.Terminals[k], nil
	}
	if -k-1 >= len(g.Rules) {
		return nil, fmt.Errorf("rule %d out of range", -k-1)
	}
	return g.Rules[-k-1], nil
}

func gmSyms(g *lr1.Grammar, s string) ([]lr1.Term, error) {
	xs, err := gmInts(s)
	if err != nil {
		return nil, err
	}
	out := make([]lr1.Term, len(xs))
	for i, k := range xs {
		if out[i], err = gmSym(g, k); err != nil {
			return nil, err
		}
	}
	return out, nil
}

// gmDecode rebuilds an lr1.Grammar from `<nTerms> <nRules> | <prods>` through the public API.
func gmDecode(hd, prods string) (*lr1.Grammar, error) {
	h, err := gmInts(hd)
	if err != nil || len(h) != 2 || h[0] < 2 || h[1] < 1 {
		return nil, fmt.Errorf("bad grammar header %q", hd)
	}
	g := lr1.NewGrammar()
	for len(g.Terminals) < h[0] {
		g.AddTerminal(fmt.Sprintf("t%d", len(g.Terminals)))
	}
	for len(g.Rules) < h[1] {
		g.AddRule(fmt.Sprintf("r%d", len(g.Rules)))
	}
	for i, ps := range strings.Split(prods, ";") {
		xs, err := gmInts(ps)
		if err != nil || len(xs) == 0 {
			return nil, fmt.Errorf("bad production %q", ps)
		}
		lhs := xs[0]
		if lhs < 0 {
			lhs = -lhs - 1
		}
		if lhs >= len(g.Rules) {
			return nil, fmt.Errorf("lhs out of range in %q", ps)
		}
		terms := make([]lr1.Term, len(xs)-1)
		for j, k := range xs[1:] {
			if terms[j], err = gmSym(g, k); err != nil {
				return nil, err
			}
		}
		if i == 0 {
			if lhs != 0 {
				return nil, fmt.Errorf("production 0 must belong to S'")
			}
			g.Prods[0].Terms = terms
		} else {
			g.AddProd(g.Rules[lhs], terms...)
		}
	}
	return g, nil
}

func gmItems(s string) ([]lr1.Item, error) {
	xs, err := gmInts(s)
	if err != nil || len(xs)%3 != 0 {
		return nil, fmt.Errorf("bad items %q", s)
	}
	var out []lr1.Item
	for i := 0; i < len(xs); i += 3 {
		if xs[i] < 0 || xs[i+1] < 0 || xs[i+2] < 0 {
			return nil, fmt.Errorf("negative item field")
		}
		out = append(out, lr1.Item{Prod: xs[i], Dot: xs[i+1], Lookahead: xs[i+2]})
	}
	return out, nil
}

func gmItemSet(items []lr1.Item) *lr1.ItemSet {
	is := new(lr1.ItemSet)
	for _, it := range items {
		is.Add(it)
	}
	return is
}

func gmItemsText(items []lr1.Item) string {
	if len(items) == 0 {
		return "-"
	}
	xs := make([]int, 0, 3*len(items))
	for _, it := range items {
		xs = append(xs, it.Prod, it.Dot, it.Lookahead)
	}
	return joinInts(xs)
}

func gmActionsText(cells []lr1.VerifTermCell) string {
	if len(cells) == 0 {
		return "-"
	}
	var parts []string
	for _, c := range cells {
		var as []string
		for _, a := range c.Actions {
			switch a.Kind {
			case 's':
				as = append(as, strings.TrimSpace(fmt.Sprintf("s %d %s", a.Target, joinInts(a.Prods))))
			case 'r':
				as = append(as, fmt.Sprintf("r %d", a.Prods[0]))
			case 'a':
				as = append(as, "a")
			}
		}
		parts = append(parts, fmt.Sprintf("%d : %s", c.Terminal, strings.Join(as, " , ")))
	}
	return strings.Join(parts, " ; ")
}

// ---------- the implementation's answer for one case line ----------

func gmNormPanic(s string) string {
	if strings.HasPrefix(s, "PANIC") {
		return "panic"
	}
	return s
}

// gmImpl evaluates one op on the real code. sections = what follows the grammar.
func gmImpl(g *lr1.Grammar, op string, sections []string) string {
	return gmNormPanic(guard(func() string {
		switch op {
		case "lr.first":
			if len(sections) != 1 {
				return "bad-op"
			}
			syms, err := gmSyms(g, sections[0])
			if err != nil {
				return "bad-op"
			}
			fs := lr1.First(g, syms)
			var xs []int
			eps := false
			fs.ForEach(func(t *lr1.Terminal) {
				if t == lr1.Epsilon {
					eps = true
					return
				}
				xs = append(xs, t.Index)
			})
			sort.Ints(xs)
			parts := make([]string, 0, len(xs)+1)
			for _, x := range xs {
				parts = append(parts, strconv.Itoa(x))
			}
			if eps {
				parts = append(parts, "e")
			}
			if len(parts) == 0 {
				return "-"
			}
			return strings.Join(parts, " ")
		case "lr.closure":
			if len(sections) != 1 {
				return "bad-op"
			}
			items, err := gmItems(sections[0])
			if err != nil {
				return "bad-op"
			}
			return gmItemsText(lr1.Closure(g, gmItemSet(items)).Items())
		case "lr.goto":
			if len(sections) != 2 {
				return "bad-op"
			}
			items, err := gmItems(sections[0])
			if err != nil {
				return "bad-op"
			}
			syms, err := gmSyms(g, sections[1])
			if err != nil || len(syms) != 1 {
				return "bad-op"
			}
			return gmItemsText(lr1.Goto(g, gmItemSet(items), syms[0]).Items())
		case "lr.next":
			if len(sections) != 1 {
				return "bad-op"
			}
			items, err := gmItems(sections[0])
			if err != nil {
				return "bad-op"
			}
			syms := lr1.Next(g, *gmItemSet(items))
			var ts, rs []int
			for _, s := range syms {
				if k := gmSymCode(s); k >= 0 {
					ts = append(ts, k)
				} else {
					rs = append(rs, -k-1)
				}
			}
			sort.Ints(ts)
			sort.Ints(rs)
			var parts []string
			for _, t := range ts {
				parts = append(parts, strconv.Itoa(t))
			}
			for _, r := range rs {
				parts = append(parts, strconv.Itoa(-(r + 1)))
			}
			if len(parts) == 0 {
				return "-"
			}
			return strings.Join(parts, " ")
		case "lr.lr0key":
			if len(sections) != 1 {
				return "bad-op"
			}
			items, err := gmItems(sections[0])
			if err != nil {
				return "bad-op"
			}
			key := []byte(gmItemSet(items).LR0Key())
			if len(key)%8 != 0 {
				return fmt.Sprintf("key of %d bytes", len(key))
			}
			if len(key) == 0 {
				return "-"
			}
			var xs []int
			for i := 0; i < len(key); i += 4 {
				xs = append(xs, int(binary.BigEndian.Uint32(key[i:])))
			}
			return joinInts(xs)
		case "lr.actions":
			if len(sections) != 2 {
				return "bad-op"
			}
			items, err := gmItems(sections[0])
			if err != nil {
				return "bad-op"
			}
			trs, err := gmInts(sections[1])
			if err != nil || len(trs)%2 != 0 {
				return "bad-op"
			}
			tr := map[int]int{}
			for i := 0; i < len(trs); i += 2 {
				if trs[i] < 0 || trs[i] >= len(g.Terminals) || trs[i+1] < 0 || trs[i+1] > 100000 {
					return "bad-op"
				}
				if _, dup := tr[trs[i]]; dup {
					return "bad-op"
				}
				tr[trs[i]] = trs[i+1]
			}
			return gmActionsText(lr1.VerifCreateActions(g, items, tr))
		}
		return "bad-op"
	}))
}

// ---------- independent semantic FIRST ----------

type gmSem struct {
	terms        map[int]bool
	eps          bool
	inconclusive bool             // the enumeration was cut (truncated form consumed, or state cap)
	why          map[int]string   // derivation witness per terminal (-1 = ε)
}

type gmForm struct {
	syms  []lr1.Term
	trunc bool
}

func (f gmForm) key() string {
	var sb strings.Builder
	for _, s := range f.syms {
		sb.WriteString(strconv.Itoa(gmSymCode(s)))
		sb.WriteByte(' ')
	}
	if f.trunc {
		sb.WriteByte('T')
	}
	return sb.String()
}

// gmSemFirst: which terminals can stand first in a sentential form derived from syms, and can syms
// derive the empty string — by enumerating the forms reachable by replacing the head symbol by one
// of its productions (any derivation of `b β` from `X γ` expands X until it starts with b or
// vanishes, so head expansions suffice). Forms are cut at gmTrunc symbols; if a cut form is
// consumed entirely the answer is marked inconclusive.
func gmSemFirst(syms []lr1.Term) *gmSem {
	res := &gmSem{terms: map[int]bool{}, why: map[int]string{}}
	type node struct {
		f      gmForm
		parent int
		prod   int
	}
	start := gmForm{syms: syms}
	if len(start.syms) > gmTrunc {
		start = gmForm{syms: start.syms[:gmTrunc], trunc: true}
	}
	nodes := []node{{f: start, parent: -1, prod: -1}}
	seen := map[string]bool{start.key(): true}
	witness := func(i int) string {
		var ps []string
		for ; i >= 0 && nodes[i].parent >= 0; i = nodes[i].parent {
			ps = append([]string{strconv.Itoa(nodes[i].prod)}, ps...)
		}
		return "head expansions by productions [" + strings.Join(ps, " ") + "]"
	}
	for i := 0; i < len(nodes); i++ {
		f := nodes[i].f
		if len(f.syms) == 0 {
			if f.trunc {
				res.inconclusive = true
			} else if !res.eps {
				res.eps = true
				res.why[-1] = witness(i)
			}
			continue
		}
		switch h := f.syms[0].(type) {
		case *lr1.Terminal:
			if !res.terms[h.Index] {
				res.terms[h.Index] = true
				res.why[h.Index] = witness(i)
			}
		case *lr1.Rule:
			for _, p := range h.Prods {
				nf := gmForm{trunc: f.trunc}
				nf.syms = append(append([]lr1.Term{}, p.Terms...), f.syms[1:]...)
				if len(nf.syms) > gmTrunc {
					nf.syms = nf.syms[:gmTrunc]
					nf.trunc = true
				}
				k := nf.key()
				if seen[k] {
					continue
				}
				if len(nodes) >= gmStateCap {
					res.inconclusive = true
					continue
				}
				seen[k] = true
				nodes = append(nodes, node{f: nf, parent: i, prod: p.Index})
			}
		}
	}
	return res
}

// gmFirstOracle compares the implementation's lr.first answer with the semantic enumeration.
func gmFirstOracle(syms []lr1.Term, impl string) string {
	if impl == "panic" || impl == "bad-op" {
		return "C12: First panicked on " + gmSymsText(syms)
	}
	got := map[int]bool{}
	gotEps := false
	for _, f := range strings.Fields(impl) {
		switch f {
		case "-":
		case "e":
			gotEps = true
		default:
			v, err := strconv.Atoi(f)
			if err != nil {
				return "C01: unparseable FIRST answer " + impl
			}
			got[v] = true
		}
	}
	sem := gmSemFirst(syms)
	var want []int
	for t := range sem.terms {
		want = append(want, t)
	}
	sort.Ints(want)
	for _, t := range want {
		if !got[t] {
			return fmt.Sprintf("C01: FIRST(%s) misses terminal %d (derivable: %s)", gmSymsText(syms), t, sem.why[t])
		}
	}
	if sem.eps && !gotEps {
		return fmt.Sprintf("C01: FIRST(%s) misses ε (derivable: %s)", gmSymsText(syms), sem.why[-1])
	}
	if !sem.inconclusive {
		var gl []int
		for t := range got {
			gl = append(gl, t)
		}
		sort.Ints(gl)
		for _, t := range gl {
			if !sem.terms[t] {
				return fmt.Sprintf("C04: FIRST(%s) invents terminal %d (exhaustive enumeration of the sentential forms reachable by head expansion finds none starting with it)", gmSymsText(syms), t)
			}
		}
		if gotEps && !sem.eps {
			return fmt.Sprintf("C04: FIRST(%s) invents ε (exhaustive enumeration finds no derivation of the empty string)", gmSymsText(syms))
		}
	}
	return ""
}

// gmRefClosure: the least item set containing items and closed under the LR(1) closure rule with
// the SEMANTIC first sets; ok=false when a first set was inconclusive or an item is malformed.
func gmRefClosure(g *lr1.Grammar, items []lr1.Item, memo map[string]*gmSem) (map[lr1.Item]bool, bool) {
	set := map[lr1.Item]bool{}
	var work []lr1.Item
	for _, it := range items {
		if !set[it] {
			set[it] = true
			work = append(work, it)
		}
	}
	for len(work) > 0 {
		it := work[len(work)-1]
		work = work[:len(work)-1]
		if it.Prod >= len(g.Prods) || it.Dot > len(g.Prods[it.Prod].Terms) || it.Lookahead >= len(g.Terminals) {
			return nil, false
		}
		p := g.Prods[it.Prod]
		if it.Dot == len(p.Terms) {
			continue
		}
		B, isRule := p.Terms[it.Dot].(*lr1.Rule)
		if !isRule {
			continue
		}
		str := append(append([]lr1.Term{}, p.Terms[it.Dot+1:]...), g.Terminals[it.Lookahead])
		k := gmSymsText(str)
		sem := memo[k]
		if sem == nil {
			sem = gmSemFirst(str)
			memo[k] = sem
		}
		if sem.inconclusive {
			return nil, false
		}
		for _, q := range B.Prods {
			for b := range sem.terms {
				n := lr1.Item{Prod: q.Index, Dot: 0, Lookahead: b}
				if !set[n] {
					set[n] = true
					work = append(work, n)
				}
			}
		}
	}
	return set, true
}

func gmClosureOracle(g *lr1.Grammar, what string, start []lr1.Item, impl string, memo map[string]*gmSem) string {
	if impl == "panic" || impl == "bad-op" {
		return ""
	}
	ref, ok := gmRefClosure(g, start, memo)
	if !ok {
		return ""
	}
	var got []lr1.Item
	if impl != "-" {
		var err error
		if got, err = gmItems(impl); err != nil {
			return "C01: unparseable answer " + trunc(impl, 80)
		}
	}
	gs := map[lr1.Item]bool{}
	for _, it := range got {
		gs[it] = true
	}
	var refl []lr1.Item
	for it := range ref {
		refl = append(refl, it)
	}
	lr1.SortItems(refl)
	for _, it := range refl {
		if !gs[it] {
			return fmt.Sprintf("C01: %s misses item [%d %d %d] (required by the closure rule with the semantic FIRST sets)", what, it.Prod, it.Dot, it.Lookahead)
		}
	}
	for _, it := range got {
		if !ref[it] {
			return fmt.Sprintf("C04: %s invents item [%d %d %d] (not derivable by the closure rule with the semantic FIRST sets)", what, it.Prod, it.Dot, it.Lookahead)
		}
	}
	return ""
}

// gmActionsOracle: the textbook statement of the candidate actions of an item set.
func gmActionsOracle(g *lr1.Grammar, items []lr1.Item, trText, impl string) string {
	if impl == "panic" || impl == "bad-op" {
		return ""
	}
	want := map[string]bool{} // "a:acc", "a:r:p", "a:s"
	seen := map[lr1.Item]bool{}
	for _, it := range items {
		if seen[it] {
			continue
		}
		seen[it] = true
		if it.Prod >= len(g.Prods) || it.Dot > len(g.Prods[it.Prod].Terms) {
			return ""
		}
		p := g.Prods[it.Prod]
		if it.Dot == len(p.Terms) {
			if it.Prod == 0 {
				want[fmt.Sprintf("%d:acc", it.Lookahead)] = true
			} else {
				want[fmt.Sprintf("%d:r:%d", it.Lookahead, it.Prod)] = true
			}
		} else if t, ok := p.Terms[it.Dot].(*lr1.Terminal); ok {
			want[fmt.Sprintf("%d:s", t.Index)] = true
		}
	}
	got := map[string]bool{}
	if impl != "-" {
		for _, cell := range strings.Split(impl, ";") {
			a, acts, ok := strings.Cut(cell, ":")
			if !ok {
				return "C04: unparseable actions answer " + trunc(impl, 80)
			}
			a = strings.TrimSpace(a)
			for _, act := range strings.Split(acts, ",") {
				f := strings.Fields(act)
				if len(f) == 0 {
					return "C04: empty action in " + trunc(impl, 80)
				}
				var k string
				switch f[0] {
				case "a":
					k = a + ":acc"
				case "r":
					k = a + ":r:" + f[1]
				case "s":
					k = a + ":s"
				}
				if got[k] {
					return fmt.Sprintf("C04: createActions lists the action %s twice for items %s", k, gmItemsText(items))
				}
				got[k] = true
			}
		}
	}
	var ws []string
	for k := range want {
		ws = append(ws, k)
	}
	sort.Strings(ws)
	for _, k := range ws {
		if !got[k] {
			return fmt.Sprintf("C01: createActions misses the action %s for items %s | %s", k, gmItemsText(items), trText)
		}
	}
	var gl []string
	for k := range got {
		gl = append(gl, k)
	}
	sort.Strings(gl)
	for _, k := range gl {
		if !want[k] {
			return fmt.Sprintf("C04: createActions invents the action %s for items %s | %s", k, gmItemsText(items), trText)
		}
	}
	return ""
}

// ---------- grammars ----------

// gmRaw builds an lr1.Grammar directly through the lr1 API from the compact notation of
// ParseGSpec restricted to plain terms (UPPERCASE = token, lowercase = rule, first rule = start,
// `@empty`/nothing = empty production, `@none` as the whole body = a rule without productions).
func gmRaw(text string) *lr1.Grammar {
	g := lr1.NewGrammar()
	toks := map[string]*lr1.Terminal{}
	rules := map[string]*lr1.Rule{}
	type raw struct {
		name  string
		prods [][]string
	}
	var raws []raw
	for _, rt := range strings.Split(text, ";") {
		rt = strings.TrimSpace(rt)
		if rt == "" {
			continue
		}
		name, body, _ := strings.Cut(rt, "=")
		name = strings.TrimSpace(name)
		rules[name] = g.AddRule(name)
		r := raw{name: name}
		if strings.TrimSpace(body) != "@none" {
			for _, pt := range strings.Split(body, "|") {
				r.prods = append(r.prods, strings.Fields(pt))
			}
		}
		raws = append(raws, r)
	}
	for i, r := range raws {
		if i == 0 {
			g.SetStart(rules[r.name])
		}
		for _, ws := range r.prods {
			var terms []lr1.Term
			for _, w := range ws {
				switch {
				case w == "@empty":
				case w == strings.ToUpper(w):
					if toks[w] == nil {
						toks[w] = g.AddTerminal(w)
					}
					terms = append(terms, toks[w])
				default:
					if rules[w] == nil {
						panic("gmRaw: unknown rule " + w)
					}
					terms = append(terms, rules[w])
				}
			}
			g.AddProd(rules[r.name], terms...)
		}
	}
	return g
}

// hand-written grammars (through the real front end when it accepts them, else through the API)
var gmCurated = []string{
	// D1: a nullable rule reached twice
	"s = tt r; tt = T; r = oo X | oo Y Z; oo = O | @empty",
	// left recursion under a nullable prefix
	"s = n s A | B; n = N | @empty",
	"s = n m s A | B; n = N | @empty; m = @empty | M",
	"e = o e PLUS t | t; o = @empty; t = ID",
	// direct and indirect left recursion
	"s = s A | @empty", "s = s A | B", "s = x B | C; x = s A | D",
	// ε-chains written use-before-definition
	"s = a p X | a q Y; a = A; p = c0 P | Q; q = c0 Q; c0 = c1; c1 = c2; c2 = c3; c3 = @empty",
	"s = c0 c0 X; c0 = c1 c1; c1 = c2 c2; c2 = c3 c3; c3 = @empty | Z",
	"decl = LET mods binding SEMI; mods = MUT | @empty; binding = attrs ID | US; attrs = outer; outer = doc; doc = @empty",
	// mutually recursive nullable rules
	"s = a X; a = b A | @empty; b = a B | @empty",
	"s = a b C; a = b D | @empty; b = a E | @empty",
	"s = p q R; p = q p | @empty; q = p q | @empty | Q",
	// nullable in the middle, at the end, everywhere
	"s = n A n B n; n = N | @empty", "s = A s B | @empty", "s = x y z; x = X | @empty; y = Y | @empty; z = Z | @empty",
	// classic LALR-not-SLR, LR(1)-not-LALR, expression grammars
	"s = l EQ r | r; l = STAR r | ID; r = l", "e = e PLUS t | t; t = t STAR f | f; f = LP e RP | ID",
	"s = A x D | B y D | A y E | B x E; x = C; y = C",
	"e = e PLUS e | e STAR e | ID", "s = I s | I s E s | X",
}

// grammars the front end does not accept (or that are worth having exactly as written), via the API
var gmCuratedRaw = []string{
	// unproductive rules: u never terminates; FIRST still lists what its sentential forms start with
	"s = A u | B; u = u C | D u",
	"s = u X | Y; u = u",
	"s = n u A | B; n = @empty | N; u = n u",
	// unreachable rules
	"s = A; dead = B dead | C; also = dead D | @empty",
	// a rule without productions, used and unused
	"s = A none B | C; none = @none", "s = A; none = @none",
	// start rule nullable / only ε
	"s = @empty", "s = n n n; n = @empty",
	// duplicate productions, unit cycles
	"s = a | a; a = A | A", "s = a; a = b; b = a | B",
	// nullable rule reached twice with different followers, plus unproductive alternative
	"s = tt r; tt = T; r = oo X | oo Y Z | oo u; oo = O | @empty; u = u O",
	// deep nullable prefix before a left-recursive reference
	"s = a b c s X | Y; a = @empty; b = a a; c = b b | C",
}

func gmRandomRaw(r *Rng) *lr1.Grammar {
	g := lr1.NewGrammar()
	nt := 1 + r.Intn(4)
	for i := 0; i < nt; i++ {
		g.AddTerminal(fmt.Sprintf("T%d", i))
	}
	nr := 1 + r.Intn(5)
	var rules []*lr1.Rule
	for i := 0; i < nr; i++ {
		rules = append(rules, g.AddRule(fmt.Sprintf("r%d", i)))
	}
	g.SetStart(rules[0])
	for _, ru := range rules {
		np := r.Intn(4) // 0 productions is allowed
		if ru == rules[0] && np == 0 {
			np = 1
		}
		for j := 0; j < np; j++ {
			n := r.Intn(5)
			if r.Chance(1, 4) {
				n = 0
			}
			var terms []lr1.Term
			for k := 0; k < n; k++ {
				if r.Chance(3, 5) {
					terms = append(terms, rules[r.Intn(nr)])
				} else {
					terms = append(terms, g.Terminals[2+r.Intn(nt)])
				}
			}
			g.AddProd(ru, terms...)
		}
	}
	return g
}

// ---------- case generation for one grammar ----------

type gmGen struct {
	c    *Ctx
	g    *lr1.Grammar
	memo map[string]*gmSem
}

// gmEval: the implementation's answer and the oracle's verdict for one op.
func gmEval(g *lr1.Grammar, memo map[string]*gmSem, op string, sections []string) (impl, orc string) {
	impl = gmImpl(g, op, sections)
	switch {
	case op == "lr.first" && len(sections) == 1:
		if syms, err := gmSyms(g, sections[0]); err == nil {
			orc = gmFirstOracle(syms, impl)
		}
	case op == "lr.closure" && len(sections) == 1:
		if items, err := gmItems(sections[0]); err == nil {
			orc = gmClosureOracle(g, "Closure("+sections[0]+")", items, impl, memo)
		}
	case op == "lr.goto" && len(sections) == 2:
		items, err1 := gmItems(sections[0])
		syms, err2 := gmSyms(g, sections[1])
		if err1 == nil && err2 == nil && impl != "panic" && len(syms) == 1 {
			var adv []lr1.Item
			for _, it := range items {
				if it.Prod >= len(g.Prods) || it.Dot > len(g.Prods[it.Prod].Terms) {
					return impl, ""
				}
				p := g.Prods[it.Prod]
				if it.Dot < len(p.Terms) && p.Terms[it.Dot] == syms[0] {
					adv = append(adv, lr1.Item{Prod: it.Prod, Dot: it.Dot + 1, Lookahead: it.Lookahead})
				}
			}
			orc = gmClosureOracle(g, "Goto("+sections[0]+" | "+sections[1]+")", adv, impl, memo)
		}
	case op == "lr.actions" && len(sections) == 2:
		if items, err := gmItems(sections[0]); err == nil {
			orc = gmActionsOracle(g, items, sections[1], impl)
		}
	}
	return impl, orc
}

func (x *gmGen) emit(op string, sections ...string) string {
	line := op + " $G | " + strings.Join(sections, " | ")
	impl, orc := gmEval(x.g, x.memo, op, sections)
	if x.c.Distinct(gmHeader(x.g) + " # " + line) {
		x.c.Count(op)
	}
	if impl == "panic" {
		x.c.Count(op + " panic")
	}
	x.c.EmitO(line, impl, orc)
	return impl
}

func gmItemsArg(items []lr1.Item) string {
	if len(items) == 0 {
		return ""
	}
	return gmItemsText(items)
}

func gmTrText(tr map[int]int) string {
	var ks []int
	for a := range tr {
		ks = append(ks, a)
	}
	sort.Ints(ks)
	var xs []int
	for _, a := range ks {
		xs = append(xs, a, tr[a])
	}
	return joinInts(xs)
}

func gmCases(c *Ctx, g *lr1.Grammar, class string) {
	r := c.Rng
	if len(g.Prods) > 120 || len(g.Terminals) > 60 {
		c.Count("grammar-too-big")
		return
	}
	c.Count("grammar " + class)
	c.Emit("@let G "+gmHeader(g), "let")
	x := &gmGen{c: c, g: g, memo: map[string]*gmSem{}}

	allSyms := []lr1.Term{}
	for _, t := range g.Terminals {
		allSyms = append(allSyms, t)
	}
	for _, ru := range g.Rules {
		allSyms = append(allSyms, ru)
	}
	firstSeen := map[string]bool{}
	first := func(syms []lr1.Term) {
		k := gmSymsText(syms)
		if firstSeen[k] || len(firstSeen) > 150 {
			return
		}
		firstSeen[k] = true
		x.emit("lr.first", k)
	}

	// FIRST of every rule, of the empty string, of every production suffix
	first(nil)
	for _, ru := range g.Rules {
		first([]lr1.Term{ru})
	}
	for _, p := range g.Prods {
		for d := 0; d <= len(p.Terms) && d < 6; d++ {
			first(p.Terms[d:])
		}
	}

	// the real table (without conflict resolution): its states are the item sets the generator works on
	var t *lr1.ParserTable
	tp := guard(func() string { t = lr1.VerifConstructNoResolve(g); return "" })
	if tp != "" {
		c.Count("construct-panic")
		c.EmitO("# VerifConstructNoResolve panicked on "+gmHeader(g), "panic", "C12: ConstructLALR panicked: "+tp)
		t = nil
	}
	var states []*lr1.ItemSet
	if t != nil {
		states = append(states, t.States...)
		if len(states) > 24 {
			// keep state 0 and a random sample
			keep := []*lr1.ItemSet{states[0]}
			for len(keep) < 24 {
				keep = append(keep, states[1+r.Intn(len(states)-1)])
			}
			states = keep
		}
	}

	// every β·a that Closure asks FIRST for on the real item sets
	for _, st := range states {
		for _, it := range st.Items() {
			p := g.Prods[it.Prod]
			if it.Dot < len(p.Terms) {
				if _, ok := p.Terms[it.Dot].(*lr1.Rule); ok {
					first(append(append([]lr1.Term{}, p.Terms[it.Dot+1:]...), g.Terminals[it.Lookahead]))
				}
			}
		}
	}
	// random strings
	for i := 0; i < 6; i++ {
		n := r.Intn(5)
		var syms []lr1.Term
		for k := 0; k < n; k++ {
			if r.Chance(2, 3) {
				syms = append(syms, g.Rules[r.Intn(len(g.Rules))])
			} else {
				syms = append(syms, g.Terminals[r.Intn(len(g.Terminals))])
			}
		}
		first(syms)
	}

	randItem := func() lr1.Item {
		p := g.Prods[r.Intn(len(g.Prods))]
		return lr1.Item{Prod: p.Index, Dot: r.Intn(len(p.Terms) + 1), Lookahead: r.Intn(len(g.Terminals))}
	}
	subset := func(items []lr1.Item) []lr1.Item {
		var out []lr1.Item
		for _, it := range items {
			if r.Bool() {
				out = append(out, it)
			}
		}
		return out
	}
	kernel := func(items []lr1.Item) []lr1.Item {
		var out []lr1.Item
		for _, it := range items {
			if it.IsKernel() {
				out = append(out, it)
			}
		}
		return out
	}

	// Closure
	x.emit("lr.closure", "0 0 0")
	x.emit("lr.closure", "")
	for _, st := range states {
		x.emit("lr.closure", gmItemsArg(kernel(st.Items())))
		if r.Chance(1, 3) {
			x.emit("lr.closure", gmItemsArg(subset(st.Items())))
		}
	}
	for i := 0; i < 4; i++ {
		var items []lr1.Item
		for k := r.Intn(4); k >= 0; k-- {
			items = append(items, randItem())
		}
		x.emit("lr.closure", gmItemsArg(items))
	}
	if r.Chance(1, 3) {
		// malformed items: the Go code panics exactly where an index leaves its slice
		it := randItem()
		switch r.Intn(4) {
		case 0:
			it.Prod = len(g.Prods) + r.Intn(2)
		case 1:
			it.Dot = len(g.Prods[it.Prod].Terms) + 1 + r.Intn(2)
		case 2:
			it.Lookahead = len(g.Terminals) + r.Intn(2)
		default:
			it.Dot = len(g.Prods[it.Prod].Terms)
			it.Lookahead = len(g.Terminals) + 3
		}
		x.emit("lr.closure", gmItemsArg([]lr1.Item{randItem(), it}))
		x.emit("lr.goto", gmItemsArg([]lr1.Item{it, randItem()}), strconv.Itoa(gmSymCode(allSyms[r.Intn(len(allSyms))])))
		x.emit("lr.next", gmItemsArg([]lr1.Item{it}))
		x.emit("lr.actions", gmItemsArg([]lr1.Item{it}), "")
	}

	// Goto / Next / LR0Key / createActions on the real states
	for si, st := range states {
		items := st.Items()
		arg := gmItemsArg(items)
		x.emit("lr.next", arg)
		x.emit("lr.lr0key", arg)
		syms := lr1.Next(g, *st)
		if si >= 8 && len(syms) > 3 {
			syms = syms[:3]
		}
		for _, s := range syms {
			x.emit("lr.goto", arg, strconv.Itoa(gmSymCode(s)))
		}
		x.emit("lr.goto", arg, strconv.Itoa(gmSymCode(allSyms[r.Intn(len(allSyms))])))
		// transitions of the real table
		tr := map[int]int{}
		for _, in := range t.Transitions(st).Inputs() {
			if term, ok := in.(*lr1.Terminal); ok {
				tr[term.Index] = t.Transitions(st).Get(in).Index
			}
		}
		real := x.emit("lr.actions", arg, gmTrText(tr))
		// tie of VerifCreateActions to the table the generator built: same cells as t.Actions(state)
		var cells []lr1.VerifTermCell
		for _, vc := range lr1.VerifCells(t) {
			if vc.State != st.Index {
				continue
			}
			for _, term := range g.Terminals {
				if term.Name == vc.Terminal {
					cells = append(cells, lr1.VerifTermCell{Terminal: term.Index, Actions: vc.Actions})
				}
			}
		}
		sort.SliceStable(cells, func(i, j int) bool { return cells[i].Terminal < cells[j].Terminal })
		if got := gmActionsText(cells); got != real {
			c.EmitO("# cells of state "+strconv.Itoa(st.Index)+" in the table built by the construction loop", got,
				"C04: createActions on the isolated state gives "+trunc(real, 200)+", the table has "+trunc(got, 200))
		}
		if r.Chance(1, 4) {
			sub := subset(items)
			x.emit("lr.lr0key", gmItemsArg(sub))
			x.emit("lr.next", gmItemsArg(sub))
			x.emit("lr.actions", gmItemsArg(sub), gmTrText(tr))
		}
		if r.Chance(1, 6) && len(tr) > 0 {
			// drop one transition: TransitionMap.Get panics if an item needs it
			tr2 := map[int]int{}
			drop := r.Intn(len(tr))
			i := 0
			for _, a := range func() []int {
				var ks []int
				for a := range tr {
					ks = append(ks, a)
				}
				sort.Ints(ks)
				return ks
			}() {
				if i != drop {
					tr2[a] = tr[a]
				}
				i++
			}
			x.emit("lr.actions", arg, gmTrText(tr2))
		}
	}
	// LR0Key / Next / createActions on random item lists (with repeated cores, several lookaheads)
	for i := 0; i < 3; i++ {
		var items []lr1.Item
		for k := r.Intn(6); k >= 0; k-- {
			it := randItem()
			items = append(items, it)
			if r.Bool() {
				it.Lookahead = r.Intn(len(g.Terminals))
				items = append(items, it)
			}
		}
		x.emit("lr.lr0key", gmItemsArg(items))
		x.emit("lr.next", gmItemsArg(items))
		tr := map[int]int{}
		for a := range g.Terminals {
			tr[a] = r.Intn(5)
		}
		x.emit("lr.actions", gmItemsArg(items), gmTrText(tr))
	}
}

func init() {
	register("genmodel", "lr1.First/Closure/Goto/Next/LR0Key/createActions vs the Lean generator model; semantic FIRST oracle (C01, C04)", func(c *Ctx) {
		if c.Replay != nil {
			var g *lr1.Grammar
			var hdr string
			memo := map[string]*gmSem{}
			for _, l := range c.Replay {
				if strings.HasPrefix(l, "@let G ") {
					hdr = strings.TrimPrefix(l, "@let G ")
					hd, prods, _ := strings.Cut(hdr, "|")
					var err error
					if g, err = gmDecode(hd, prods); err != nil {
						g = nil
					}
					memo = map[string]*gmSem{}
					c.Emit(l, "let")
					continue
				}
				op, payload, _ := strings.Cut(l, " ")
				gg := g
				payload = strings.TrimSpace(payload)
				if strings.HasPrefix(payload, "$G") {
					payload = strings.TrimSpace(strings.TrimPrefix(payload, "$G"))
					payload = strings.TrimPrefix(payload, "|")
				} else {
					parts := strings.SplitN(payload, "|", 3)
					if len(parts) == 3 {
						if g2, err := gmDecode(parts[0], parts[1]); err == nil {
							gg = g2
							payload = parts[2]
							memo = map[string]*gmSem{}
						} else {
							gg = nil
						}
					} else {
						gg = nil
					}
				}
				if gg == nil {
					c.Emit(l, "bad-op")
					continue
				}
				var sections []string
				for _, s := range strings.Split(payload, "|") {
					sections = append(sections, strings.TrimSpace(s))
				}
				impl, orc := gmEval(gg, memo, op, sections)
				if c.Distinct(l) {
					c.Count(op)
				}
				c.EmitO(l, impl, orc)
			}
			return
		}

		// 1. hand-written grammars: through the real front end when it accepts them
		for _, txt := range gmCurated {
			fr := RunFront(ParseGSpec(txt).Lox())
			if fr.OK && fr.Grammar != nil {
				gmCases(c, fr.Grammar, "curated-front")
			} else {
				c.Count("curated-rejected-by-front-end")
				gmCases(c, gmRaw(txt), "curated-api")
			}
		}
		for _, txt := range gmCuratedRaw {
			gmCases(c, gmRaw(txt), "curated-api")
		}
		// 2. random specifications through the front end, random raw grammars through the API
		for i := 0; i < c.N; i++ {
			if i%4 == 3 {
				gmCases(c, gmRandomRaw(c.Rng), "random-api")
				continue
			}
			opts := GenOpts{MaxTokens: 4, MaxRules: 5, MaxProds: 3, MaxTerms: 4, Sugar: i%3 == 0, Errors: i%5 == 0, Prec: i%7 == 0}
			if c.Tier == "thorough" && i%2 == 0 {
				opts = GenOpts{MaxTokens: 6, MaxRules: 9, MaxProds: 4, MaxTerms: 5, Sugar: i%3 == 0, Errors: i%5 == 0, Prec: i%7 == 0}
			}
			s := GenSpec(c.Rng, opts)
			fr := RunFront(s.Lox())
			if !fr.OK || fr.Grammar == nil {
				c.Count("random-rejected-by-front-end")
				continue
			}
			gmCases(c, fr.Grammar, "random-front")
		}
	})
}
