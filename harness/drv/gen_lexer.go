//go:build verif

package main

import (
	"fmt"
	"sort"
	"strings"
)

// Lexer specification AST of the harness' own generator (independent of internal/ast).

type LK int

const (
	LLit   LK = iota // literal: sequence of code points
	LClass           // class expression
	LDot
	LGroup // ( expr )
	LRef   // macro reference
)

type RRange struct{ B, E int }

// LClassExpr: [items] / ~[items] / left - right
type LClassExpr struct {
	Neg   bool
	Items []RRange
	Sub   *LClassExpr // if non-nil: this - Sub (both are simple classes)
}

type LTerm struct {
	Kind  LK
	Lit   []int
	Class *LClassExpr
	Group *LExpr
	Ref   int    // macro index
	Card  string // "", "?", "*", "+", "*?", "+?"
}

type LExpr struct{ Alts [][]*LTerm }

type LAct struct {
	Kind string // push, pop, emit, discard
	Mode int    // push: index into LSpec.Modes (0 = default)
	Tok  int    // emit: index into LSpec.TokenNames
}

type LRule struct {
	Frag bool
	Name string // token rules
	Expr *LExpr
	Acts []LAct
	Tok  int // token rules: index into TokenNames
}

type LMode struct {
	Name  string
	Rules []*LRule
}

type LSpec struct {
	Modes      []*LMode // Modes[0] = default mode
	Macros     []*LExpr
	TokenNames []string // in declaration (traversal) order
	// layout: default-mode rules are written first, interleaved with mode blocks at these positions
	BlockAt []int // for mode k>=1: number of default rules written before its block
}

// ---- set semantics of classes (independent of rang3) ----

func normRanges(rs []RRange) []RRange {
	var v []RRange
	for _, r := range rs {
		if r.B <= r.E {
			v = append(v, r)
		}
	}
	sort.Slice(v, func(i, j int) bool { return v[i].B < v[j].B || (v[i].B == v[j].B && v[i].E < v[j].E) })
	var out []RRange
	for _, r := range v {
		if n := len(out); n > 0 && r.B <= out[n-1].E+1 {
			if r.E > out[n-1].E {
				out[n-1].E = r.E
			}
			continue
		}
		out = append(out, r)
	}
	return out
}

func complement(rs []RRange) []RRange {
	rs = normRanges(rs)
	var out []RRange
	next := 0
	for _, r := range rs {
		if r.B > next {
			out = append(out, RRange{next, r.B - 1})
		}
		next = r.E + 1
	}
	if next <= 0x10FFFF {
		out = append(out, RRange{next, 0x10FFFF})
	}
	return out
}

func intersect(a, b []RRange) []RRange {
	var out []RRange
	for _, x := range a {
		for _, y := range b {
			lo, hi := x.B, x.E
			if y.B > lo {
				lo = y.B
			}
			if y.E < hi {
				hi = y.E
			}
			if lo <= hi {
				out = append(out, RRange{lo, hi})
			}
		}
	}
	return normRanges(out)
}

// Set returns the code points a class expression denotes, as sorted disjoint non-adjacent ranges.
func (c *LClassExpr) Set() []RRange {
	s := normRanges(c.Items)
	if c.Neg {
		s = complement(s)
	}
	if c.Sub != nil {
		// Go's Subtract complements inside 0..MaxRune implicitly: A \ B = A ∩ ~B
		s = intersect(s, complement(c.Sub.Set()))
	}
	return s
}

// ---- rendering ----

func escChar(c int, inClass bool, r *Rng) string {
	plain := (c >= 'a' && c <= 'z') || (c >= 'A' && c <= 'Z') || (c >= '0' && c <= '9') || c == '_' || c == '+' || c == '*' || c == '/' || c == '<' || c == '>' || c == '=' || c == '!' || c == ';' || c == ':' || c == ','
	if plain && (r == nil || r.Chance(3, 4)) {
		return string(rune(c))
	}
	switch c {
	case '\n':
		return `\n`
	case '\r':
		return `\r`
	case '\t':
		return `\t`
	case '\\':
		return `\\`
	case '-':
		if inClass {
			return `\-`
		}
	case '\'':
		if !inClass {
			return `\'`
		}
	}
	if c >= 0x20 && c < 0x7F && c != '\'' && c != '\\' && c != '-' && c != ']' && c != '[' && (r == nil || r.Bool()) {
		if !inClass || (c != ' ' && c != '~') {
			return string(rune(c))
		}
	}
	if c >= 0xD800 && c <= 0xDFFF {
		panic("surrogate in spec")
	}
	if c <= 0xFFFF {
		return fmt.Sprintf(`\u%04X`, c)
	}
	return fmt.Sprintf(`\U%08X`, c)
}

func (c *LClassExpr) text(r *Rng) string {
	var sb strings.Builder
	if c.Neg {
		sb.WriteString("~")
	}
	sb.WriteString("[")
	for _, it := range c.Items {
		if it.B == it.E {
			sb.WriteString(escChar(it.B, true, r))
		} else {
			sb.WriteString(escChar(it.B, true, r) + "-" + escChar(it.E, true, r))
		}
	}
	sb.WriteString("]")
	if c.Sub != nil {
		sb.WriteString("-" + c.Sub.text(r))
	}
	return sb.String()
}

func (s *LSpec) termText(t *LTerm, r *Rng) string {
	var b string
	switch t.Kind {
	case LLit:
		var sb strings.Builder
		sb.WriteString("'")
		for _, c := range t.Lit {
			sb.WriteString(escChar(c, false, r))
		}
		sb.WriteString("'")
		b = sb.String()
	case LClass:
		b = t.Class.text(r)
	case LDot:
		b = "."
	case LGroup:
		b = "(" + s.exprText(t.Group, r) + ")"
	case LRef:
		b = fmt.Sprintf("MAC%d", t.Ref)
	}
	return b + t.Card
}

func (s *LSpec) exprText(e *LExpr, r *Rng) string {
	var alts []string
	for _, a := range e.Alts {
		var ts []string
		for _, t := range a {
			ts = append(ts, s.termText(t, r))
		}
		alts = append(alts, strings.Join(ts, " "))
	}
	return strings.Join(alts, " | ")
}

func (s *LSpec) ruleText(ru *LRule, r *Rng) string {
	var sb strings.Builder
	if ru.Frag {
		sb.WriteString("@frag ")
	} else {
		sb.WriteString(ru.Name + " = ")
	}
	sb.WriteString(s.exprText(ru.Expr, r))
	for _, a := range ru.Acts {
		switch a.Kind {
		case "push":
			if a.Mode == 0 {
				sb.WriteString(" @push_mode()")
			} else {
				sb.WriteString(" @push_mode(" + s.Modes[a.Mode].Name + ")")
			}
		case "pop":
			sb.WriteString(" @pop_mode")
		case "emit":
			sb.WriteString(" @emit(" + s.TokenNames[a.Tok] + ")")
		case "discard":
			sb.WriteString(" @discard")
		}
	}
	return sb.String()
}

// Lox renders the specification. Token numbering follows this text: tokens are numbered in the
// order they appear (mode blocks in place).
func (s *LSpec) Lox(r *Rng) string {
	var sb strings.Builder
	sb.WriteString("@lexer\n")
	for i, m := range s.Macros {
		fmt.Fprintf(&sb, "@macro MAC%d = %s\n", i, s.exprText(m, r))
	}
	def := s.Modes[0]
	for i := 0; i <= len(def.Rules); i++ {
		for k := 1; k < len(s.Modes); k++ {
			if s.BlockAt[k] == i {
				fmt.Fprintf(&sb, "@mode %s {\n", s.Modes[k].Name)
				for _, ru := range s.Modes[k].Rules {
					sb.WriteString("  " + s.ruleText(ru, r) + "\n")
				}
				sb.WriteString("}\n")
			}
		}
		if i < len(def.Rules) {
			sb.WriteString(s.ruleText(def.Rules[i], r) + "\n")
		}
	}
	return sb.String()
}

// modeIndex maps a mode (index into s.Modes) to its index in _lexerModes: names sorted, the
// default mode `$default` first.
func (s *LSpec) modeIndex() []int {
	type nm struct {
		name string
		i    int
	}
	var v []nm
	for i, m := range s.Modes {
		n := m.Name
		if i == 0 {
			n = "$default"
		}
		v = append(v, nm{n, i})
	}
	sort.Slice(v, func(a, b int) bool { return v[a].name < v[b].name })
	idx := make([]int, len(s.Modes))
	for pos, x := range v {
		idx[x.i] = pos
	}
	return idx
}

// expectedPairs is the documented meaning of a rule's action list as (type,param) pairs:
// mode actions in written order, then the one terminal action.
func (s *LSpec) expectedPairs(ru *LRule, tokNum func(int) int) []int {
	mi := s.modeIndex()
	var out, term []int
	for _, a := range ru.Acts {
		switch a.Kind {
		case "push":
			out = append(out, 1, mi[a.Mode])
		case "pop":
			out = append(out, 2, 0)
		case "emit":
			term = append(term, 3, tokNum(a.Tok))
		case "discard":
			term = append(term, 4, 0)
		}
	}
	if !ru.Frag {
		term = []int{3, tokNum(ru.Tok)}
	} else if len(term) == 0 {
		term = []int{5, 0}
	}
	return append(out, term...)
}

// ---- prefix code of a regex for the Lean validator ----

func (s *LSpec) exprCode(e *LExpr, ng bool) []int {
	var alt func(i int) []int
	seqCode := func(ts []*LTerm) []int {
		var rec func(i int) []int
		rec = func(i int) []int {
			if i == len(ts) {
				return []int{0}
			}
			t := s.termCode(ts[i], ng)
			if i == len(ts)-1 {
				return t
			}
			return append(append([]int{2}, t...), rec(i+1)...)
		}
		return rec(0)
	}
	alt = func(i int) []int {
		c := seqCode(e.Alts[i])
		if i == len(e.Alts)-1 {
			return c
		}
		return append(append([]int{3}, c...), alt(i+1)...)
	}
	return alt(0)
}

func (s *LSpec) termCode(t *LTerm, ng bool) []int {
	var b []int
	switch t.Kind {
	case LLit:
		var rec func(i int) []int
		rec = func(i int) []int {
			c := []int{1, 1, t.Lit[i], t.Lit[i]}
			if i == len(t.Lit)-1 {
				return c
			}
			return append(append([]int{2}, c...), rec(i+1)...)
		}
		b = rec(0)
	case LClass:
		set := t.Class.Set()
		b = []int{1, len(set)}
		for _, r := range set {
			b = append(b, r.B, r.E)
		}
	case LDot:
		b = []int{1, 1, 0, 0x10FFFF}
	case LGroup:
		b = s.exprCode(t.Group, ng)
	case LRef:
		b = s.exprCode(s.Macros[t.Ref], ng)
	}
	cp := func() []int { return append([]int(nil), b...) }
	switch t.Card {
	case "?":
		return append(append([]int{3}, b...), 0)
	case "*":
		return append([]int{4}, b...)
	case "+":
		return append(append([]int{2}, cp()...), append([]int{4}, b...)...)
	case "*?":
		return append([]int{5}, b...)
	case "+?":
		return append(append([]int{2}, cp()...), append([]int{5}, b...)...)
	}
	return b
}

// ---- random generation ----

var lexAlphabet = []int{'a', 'b', 'c', 'x', 'y', 'z', '0', '1', '9', '_', '+', '-', '*', '/', '<', '>', '=', '\n', '\t', ' ', '\\', '\'',
	0x7F, 0x80, 0xE9, 0x7FF, 0x800, 0xD7FF, 0xE000, 0xFFFD, 0xFFFF, 0x10000, 0x10FFFF, 0}

func genCp(r *Rng, small bool) int {
	if small || r.Chance(3, 4) {
		return lexAlphabet[r.Intn(12)] // includes '-' (written \- inside a class, also between two other items)
	}
	return Pick(r, lexAlphabet)
}

func genClass(r *Rng, small bool) *LClassExpr {
	mk := func() *LClassExpr {
		c := &LClassExpr{Neg: r.Chance(1, 6)}
		n := 1 + r.Intn(3)
		for i := 0; i < n; i++ {
			b := genCp(r, small)
			if r.Chance(1, 2) {
				e := genCp(r, small)
				if e < b {
					b, e = e, b
				}
				if !small && r.Chance(1, 3) {
					e = b + r.Intn(40)
					if e > 0x10FFFF {
						e = 0x10FFFF
					}
					if b < 0xD800 && e >= 0xD800 {
						e = 0xD7FF
					}
					if b >= 0xD800 && b <= 0xDFFF {
						b, e = 0xE000, 0xE000
					}
				}
				c.Items = append(c.Items, RRange{b, e})
			} else {
				c.Items = append(c.Items, RRange{b, b})
			}
		}
		// range endpoints must not be surrogates (rejected by the front end since the escape fix)
		for i := range c.Items {
			fix := func(x int) int {
				if x >= 0xD800 && x <= 0xDFFF {
					return 0xE000
				}
				return x
			}
			c.Items[i].B, c.Items[i].E = fix(c.Items[i].B), fix(c.Items[i].E)
			if c.Items[i].B > c.Items[i].E {
				c.Items[i].E = c.Items[i].B
			}
		}
		return c
	}
	for tries := 0; ; tries++ {
		c := mk()
		if r.Chance(1, 6) {
			c.Sub = mk()
			c.Sub.Sub = nil
		}
		if len(c.Set()) > 0 || tries > 20 {
			if len(c.Set()) == 0 {
				return &LClassExpr{Items: []RRange{{'a', 'a'}}}
			}
			return c
		}
	}
}

type LGenOpts struct {
	MaxModes, MaxRules, Depth int
	NonGreedy                 bool
	Small                     bool // small alphabet: many overlaps between rules
}

func genLTerm(r *Rng, s *LSpec, depth int, o LGenOpts, macrosBelow int) *LTerm {
	t := &LTerm{}
	x := r.Intn(10)
	switch {
	case x < 4:
		t.Kind = LLit
		n := 1 + r.Intn(3)
		for i := 0; i < n; i++ {
			t.Lit = append(t.Lit, genCp(r, o.Small))
		}
	case x < 7:
		t.Kind = LClass
		t.Class = genClass(r, o.Small)
	case x == 7 && depth > 0:
		t.Kind = LGroup
		t.Group = genLExpr(r, s, depth-1, o, macrosBelow)
	case x == 8 && macrosBelow > 0:
		t.Kind = LRef
		t.Ref = r.Intn(macrosBelow)
	case x == 9 && r.Chance(1, 3):
		t.Kind = LDot
	default:
		t.Kind = LLit
		t.Lit = []int{genCp(r, o.Small)}
	}
	if r.Chance(1, 3) {
		t.Card = Pick(r, []string{"?", "*", "+"})
	}
	return t
}

func genLExpr(r *Rng, s *LSpec, depth int, o LGenOpts, macrosBelow int) *LExpr {
	e := &LExpr{}
	na := 1
	if r.Chance(1, 4) {
		na = 2 + r.Intn(2)
	}
	for i := 0; i < na; i++ {
		nt := 1 + r.Intn(3)
		var seq []*LTerm
		for k := 0; k < nt; k++ {
			seq = append(seq, genLTerm(r, s, depth, o, macrosBelow))
		}
		e.Alts = append(e.Alts, seq)
	}
	return e
}

// nullable reports whether the expression matches the empty string.
func (s *LSpec) nullable(e *LExpr) bool {
	for _, a := range e.Alts {
		all := true
		for _, t := range a {
			tn := false
			switch t.Kind {
			case LGroup:
				tn = s.nullable(t.Group)
			case LRef:
				tn = s.nullable(s.Macros[t.Ref])
			}
			if t.Card == "?" || t.Card == "*" || t.Card == "*?" {
				tn = true
			}
			if !tn {
				all = false
				break
			}
		}
		if all {
			return true
		}
	}
	return false
}

// ngRule builds a rule of the C08 shape: literal prefix, non-greedy repetition of a
// one-code-point expression, non-empty literal terminator (possibly self-overlapping, possibly
// made of characters the body also matches).
func ngRule(r *Rng, lead int) *LExpr {
	terms := [][]int{{'*', '/'}, {'-', '-', '>'}, {'a', 'a'}, {'a', 'b', 'a'}, {'z'}, {'"'}, {']', ']'}, {'x', 'y', 'x', 'y'}}
	term := Pick(r, terms)
	prefix := []int{lead}
	if r.Bool() {
		prefix = append(prefix, Pick(r, []int{'*', '-', '!', '<'}))
	}
	var body *LTerm
	switch r.Intn(4) {
	case 0:
		body = &LTerm{Kind: LDot}
	case 1:
		body = &LTerm{Kind: LClass, Class: &LClassExpr{Items: []RRange{{'a', 'z'}, {'*', '/'}, {' ', ' '}, {'"', '"'}, {']', ']'}, {'>', '>'}}}}
	case 2:
		body = &LTerm{Kind: LClass, Class: &LClassExpr{Neg: true, Items: []RRange{{'\n', '\n'}}}}
	default:
		body = &LTerm{Kind: LGroup, Group: &LExpr{Alts: [][]*LTerm{
			{{Kind: LClass, Class: &LClassExpr{Items: []RRange{{'a', 'y'}}}}},
			{{Kind: LClass, Class: &LClassExpr{Items: []RRange{{'*', '>'}, {'z', 'z'}, {']', ']'}, {'"', '"'}}}}}}}}
	}
	body.Card = Pick(r, []string{"*?", "+?"})
	return &LExpr{Alts: [][]*LTerm{{{Kind: LLit, Lit: prefix}, body, {Kind: LLit, Lit: term}}}}
}

// GenLSpecNG: a mode with several non-greedy rules (distinct leading characters) and greedy
// neighbours that do not share a prefix with them; with `overlap` a greedy neighbour shares the
// leading character (this reproduces known finding K2).
func GenLSpecNG(r *Rng, overlap bool) *LSpec {
	s := &LSpec{Modes: []*LMode{{Name: ""}}, BlockAt: []int{0}}
	leads := []int{'/', '<', '[', '"', '#', '{'}
	n := 1 + r.Intn(3)
	for i := 0; i < n; i++ {
		ru := &LRule{Expr: ngRule(r, leads[i])}
		// the non-greedy rule as a token, as an accumulating @frag (no terminal action), as @frag @discard
		switch r.Intn(6) {
		case 0, 1:
			ru.Frag = true
		case 2:
			ru.Frag = true
			ru.Acts = []LAct{{Kind: "discard"}}
		}
		s.Modes[0].Rules = append(s.Modes[0].Rules, ru)
	}
	// greedy neighbours
	s.Modes[0].Rules = append(s.Modes[0].Rules, &LRule{Expr: &LExpr{Alts: [][]*LTerm{{{Kind: LClass, Class: &LClassExpr{Items: []RRange{{'a', 'z'}}}, Card: "+"}}}}})
	s.Modes[0].Rules = append(s.Modes[0].Rules, &LRule{Frag: true, Acts: []LAct{{Kind: "discard"}}, Expr: &LExpr{Alts: [][]*LTerm{{{Kind: LClass, Class: &LClassExpr{Items: []RRange{{' ', ' '}, {'\n', '\n'}}}, Card: "+"}}}}})
	if r.Bool() {
		// digits: greedy, or a rule that is nothing but a `+?` term (documented: exactly one digit per token)
		card := "+"
		if r.Intn(3) == 0 {
			card = "+?"
		}
		s.Modes[0].Rules = append(s.Modes[0].Rules, &LRule{Expr: &LExpr{Alts: [][]*LTerm{{{Kind: LClass, Class: &LClassExpr{Items: []RRange{{'0', '9'}}}, Card: card}}}}})
	}
	if !overlap && r.Bool() {
		// a greedy LITERAL that is exactly a first complete match of a non-greedy rule (EMPTY_STR = '""' next to
		// STR = '"' .*? '"'): both rules accept at the same position, the earlier declared one wins, and the
		// non-greedy rule must still stop there. No rule can continue past that point, so this is not K2.
		ng := s.Modes[0].Rules[r.Intn(n)].Expr.Alts[0]
		lit := append([]int{}, ng[0].Lit...)
		if ng[1].Card == "+?" || r.Intn(3) == 0 {
			lit = append(lit, 'q')
		}
		lit = append(lit, ng[2].Lit...)
		s.Modes[0].Rules = append(s.Modes[0].Rules, &LRule{Expr: &LExpr{Alts: [][]*LTerm{{{Kind: LLit, Lit: lit}}}}})
	}
	if overlap {
		// a greedy rule that starts like the first non-greedy rule and continues with its body characters
		s.Modes[0].Rules = append(s.Modes[0].Rules, &LRule{Expr: &LExpr{Alts: [][]*LTerm{{{Kind: LLit, Lit: []int{leads[0]}}, {Kind: LClass, Class: &LClassExpr{Items: []RRange{{'a', 'z'}, {'*', '/'}}}, Card: "+"}}}}})
	}
	// shuffle rule order (priority)
	rs := s.Modes[0].Rules
	for i := len(rs) - 1; i > 0; i-- {
		j := r.Intn(i + 1)
		rs[i], rs[j] = rs[j], rs[i]
	}
	for _, ru := range rs {
		if !ru.Frag {
			ru.Tok = len(s.TokenNames)
			ru.Name = fmt.Sprintf("T%d", len(s.TokenNames))
			s.TokenNames = append(s.TokenNames, ru.Name)
		}
	}
	return s
}

// GenLSpec draws a random lexer specification whose rules never match the empty string.
func GenLSpec(r *Rng, o LGenOpts) *LSpec {
	s := &LSpec{}
	nm := 1 + r.Intn(o.MaxModes)
	s.Modes = append(s.Modes, &LMode{Name: ""})
	for k := 1; k < nm; k++ {
		// names that differ only in case (M1/m1), that sort differently with and without case
		// (Z3 < m2 bytewise), and names with '_' (sorts between the cases)
		name := fmt.Sprintf("%c%d", Pick(r, []rune{'M', 'm', 'Z'}), k)
		if k > 1 && r.Intn(3) == 0 {
			prev := s.Modes[1+r.Intn(k-1)].Name
			alt := strings.ToLower(prev)
			if alt == prev {
				alt = strings.ToUpper(prev)
			}
			if r.Intn(3) == 0 {
				alt = prev + "_x"
			}
			taken := false
			for _, m := range s.Modes {
				taken = taken || m.Name == alt
			}
			if !taken {
				name = alt
			}
		}
		s.Modes = append(s.Modes, &LMode{Name: name})
	}
	nmac := r.Intn(3)
	for i := 0; i < nmac; i++ {
		for {
			e := genLExpr(r, s, 1, o, i)
			s.Macros = append(s.Macros, e)
			if !s.nullable(e) {
				break
			}
			s.Macros = s.Macros[:i]
		}
	}
	type pending struct {
		mode int
		rule *LRule
	}
	// decide the textual layout first: token numbering follows the text
	for k := range s.Modes {
		n := 1 + r.Intn(o.MaxRules)
		for j := 0; j < n; j++ {
			ru := &LRule{Frag: r.Chance(1, 3)}
			for {
				ru.Expr = genLExpr(r, s, o.Depth, o, len(s.Macros))
				if !s.nullable(ru.Expr) {
					break
				}
			}
			s.Modes[k].Rules = append(s.Modes[k].Rules, ru)
		}
	}
	if r.Chance(1, 6) {
		// a mode whose every rule starts with the same starred prefix (start state with a self loop)
		k := r.Intn(len(s.Modes))
		pre := &LTerm{Kind: LClass, Class: &LClassExpr{Neg: true, Items: []RRange{{'\n', '\n'}, {';', ';'}}}, Card: "*"}
		if r.Bool() {
			pre = &LTerm{Kind: LLit, Lit: []int{'a'}, Card: "*"}
		}
		keep := 1 + r.Intn(2)
		if keep < len(s.Modes[k].Rules) {
			s.Modes[k].Rules = s.Modes[k].Rules[:keep]
		}
		for i, ru := range s.Modes[k].Rules {
			end := []int{'\n'}
			if i == 1 {
				end = []int{';'}
			}
			ru.Expr = &LExpr{Alts: [][]*LTerm{{pre, {Kind: LLit, Lit: end}}}}
		}
	}
	s.BlockAt = make([]int, len(s.Modes))
	for k := 1; k < len(s.Modes); k++ {
		s.BlockAt[k] = r.Intn(len(s.Modes[0].Rules) + 1)
	}
	// number tokens in textual order
	def := s.Modes[0]
	name := func(ru *LRule) {
		if !ru.Frag {
			ru.Tok = len(s.TokenNames)
			ru.Name = fmt.Sprintf("T%d", len(s.TokenNames))
			s.TokenNames = append(s.TokenNames, ru.Name)
		}
	}
	for i := 0; i <= len(def.Rules); i++ {
		for k := 1; k < len(s.Modes); k++ {
			if s.BlockAt[k] == i {
				for _, ru := range s.Modes[k].Rules {
					name(ru)
				}
			}
		}
		if i < len(def.Rules) {
			name(def.Rules[i])
		}
	}
	if len(s.TokenNames) == 0 {
		ru := def.Rules[0]
		ru.Frag = false
		s.TokenNames = nil
		for i := 0; i <= len(def.Rules); i++ {
			for k := 1; k < len(s.Modes); k++ {
				if s.BlockAt[k] == i {
					for _, q := range s.Modes[k].Rules {
						name(q)
					}
				}
			}
			if i < len(def.Rules) {
				name(def.Rules[i])
			}
		}
	}
	// actions
	for k, m := range s.Modes {
		for _, ru := range m.Rules {
			var acts []LAct
			if len(s.Modes) > 1 && r.Chance(1, 3) {
				acts = append(acts, LAct{Kind: "push", Mode: r.Intn(len(s.Modes))})
			}
			if k > 0 && r.Chance(1, 3) {
				acts = append(acts, LAct{Kind: "pop"})
			}
			if k > 0 && len(s.Modes) > 1 && r.Chance(1, 3) {
				// replace the current mode / nested combinations: several mode actions on one rule
				acts = nil
				na := 2 + r.Intn(2)
				depth := 1 // at least one mode is on the stack inside a non-default mode (usually)
				for x := 0; x < na; x++ {
					if depth > 0 && r.Bool() {
						acts = append(acts, LAct{Kind: "pop"})
						depth--
					} else {
						acts = append(acts, LAct{Kind: "push", Mode: r.Intn(len(s.Modes))})
						depth++
					}
				}
			}
			if ru.Frag {
				switch r.Intn(4) {
				case 0:
					acts = append(acts, LAct{Kind: "discard"})
				case 1:
					acts = append(acts, LAct{Kind: "emit", Tok: r.Intn(len(s.TokenNames))})
				case 2:
					acts = append(acts, LAct{Kind: "discard"})
				}
			}
			// any written order
			for i := len(acts) - 1; i > 0; i-- {
				j := r.Intn(i + 1)
				acts[i], acts[j] = acts[j], acts[i]
			}
			ru.Acts = acts
		}
	}
	if len(s.Modes) > 2 && r.Chance(1, 3) {
		// a DECLARED mode that no rule ever pushes, sorting before a mode that is pushed (mode numbers count the
		// declared modes, not the used ones): the mode with the smallest name becomes dead, the one with the
		// largest name is pushed by a rule of the default mode
		dead, last := 1, 1
		for k := 2; k < len(s.Modes); k++ {
			if s.Modes[k].Name < s.Modes[dead].Name {
				dead = k
			}
			if s.Modes[k].Name > s.Modes[last].Name {
				last = k
			}
		}
		if dead != last {
			pushed := false
			for k, m := range s.Modes {
				for _, ru := range m.Rules {
					for i := range ru.Acts {
						if ru.Acts[i].Kind == "push" && ru.Acts[i].Mode == dead {
							ru.Acts[i].Mode = last
						}
						if k == 0 && ru.Acts[i].Kind == "push" && ru.Acts[i].Mode == last {
							pushed = true
						}
					}
				}
			}
			if !pushed {
				ru := s.Modes[0].Rules[0]
				ru.Acts = append([]LAct{{Kind: "push", Mode: last}}, ru.Acts...)
			}
		}
	}
	return s
}
