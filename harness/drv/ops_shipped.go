//go:build verif

package main

import (
	"bytes"
	"fmt"
	"os"
	"path/filepath"
	"sort"
	"strings"

	"github.com/dcaiafa/lox/internal/ast"
	"github.com/dcaiafa/lox/internal/lexergen/rang3"
)

// Family shipped (C14, also feeds C01/C02/C10): the four directories with checked-in generated
// code (internal/parser, examples/calc, examples/jsonc, examples/bolox).
//   * regenerate each in a scratch copy with the generator built from the working tree and
//     compare base.gen.go / lexer.gen.go / parser.gen.go byte for byte (oracle C14);
//   * validate the CHECKED-IN tables against the grammar / lexer rules in the same directory:
//     `lr.validate` (or `lr.validate_safe` when the grammar uses precedence qualifiers) and
//     `lex.bisimng` per mode, rules taken from the real front end's AST.

var shippedDirs = []string{"internal/parser", "examples/calc", "examples/jsonc", "examples/bolox"}

func copyDir(src, dst string) error {
	ents, err := os.ReadDir(src)
	if err != nil {
		return err
	}
	os.MkdirAll(dst, 0o755)
	for _, e := range ents {
		if e.IsDir() {
			continue
		}
		b, err := os.ReadFile(filepath.Join(src, e.Name()))
		if err != nil {
			return err
		}
		if err := os.WriteFile(filepath.Join(dst, e.Name()), b, 0o644); err != nil {
			return err
		}
	}
	return nil
}

// astExprCode converts a real front-end lexer expression into the validator's prefix code.
func astExprCode(ctx *ast.Context, e *ast.LexerExpr) []int {
	var alt func(i int) []int
	seq := func(f *ast.LexerFactor) []int {
		var rec func(i int) []int
		rec = func(i int) []int {
			t := astTermCode(ctx, f.Terms[i])
			if i == len(f.Terms)-1 {
				return t
			}
			return append(append([]int{2}, t...), rec(i+1)...)
		}
		return rec(0)
	}
	alt = func(i int) []int {
		c := seq(e.Factors[i])
		if i == len(e.Factors)-1 {
			return c
		}
		return append(append([]int{3}, c...), alt(i+1)...)
	}
	return alt(0)
}

func astTermCode(ctx *ast.Context, tc *ast.LexerTermCard) []int {
	var b []int
	switch t := tc.Term.(type) {
	case *ast.LexerTermLiteral:
		rs := []rune(t.Literal)
		var rec func(i int) []int
		rec = func(i int) []int {
			c := []int{1, 1, int(rs[i]), int(rs[i])}
			if i == len(rs)-1 {
				return c
			}
			return append(append([]int{2}, c...), rec(i+1)...)
		}
		if len(rs) == 0 {
			b = []int{0}
		} else {
			b = rec(0)
		}
	case *ast.LexerTermCharClass:
		var ranges []rang3.Range = t.Expr.GetRanges()
		b = []int{1, len(ranges)}
		for _, r := range ranges {
			b = append(b, int(r.B), int(r.E))
		}
	case *ast.LexerTermRef:
		m := ctx.Lookup(t.Ref).(*ast.MacroRule)
		b = astExprCode(ctx, m.Expr)
	case *ast.LexerExpr:
		b = astExprCode(ctx, t)
	default:
		panic(fmt.Sprintf("unknown lexer term %T", tc.Term))
	}
	cp := func() []int { return append([]int(nil), b...) }
	switch tc.Card {
	case ast.ZeroOrOne:
		return append(append([]int{3}, b...), 0)
	case ast.ZeroOrMore:
		return append([]int{4}, b...)
	case ast.OneOrMore:
		return append(append([]int{2}, cp()...), append([]int{4}, b...)...)
	case ast.ZeroOrMoreNG:
		return append([]int{5}, b...)
	case ast.OneOrMoreNG:
		return append(append([]int{2}, cp()...), append([]int{5}, b...)...)
	}
	return b
}

// astRulePairs: the documented meaning of a rule's written actions (mode actions in written
// order, then the terminal action), with mode indices by sorted name.
func astRulePairs(modeIdx map[string]int, st ast.Statement) ([]int, *ast.LexerExpr, bool) {
	var acts []ast.Action
	var expr *ast.LexerExpr
	frag := false
	term := []int{}
	switch r := st.(type) {
	case *ast.TokenRule:
		acts, expr = r.Actions, r.Expr
		term = []int{3, r.Terminal.Index}
	case *ast.FragRule:
		acts, expr, frag = r.Actions, r.Expr, true
	default:
		return nil, nil, false
	}
	var out []int
	for _, a := range acts {
		switch a := a.(type) {
		case *ast.ActionPushMode:
			out = append(out, 1, modeIdx[a.Mode])
		case *ast.ActionPopMode:
			out = append(out, 2, 0)
		case *ast.ActionEmit:
			term = []int{3, a.Terminal.Index}
		case *ast.ActionDiscard:
			term = []int{4, 0}
		}
	}
	if frag && len(term) == 0 {
		term = []int{5, 0}
	}
	return append(out, term...), expr, true
}

func init() {
	register("shipped", "checked-in generated code: byte fixpoint + validation of the checked-in tables (C14)", func(c *Ctx) {
		root, err := os.MkdirTemp("", "verif-shipped-")
		if err != nil {
			panic(err)
		}
		defer os.RemoveAll(root)
		for _, d := range shippedDirs {
			src := filepath.Join(repoRoot(), d)
			dst := filepath.Join(root, strings.ReplaceAll(d, "/", "_"))
			if err := copyDir(src, dst); err != nil {
				c.EmitO("# shipped "+d, "# copy failed", "C14: cannot read "+d+": "+err.Error())
				continue
			}
			// a scratch module so that go/packages resolves imports exactly as in the repository
			// is not needed: the copy keeps the package name; imports resolve through /repo's module
			// only when the copy lives inside it, so generate IN PLACE on a copy placed under /repo? No:
			// run the generator on the copy with GOFLAGS=-mod=mod and a go.mod that replaces the module.
			gomod := "module github.com/dcaiafa/lox/verifcopy\n\ngo 1.23\n\nrequire github.com/dcaiafa/lox v0.0.0\nrequire github.com/dcaiafa/loxlex v0.5.0\nreplace github.com/dcaiafa/lox => " + repoRoot() + "\n"
			os.WriteFile(filepath.Join(dst, "go.mod"), []byte(gomod), 0o644)
			if sum, err := os.ReadFile(filepath.Join(repoRoot(), "go.sum")); err == nil {
				os.WriteFile(filepath.Join(dst, "go.sum"), sum, 0o644)
			}
			ok, diag, _, pmsg := runGenerate(dst, false)
			or := ""
			if !ok {
				or = "C14: the current generator fails on " + d + ": " + strings.ReplaceAll(strings.TrimSpace(diag+pmsg), "\n", " ⏎ ")
			} else {
				for _, f := range []string{"base.gen.go", "lexer.gen.go", "parser.gen.go"} {
					a, _ := os.ReadFile(filepath.Join(src, f))
					b, _ := os.ReadFile(filepath.Join(dst, f))
					if !bytes.Equal(a, b) {
						la, lb := strings.Split(string(a), "\n"), strings.Split(string(b), "\n")
						k := 0
						for k < len(la) && k < len(lb) && la[k] == lb[k] {
							k++
						}
						x, y := "", ""
						if k < len(la) {
							x = la[k]
						}
						if k < len(lb) {
							y = lb[k]
						}
						or = fmt.Sprintf("C14: %s/%s is not what the current generator produces (first difference at line %d: checked-in `%s` regenerated `%s`)", d, f, k+1, strings.TrimSpace(x), strings.TrimSpace(y))
						break
					}
				}
			}
			note := "# shipped fixpoint " + d
			c.EmitO(note, note, or)
			c.Count("directories")

			// ---- semantic validation of the CHECKED-IN tables ----
			arrs, err := readIntArrays(filepath.Join(src, "parser.gen.go"))
			if err != nil {
				c.EmitO("# shipped tables "+d, "# unreadable", "C14: cannot read checked-in parser.gen.go: "+err.Error())
				continue
			}
			var loxText strings.Builder
			loxFiles, _ := filepath.Glob(filepath.Join(src, "*.lox"))
			sort.Strings(loxFiles)
			if len(loxFiles) != 1 {
				continue
			}
			data, _ := os.ReadFile(loxFiles[0])
			loxText.Write(data)
			fr := RunFront(loxText.String())
			if !fr.OK {
				c.EmitO("# shipped front "+d, "# rejected", "C14: the current front end rejects "+loxFiles[0]+": "+fr.Diag)
				continue
			}
			g := fr.Grammar
			usesPrec := false
			for _, p := range g.Prods {
				if p.Precedence > 0 {
					usesPrec = true
				}
			}
			op := "lr.validate"
			if usesPrec {
				op = "lr.validate_safe"
			}
			tables := joinI64(arrs["_rules"]) + " | " + joinI64(arrs["_termCounts"]) + " | " + joinI64(arrs["_actions"]) + " | " + joinI64(arrs["_goto"])
			c.Emit(fmt.Sprintf("%s %d %d | %s | %s | %s", op, len(g.Terminals), len(g.Rules), grammarLine(g), tables, certLine(fr.Table)), "ok")
			c.Count("parser-tables-validated")

			larrs, err := readIntArrays(filepath.Join(src, "lexer.gen.go"))
			if err != nil {
				continue
			}
			// modes: names sorted, $default first
			modeIdx := map[string]int{}
			var mnames []string
			for name := range fr.Ctx.LexerModes {
				mnames = append(mnames, name)
			}
			sort.Strings(mnames)
			for i, n := range mnames {
				modeIdx[n] = i
			}
			// rules per mode in source order
			perMode := map[string][]string{}
			var walk func(mode string, sts []ast.Statement)
			walk = func(mode string, sts []ast.Statement) {
				for _, st := range sts {
					if m, ok := st.(*ast.Mode); ok {
						walk(m.Name, m.Rules)
						continue
					}
					pairs, expr, ok := astRulePairs(modeIdx, st)
					if !ok {
						continue
					}
					xs := append([]int{len(pairs)}, pairs...)
					xs = append(xs, astExprCode(fr.Ctx, expr)...)
					perMode[mode] = append(perMode[mode], joinInts(xs))
				}
			}
			for _, u := range fr.Units {
				walk(ast.DefaultModeName, u.Statements)
			}
			for _, n := range mnames {
				tbl, ok := larrs[fmt.Sprintf("_lexerMode%d", modeIdx[n])]
				if !ok {
					c.EmitO("# shipped lexer "+d+" "+n, "# missing", "C14: checked-in lexer.gen.go has no table for mode "+n)
					continue
				}
				c.Emit("lex.bisimng "+strings.Join(perMode[n], " ; ")+" | "+joinI64(tbl), "ok")
				c.Count("mode-tables-validated")
			}
		}
	})
}
