//go:build verif

package main

import (
	"fmt"
	"strconv"
	"strings"
	"sync"

	"github.com/dcaiafa/lox/internal/parsergen/lr1"
)

// Family desugar: the AST passes of internal/ast (CreateNames, Check, Normalize, GenerateGrammar:
// ParserTerm.normalize, ParserRule/ParserProd.RunPass, Spec.RunPass) against the Lean model
// Lox.LR.desugar (lean/Lox/LR/Desugar.lean), properties C01 (sugar_lang) / C03 (sugar_values).
//
// Protocol:
//   lr.desugar <token names> | <rule> ; <rule> ; …
//     rule  = `<name> = <prod> / <prod> / …`   (the first rule carries @start; an empty <prod> is @empty)
//     prod  = terms separated by blanks
//     term  = atom | ?atom | *atom | !atom (x*!) | +atom | Latom,atom (@list) | Matom,atom (@list?)
//     atom  = t<i> (i-th declared token, terminal i+2) | r<i> (i-th rule) | e (@error)
//   answer: `nTerms nRules | <prods as in grammarLine> | <kinds as in prodKinds> | <rule names>`
//           or `rejected` when the front end reports an error.
// Oracle column: all token strings up to a length bound are classified by the documented reading
// (recog.go: Member) and by a CFG recogniser over the real lr1.Grammar; a difference is `C01: …`.

func encAtom(t *GTerm) string {
	switch t.Kind {
	case KTok:
		return "t" + strconv.Itoa(t.Tok)
	case KRule:
		return "r" + strconv.Itoa(t.Rule)
	case KErr:
		return "e"
	}
	panic("not an atom")
}

func encTerm(t *GTerm) string {
	switch t.Kind {
	case KTok, KRule, KErr:
		return encAtom(t)
	case KOpt:
		return "?" + encAtom(t.Child)
	case KStar:
		return "*" + encAtom(t.Child)
	case KStarF:
		return "!" + encAtom(t.Child)
	case KPlus:
		return "+" + encAtom(t.Child)
	case KList:
		return "L" + encAtom(t.Child) + "," + encAtom(t.Sep)
	case KListOpt:
		return "M" + encAtom(t.Child) + "," + encAtom(t.Sep)
	}
	panic("bad term")
}

func desugarCase(s *GSpec) string {
	var sb strings.Builder
	sb.WriteString("lr.desugar ")
	sb.WriteString(strings.Join(s.Tokens, " "))
	sb.WriteString(" |")
	for i, r := range s.Rules {
		if i > 0 {
			sb.WriteString(" ;")
		}
		sb.WriteString(" " + r.Name + " =")
		for j, p := range r.Prods {
			if j > 0 {
				sb.WriteString(" /")
			}
			for _, t := range p.Terms {
				sb.WriteString(" " + encTerm(t))
			}
		}
	}
	return sb.String()
}

func decAtom(x string) (*GTerm, error) {
	if x == "e" {
		return &GTerm{Kind: KErr}, nil
	}
	if len(x) < 2 {
		return nil, fmt.Errorf("bad atom %q", x)
	}
	n, err := strconv.Atoi(x[1:])
	if err != nil || n < 0 {
		return nil, fmt.Errorf("bad atom %q", x)
	}
	switch x[0] {
	case 't':
		return &GTerm{Kind: KTok, Tok: n}, nil
	case 'r':
		return &GTerm{Kind: KRule, Rule: n}, nil
	}
	return nil, fmt.Errorf("bad atom %q", x)
}

func decTerm(x string) (*GTerm, error) {
	if x == "" {
		return nil, fmt.Errorf("empty term")
	}
	card := map[byte]TK{'?': KOpt, '*': KStar, '!': KStarF, '+': KPlus}
	if k, ok := card[x[0]]; ok {
		c, err := decAtom(x[1:])
		if err != nil {
			return nil, err
		}
		return &GTerm{Kind: k, Child: c}, nil
	}
	if x[0] == 'L' || x[0] == 'M' {
		a, b, ok := strings.Cut(x[1:], ",")
		if !ok {
			return nil, fmt.Errorf("bad list %q", x)
		}
		c, err := decAtom(a)
		if err != nil {
			return nil, err
		}
		sp, err := decAtom(b)
		if err != nil {
			return nil, err
		}
		k := KList
		if x[0] == 'M' {
			k = KListOpt
		}
		return &GTerm{Kind: k, Child: c, Sep: sp}, nil
	}
	return decAtom(x)
}

func parseDesugarCase(line string) (*GSpec, error) {
	op, payload, _ := strings.Cut(line, " ")
	if op != "lr.desugar" {
		return nil, fmt.Errorf("bad op")
	}
	toks, rules, ok := strings.Cut(payload, "|")
	if !ok {
		return nil, fmt.Errorf("no rules section")
	}
	s := &GSpec{Tokens: strings.Fields(toks)}
	for _, rs := range strings.Split(rules, ";") {
		name, body, ok := strings.Cut(rs, "=")
		if !ok {
			return nil, fmt.Errorf("rule without =")
		}
		r := &GRule{Name: strings.TrimSpace(name)}
		for _, ps := range strings.Split(body, "/") {
			p := &GProd{}
			for _, ts := range strings.Fields(ps) {
				t, err := decTerm(ts)
				if err != nil {
					return nil, err
				}
				p.Terms = append(p.Terms, t)
			}
			r.Prods = append(r.Prods, p)
		}
		s.Rules = append(s.Rules, r)
	}
	return s, nil
}

// refsOK: all token / rule references of the spec are in range (otherwise Lox() cannot render it).
func (s *GSpec) refsOK() bool {
	var ok func(t *GTerm) bool
	ok = func(t *GTerm) bool {
		if t == nil {
			return true
		}
		if t.Kind == KTok && t.Tok >= len(s.Tokens) {
			return false
		}
		if t.Kind == KRule && t.Rule >= len(s.Rules) {
			return false
		}
		return ok(t.Child) && ok(t.Sep)
	}
	for _, r := range s.Rules {
		for _, p := range r.Prods {
			for _, t := range p.Terms {
				if !ok(t) {
					return false
				}
			}
		}
	}
	return len(s.Rules) > 0
}

func desugarListing(g *lr1.Grammar) string {
	ks := prodKinds(g)
	names := make([]string, len(g.Rules))
	for i, r := range g.Rules {
		names[i] = r.Name
	}
	return fmt.Sprintf("%d %d | %s | %s | %s", len(g.Terminals), len(g.Rules), grammarLine(g), joinInts(ks),
		strings.Join(names, " "))
}

// cfgRecog: least-fixed-point span recogniser over the REAL lr1.Grammar (independent of recog.go,
// which reads the sugar as documented).
type cfgRecog struct {
	g *lr1.Grammar
	w []int // terminal indices
	n int
	R [][][]bool // R[rule][i][j]
}

func (rc *cfgRecog) seqEnds(terms []lr1.Term, i int) []bool {
	cur := make([]bool, rc.n+1)
	cur[i] = true
	for _, t := range terms {
		next := make([]bool, rc.n+1)
		for m, ok := range cur {
			if !ok {
				continue
			}
			switch t := t.(type) {
			case *lr1.Terminal:
				if m < rc.n && rc.w[m] == t.Index {
					next[m+1] = true
				}
			case *lr1.Rule:
				for j, ok2 := range rc.R[t.Index][m] {
					if ok2 {
						next[j] = true
					}
				}
			}
		}
		cur = next
	}
	return cur
}

// cfgMember: does production 0 (S' -> start) derive the whole of w (terminal indices)?
func cfgMember(g *lr1.Grammar, w []int) bool {
	rc := &cfgRecog{g: g, w: w, n: len(w)}
	rc.R = make([][][]bool, len(g.Rules))
	for r := range rc.R {
		rc.R[r] = make([][]bool, rc.n+1)
		for i := range rc.R[r] {
			rc.R[r][i] = make([]bool, rc.n+1)
		}
	}
	for changed := true; changed; {
		changed = false
		for _, p := range g.Prods {
			for i := 0; i <= rc.n; i++ {
				for j, ok := range rc.seqEnds(p.Terms, i) {
					if ok && !rc.R[p.Rule.Index][i][j] {
						rc.R[p.Rule.Index][i][j] = true
						changed = true
					}
				}
			}
		}
	}
	return rc.R[0][0][rc.n]
}

// desugarOracle compares the two languages on every token string up to maxLen (at most budget
// strings). "" = equal on all of them.
func desugarOracle(s *GSpec, g *lr1.Grammar, maxLen, budget int) (verdict string, checked int) {
	nt := len(s.Tokens)
	var w []int
	// by increasing length, so that a shortest witness is reported
	for l := 0; l <= maxLen; l++ {
		var lv func(depth int) string
		lv = func(depth int) string {
			if depth == l {
				if checked >= budget {
					return ""
				}
				checked++
				tw := make([]int, len(w))
				for i, x := range w {
					tw[i] = x + 2
				}
				doc, real := Member(s, w), cfgMember(g, tw)
				if doc != real {
					return fmt.Sprintf("C01: token string %v (terminals %v): documented reading of the sugar says member=%v, the grammar the front end built says member=%v",
						w, tw, doc, real)
				}
				return ""
			}
			for a := 0; a < nt; a++ {
				w = append(w, a)
				v := lv(depth + 1)
				w = w[:len(w)-1]
				if v != "" {
					return v
				}
			}
			return ""
		}
		if v := lv(0); v != "" {
			return v, checked
		}
	}
	return "", checked
}

func tk(i int) *GTerm                       { return &GTerm{Kind: KTok, Tok: i} }
func rl(i int) *GTerm                       { return &GTerm{Kind: KRule, Rule: i} }
func er() *GTerm                            { return &GTerm{Kind: KErr} }
func card(k TK, c *GTerm) *GTerm            { return &GTerm{Kind: k, Child: c} }
func lst(k TK, c, s *GTerm) *GTerm          { return &GTerm{Kind: k, Child: c, Sep: s} }
func prod(ts ...*GTerm) *GProd              { return &GProd{Terms: ts} }
func rule(name string, ps ...*GProd) *GRule { return &GRule{Name: name, Prods: ps} }

// desugarAdversarial: hand-written shapes around helper sharing and creation order.
func desugarAdversarial() []*GSpec {
	T2 := []string{"TA", "TB"}
	T3 := []string{"TA", "TB", "TC"}
	return []*GSpec{
		// the same sugar term twice (shared helper), in one production and across rules
		{Tokens: T2, Rules: []*GRule{rule("r0", prod(card(KOpt, tk(0)), tk(1), card(KOpt, tk(0))))}},
		{Tokens: T2, Rules: []*GRule{rule("r0", prod(rl(1), card(KPlus, tk(0))), prod(tk(1), card(KPlus, tk(0)))),
			rule("r1", prod(card(KPlus, tk(0)), tk(1)))}},
		// x* and x+ of the same x, both orders (x* creates x+ itself when it comes first)
		{Tokens: T2, Rules: []*GRule{rule("r0", prod(card(KStar, tk(0)), tk(1), card(KPlus, tk(0))))}},
		{Tokens: T2, Rules: []*GRule{rule("r0", prod(card(KPlus, tk(0)), tk(1), card(KStar, tk(0))))}},
		{Tokens: T2, Rules: []*GRule{rule("r0", prod(card(KStarF, tk(0)), tk(1), card(KStar, tk(0)), tk(1), card(KPlus, tk(0))))}},
		{Tokens: T2, Rules: []*GRule{rule("r0", prod(card(KStar, tk(0)), tk(1), card(KStarF, tk(0)), tk(1), card(KOpt, tk(0))))}},
		// @list and @list? of the same pair, both orders
		{Tokens: T3, Rules: []*GRule{rule("r0", prod(lst(KList, tk(0), tk(1)), tk(2), lst(KListOpt, tk(0), tk(1))))}},
		{Tokens: T3, Rules: []*GRule{rule("r0", prod(lst(KListOpt, tk(0), tk(1)), tk(2), lst(KList, tk(0), tk(1))))}},
		{Tokens: T3, Rules: []*GRule{rule("r0", prod(lst(KList, tk(0), tk(1)), tk(2), lst(KList, tk(1), tk(0))))}},
		// sugar on rules, inside the start rule, start rule under sugar of another rule
		{Tokens: T2, Rules: []*GRule{rule("r0", prod(card(KStar, rl(1)), tk(1), card(KPlus, rl(1))), prod(card(KOpt, rl(0)), tk(0))),
			rule("r1", prod(tk(0)), prod(tk(1), card(KOpt, rl(0))))}},
		{Tokens: T3, Rules: []*GRule{rule("r0", prod(lst(KList, rl(1), rl(2))), prod()),
			rule("r1", prod(tk(0), card(KStarF, rl(2)))), rule("r2", prod(tk(1)), prod(tk(2), lst(KListOpt, rl(1), tk(1))))}},
		// helper first used in a later rule, then in an earlier production's twin
		{Tokens: T2, Rules: []*GRule{rule("r0", prod(rl(1), card(KOpt, tk(0)))), rule("r1", prod(card(KStar, tk(0)), card(KOpt, tk(0)), tk(1)))}},
		// @error under cardinalities
		{Tokens: T2, Rules: []*GRule{rule("r0", prod(card(KOpt, er()), tk(1)), prod(tk(0), card(KOpt, er())))}},
		{Tokens: T2, Rules: []*GRule{rule("r0", prod(tk(0), card(KStar, er()), tk(1)), prod(tk(1), card(KPlus, er())))}},
		{Tokens: T2, Rules: []*GRule{rule("r0", prod(tk(0), er(), tk(1)), prod(tk(1), card(KStarF, er())))}},
		// a user token or rule called ERROR / EOF (reserved: helper rules are named after their
		// terms and @error is named ERROR; D23)
		{Tokens: []string{"ERROR", "TB"}, Rules: []*GRule{rule("r0", prod(card(KOpt, er()), tk(1), card(KOpt, tk(0))))}},
		{Tokens: []string{"TB", "ERROR"}, Rules: []*GRule{rule("r0", prod(tk(0), card(KPlus, tk(1))), prod(card(KStar, er()), tk(0)))}},
		{Tokens: []string{"EOF", "TB"}, Rules: []*GRule{rule("r0", prod(card(KOpt, tk(0)), tk(1)))}},
		{Tokens: T2, Rules: []*GRule{rule("r0", prod(tk(1), card(KOpt, rl(1))), prod(tk(0), card(KOpt, er()))), rule("ERROR", prod(tk(0)))}},
		{Tokens: T2, Rules: []*GRule{rule("r0", prod(card(KOpt, er()), tk(1), card(KOpt, rl(1)))), rule("ERROR", prod(tk(0)))}},
		{Tokens: T2, Rules: []*GRule{rule("r0", prod(tk(1), card(KStar, rl(1))), prod(tk(0), card(KPlus, er()))), rule("ERROR", prod(tk(0)))}},
		{Tokens: T2, Rules: []*GRule{rule("r0", prod(tk(1), card(KStar, rl(1)))), rule("EOF", prod(tk(0)))}},
		// @error as a @list parameter (rejected by the front end)
		{Tokens: T2, Rules: []*GRule{rule("r0", prod(lst(KList, er(), tk(1))))}},
		{Tokens: T2, Rules: []*GRule{rule("r0", prod(lst(KListOpt, tk(0), er())))}},
		// empty productions around sugar
		{Tokens: T2, Rules: []*GRule{rule("r0", prod(), prod(card(KStar, rl(0)), tk(0)))}},
	}
}

// sugarTerms collects pointers to all sugar terms of the spec.
func (s *GSpec) sugarTerms() []*GTerm {
	var out []*GTerm
	for _, r := range s.Rules {
		for _, p := range r.Prods {
			for _, t := range p.Terms {
				if t.Kind != KTok && t.Kind != KRule && t.Kind != KErr {
					out = append(out, t)
				}
			}
		}
	}
	return out
}

// shareSugar copies existing sugar terms (or their twin of another cardinality over the same
// child) into random places, so that helper sharing and creation order are exercised.
func shareSugar(r *Rng, s *GSpec) {
	st := s.sugarTerms()
	if len(st) == 0 {
		return
	}
	n := 1 + r.Intn(3)
	for k := 0; k < n; k++ {
		src := Pick(r, st)
		cp := &GTerm{Kind: src.Kind, Child: src.Child, Sep: src.Sep}
		if r.Chance(1, 2) {
			switch src.Kind {
			case KOpt, KStar, KStarF, KPlus:
				cp.Kind = Pick(r, []TK{KOpt, KStar, KStarF, KPlus})
			case KList:
				cp.Kind = KListOpt
			case KListOpt:
				cp.Kind = KList
			}
		}
		rule := Pick(r, s.Rules)
		p := Pick(r, rule.Prods)
		at := r.Intn(len(p.Terms) + 1)
		nt := append([]*GTerm{}, p.Terms[:at]...)
		nt = append(nt, cp)
		nt = append(nt, p.Terms[at:]...)
		p.Terms = nt
	}
}

// desugarResult is what one specification contributes to the run.
type desugarResult struct {
	line, impl, oracle string
	emit               bool
	counts             []string
	strings            int
}

func desugarEval(s *GSpec, replay bool, maxLen, budget int) (r desugarResult) {
	r.line = desugarCase(s)
	if !s.refsOK() {
		r.counts = append(r.counts, "unrenderable")
		r.emit, r.impl = replay, "rejected"
		return r
	}
	fr := RunFront(s.Lox())
	if !fr.OK {
		r.counts = append(r.counts, "rejected")
		r.emit, r.impl = true, "rejected" // the model answers `rejected` for what it knows the front end refuses
		if strings.Contains(fr.Diag, "PANIC") {
			r.counts = append(r.counts, "front-end-panic")
			r.oracle = "C01: front end panicked: " + strings.ReplaceAll(fr.Diag, "\n", " ")
		}
		return r
	}
	r.counts = append(r.counts, "accepted")
	nh := len(fr.Grammar.Rules) - 1 - len(s.Rules)
	r.counts = append(r.counts, fmt.Sprintf("helpers=%d", min(nh, 8)))
	if nh < len(s.sugarTerms()) {
		r.counts = append(r.counts, "shared-helper")
	}
	r.oracle, r.strings = desugarOracle(s, fr.Grammar, maxLen, budget)
	r.emit, r.impl = true, desugarListing(fr.Grammar)
	return r
}

func init() {
	register("desugar", "AST passes (normalize + numbering) vs Lox.LR.desugar; documented language of the sugar (C01/C03)", func(c *Ctx) {
		maxLen, budget := 5, 1500
		if c.Tier == "thorough" {
			maxLen, budget = 6, 6000
		}
		var specs []*GSpec
		replay := c.Replay != nil
		if replay {
			for _, l := range c.Replay {
				s, err := parseDesugarCase(l)
				if err != nil {
					s = nil
				}
				specs = append(specs, s)
			}
		} else {
			specs = desugarAdversarial()
			for i := 0; i < c.N; i++ {
				o := GenOpts{MaxTokens: 2 + c.Rng.Intn(3), MaxRules: 1 + c.Rng.Intn(4), MaxProds: 1 + c.Rng.Intn(3),
					MaxTerms: 1 + c.Rng.Intn(4), Sugar: true, Errors: c.Rng.Chance(1, 3)}
				if c.Tier == "thorough" && c.Rng.Chance(1, 4) {
					o.MaxRules, o.MaxProds, o.MaxTerms = 8, 4, 6
				}
				s := GenSpec(c.Rng, o)
				if c.Rng.Chance(2, 3) {
					shareSugar(c.Rng, s)
				}
				specs = append(specs, s)
			}
		}
		// evaluation (front end + language comparison) is independent per specification
		res := make([]desugarResult, len(specs))
		var wg sync.WaitGroup
		sem := make(chan struct{}, 16)
		for i := range specs {
			if specs[i] == nil {
				continue
			}
			wg.Add(1)
			go func(i int) {
				defer wg.Done()
				sem <- struct{}{}
				defer func() { <-sem }()
				res[i] = desugarEval(specs[i], replay, maxLen, budget)
			}(i)
		}
		wg.Wait()
		for i, r := range res {
			if specs[i] == nil {
				c.Emit(c.Replay[i], "bad-op")
				continue
			}
			fresh := c.Distinct(r.line)
			for _, k := range r.counts {
				if fresh || k == "accepted" || k == "rejected" {
					c.Count(k)
				}
			}
			c.Counters["oracle-strings"] += r.strings
			if r.emit {
				c.EmitO(r.line, r.impl, r.oracle)
			}
		}
	})
}
