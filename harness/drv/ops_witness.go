//go:build verif

package main

import (
	"encoding/json"
	"fmt"
	"os"
	"path/filepath"
	"sort"
	"strings"

	"github.com/dcaiafa/lox/internal/codegen"
	"github.com/dcaiafa/lox/internal/parsergen/lr1"
)

// Family witness: committed witnesses of known findings and of repaired defects
// (/verif/corpus/<Cnn>/*.json), re-run against the current working tree.
//
//	{"id":"K3","property":"C11","kind":"lexer"|"parser","lox":"…",
//	 "inputs":[{"bytes":[..]} | {"text":"…"} | {"tokens":["TA","TB",…]}],
//	 "check":"terminates" | "eof_at_end" | "prefix:<s>" | "contains:<s>" | "equals:<s>"}
//
// Case line: `# witness <id> <input#>`; impl = what the compiled generated code printed;
// oracle column: "" when the property-level expectation holds, else `WITNESS <id>: …`.

type witnessInput struct {
	Bytes  []int    `json:"bytes"`
	Text   *string  `json:"text"`
	Tokens []string `json:"tokens"`
}

type witness struct {
	ID       string         `json:"id"`
	Property string         `json:"property"`
	Kind     string         `json:"kind"`
	Lox      string         `json:"lox"`
	Inputs   []witnessInput `json:"inputs"`
	Check    string         `json:"check"`
	What     string         `json:"what"`
}

// goTypeOfTerm derives the Go type lox will give a term of the desugared grammar when tokens
// are `Token`, user rules `Node` and @error `Error`.
func goTypeOfTerm(t lr1.Term) string {
	switch t := t.(type) {
	case *lr1.Terminal:
		if t.Index == 1 {
			return "Error"
		}
		return "Token"
	case *lr1.Rule:
		switch string(codegen.RuleGenerated(t)) {
		case "not_generated":
			return "Node"
		case "zero_or_one":
			return goTypeOfTerm(t.Prods[0].Terms[0])
		case "zero_or_more", "zero_or_more_f":
			return goTypeOfTerm(t.Prods[0].Terms[0])
		case "one_or_more", "one_or_more_f", "list":
			return "[]" + goTypeOfTerm(t.Prods[1].Terms[0])
		}
	}
	return "any"
}

// goSourceFromGrammar synthesises the same kind of package as GSpec.GoSource, from the
// grammar the real front end built for an arbitrary .lox text.
func goSourceFromGrammar(pkg string, g *lr1.Grammar, withBounds bool) string {
	var ms strings.Builder
	for _, r := range g.Rules {
		if string(codegen.RuleGenerated(r)) != "not_generated" {
			continue
		}
		seen := map[string]bool{}
		for _, p := range r.Prods {
			var sig []string
			for _, t := range p.Terms {
				sig = append(sig, goTypeOfTerm(t))
			}
			key := strings.Join(sig, ",")
			if seen[key] {
				continue
			}
			seen[key] = true
			var params, args []string
			for q, ty := range sig {
				params = append(params, fmt.Sprintf("a%d %s", q, ty))
				args = append(args, fmt.Sprintf("rv(a%d)", q))
			}
			fmt.Fprintf(&ms, "func (p *parserT) on_%s__s%d(%s) Node { return p.mk(%d, []string{%s}) }\n",
				r.Name, len(seen)-1, strings.Join(params, ", "), r.Index, strings.Join(args, ", "))
		}
	}
	if withBounds {
		ms.WriteString("func (p *parserT) _onBounds(r any, b, e Token) { p.log = append(p.log, fmt.Sprintf(\"B %s %d %d\", rv(r), b.N-1, e.N-1)) }\n")
	}
	var tt strings.Builder
	tt.WriteString("var TokTypes = []int{EOF, ERROR}\n")
	src := strings.ReplaceAll(goPkgTemplate, "PKG", pkg)
	src = strings.ReplaceAll(src, "METHODS", ms.String())
	src = strings.ReplaceAll(src, "TOKTYPES", tt.String())
	return src
}

func checkWitness(check, out string, nbytes int) string {
	switch {
	case check == "terminates":
		if out == "timeout" || out == "crash" {
			return "does not terminate"
		}
	case check == "eof_at_end":
		if !strings.Contains(out, fmt.Sprintf("EOF@%d ", nbytes)) {
			return fmt.Sprintf("EOF is not reported at the end of the input (%d bytes): %s", nbytes, out)
		}
	case strings.HasPrefix(check, "prefix:"):
		if !strings.HasPrefix(out, check[7:]) {
			return "expected prefix `" + check[7:] + "`, got `" + out + "`"
		}
	case strings.HasPrefix(check, "contains:"):
		if !strings.Contains(out, check[9:]) {
			return "expected to contain `" + check[9:] + "`, got `" + out + "`"
		}
	case strings.HasPrefix(check, "equals:"):
		if out != check[7:] {
			return "expected `" + check[7:] + "`, got `" + out + "`"
		}
	}
	return ""
}

func init() {
	register("witness", "re-run committed witnesses (corpus/<Cnn>/*.json given as arguments) on the working tree", func(c *Ctx) {
		var ws []*witness
		for _, a := range c.Args {
			files, _ := filepath.Glob(a)
			sort.Strings(files)
			for _, f := range files {
				data, err := os.ReadFile(f)
				if err != nil {
					continue
				}
				var w witness
				if json.Unmarshal(data, &w) == nil && w.ID != "" {
					ws = append(ws, &w)
				}
			}
		}
		if len(ws) == 0 {
			return
		}
		root, err := os.MkdirTemp("", "verif-witness-")
		if err != nil {
			panic(err)
		}
		defer os.RemoveAll(root)
		WriteModule(root)
		var names, loxs, gos []string
		fronts := make([]*Front, len(ws))
		for i, w := range ws {
			name := fmt.Sprintf("w%03d", i)
			names = append(names, name)
			loxs = append(loxs, w.Lox)
			if w.Kind == "lexer" {
				gos = append(gos, strings.ReplaceAll(lexPkgTemplate, "PKG", name))
			} else {
				fr := RunFront(w.Lox)
				fronts[i] = fr
				if fr.OK {
					gos = append(gos, goSourceFromGrammar(name, fr.Grammar, false))
				} else {
					gos = append(gos, "package "+name+"\ntype Token struct{}\ntype P struct{ lox }\nfunc Run(t []int, b int) string { return \"front-end-rejected\" }\n")
				}
			}
		}
		pkgs := GenerateAll(root, names, loxs, gos, false)
		var ok []string
		for _, p := range pkgs {
			if p.OK {
				ok = append(ok, p.Name)
			}
		}
		bin := ""
		if len(ok) > 0 {
			bin, err = BuildMux(root, ok)
			if err != nil {
				for _, w := range ws {
					c.EmitO("# witness "+w.ID, "build-failed", "WITNESS "+w.ID+": generated packages do not compile: "+strings.ReplaceAll(err.Error(), "\n", " ⏎ "))
				}
				return
			}
		}
		for i, w := range ws {
			p := pkgs[i]
			if !p.OK {
				out := "rejected: " + strings.ReplaceAll(strings.TrimSpace(p.Diag+p.Panic), "\n", " ⏎ ")
				or := ""
				switch {
				case p.Panic != "":
					or = "WITNESS " + w.ID + ": generator panicked: " + p.Panic
				case !strings.HasPrefix(w.Check, "rejected"):
					or = "WITNESS " + w.ID + ": specification rejected: " + out
				case strings.HasPrefix(w.Check, "rejected:") && !strings.Contains(p.Diag, w.Check[9:]):
					or = "WITNESS " + w.ID + ": rejected, but not with the expected diagnostic `" + w.Check[9:] + "`: " + out
				}
				c.EmitO("# witness "+w.ID, out, or)
				continue
			}
			if strings.HasPrefix(w.Check, "rejected") {
				c.EmitO("# witness "+w.ID, "accepted", "WITNESS "+w.ID+": specification accepted although it must be rejected")
				continue
			}
			for k, in := range w.Inputs {
				var xs []int
				nbytes := 0
				switch {
				case w.Kind == "lexer":
					if in.Text != nil {
						for _, b := range []byte(*in.Text) {
							xs = append(xs, int(b))
						}
					} else {
						xs = in.Bytes
					}
					nbytes = len(xs)
				default:
					for _, tn := range in.Tokens {
						v, okc := p.Consts[tn]
						if !okc {
							v = -1
						}
						xs = append(xs, v)
					}
				}
				outs := RunMux(bin, []string{fmt.Sprintf("%s %d %s", p.Name, 2000, joinInts(xs))})
				why := checkWitness(w.Check, outs[0], nbytes)
				or := ""
				if why != "" {
					or = "WITNESS " + w.ID + ": " + why
				}
				c.EmitO(fmt.Sprintf("# witness %s %d", w.ID, k), outs[0], or)
			}
		}
	})
}
