//go:build verif

package main

import (
	"bytes"
	"fmt"
	gotoken "go/token"
	"os"
	"path/filepath"
	"strconv"
	"strings"

	"github.com/dcaiafa/lox/internal/ast"
	"github.com/dcaiafa/lox/internal/base/errlogger"
	"github.com/dcaiafa/lox/internal/codegen"
	"github.com/dcaiafa/lox/internal/parser"
)

// Family lexgenspec (C07, C11, C19; also C02/C10): the lexer generator on WHOLE specifications —
// ast.Spec.RunPass (mode `$default`, rules of all files, modes sorted by name, mode.Index),
// TokenRule/FragRule.RunPass(GenerateGrammar) (stored action lists), the Check pass of
// ActionPushMode / ActionEmit (names → mode / terminal), pickAction's cross-file conflict,
// ModeBuilder.Build and EmitLexer for every mode — against its Lean model
// lean/Lox/Lex/GenSpecModel.lean (`genModes`; driver lean/Lox/Lex/DrvGenSpec.lean), about which
// Lox.Props.C11.generator_lexAll_terminates / generator_conservation,
// Lox.Props.C07.generator_mode_stack / generator_all_actions_effective / generator_run_matched and
// Lox.Props.C19.generator_accept_numbers are proved.
//
// One line per specification:
//
//   lex.genmodes file | tok NAME : <rule> : <acts> | frag : <rule> : <acts> | ext A B | mac NAME |
//                mode NAME | … | end | other NAME | file | …
//       the lexer statements of every file as the REAL parser delivered them (walk of ast.Unit;
//       rule bodies in the rich code of astRxCode, macros inlined; actions by NAME: the Lean side
//       resolves `@push_mode(M)` to the index of M among the sorted mode names and `@emit(T)` /
//       a token rule's own accept to the terminal number). impl: every `_lexerModeN` of the
//       emitted lexer.gen.go, N = 0, 1, …, renumbered breadth first from state 0 (canonModeArray,
//       as for lex.genmode), separated by ` | `; `rejected` when the front end reports an error.
//
// Curated: multi-file specifications (token numbering and `$default` rules across files,
// @external, a parser rule between the lexer statements), mode names around `$default` in sort
// order, and specifications the front end must reject for a reason the model knows (cross-file
// conflict, undefined mode, undefined / non-token @emit, @discard on a token, two @discard on a
// fragment, name defined twice). Random: GenLSpec / GenLSpecNG (one file, up to 3 modes, all four
// kinds of action, mode names differing in case).

func init() {
	register("lexgenspec", "the lexer generator on whole specifications (mode order and indices, name resolution of push_mode / emit, terminal numbers, cross-file conflicts, every mode's table) vs the Lean model genModes (C07 C11 C19)", lexgenspecRun)
}

func spaceInts(xs []int) string {
	ss := make([]string, len(xs))
	for i, x := range xs {
		ss[i] = strconv.Itoa(x)
	}
	return strings.Join(ss, " ")
}

// runFrontFiles is RunFront for several files: one ast.Unit per text, in order.
func runFrontFiles(texts []string) (ctx *ast.Context, units []*ast.Unit, ok bool, diag string) {
	fset := gotoken.NewFileSet()
	var buf bytes.Buffer
	errs := errlogger.New(fset, &buf)
	defer func() {
		if e := recover(); e != nil {
			ok = false
			diag = buf.String() + fmt.Sprint("PANIC ", e)
		}
	}()
	for i, t := range texts {
		data := []byte(t)
		file := fset.AddFile(fmt.Sprintf("g%d.lox", i), -1, len(data))
		unit := parser.Parse(file, data, errs)
		if errs.HasError() {
			return nil, nil, false, "PARSE " + buf.String()
		}
		units = append(units, unit)
	}
	ctx = ast.NewContext(fset, errs)
	spec := &ast.Spec{Units: units}
	if !ctx.Analyze(spec, ast.AllPasses) || errs.HasError() {
		return ctx, units, false, buf.String()
	}
	return ctx, units, true, buf.String()
}

func actsCode(acts []ast.Action) (string, bool) {
	var out []string
	for _, a := range acts {
		switch x := a.(type) {
		case *ast.ActionPushMode:
			if x.Mode == ast.DefaultModeName {
				out = append(out, "push=-")
			} else {
				out = append(out, "push="+x.Mode)
			}
		case *ast.ActionPopMode:
			out = append(out, "pop")
		case *ast.ActionEmit:
			out = append(out, "emit="+x.Name)
		case *ast.ActionDiscard:
			out = append(out, "disc")
		default:
			return "", false
		}
	}
	return strings.Join(out, " "), true
}

// specItems serialises the statements of all units.
func specItems(ctx *ast.Context, units []*ast.Unit) (string, bool) {
	var items []string
	good := true
	var rule func(st ast.Statement, inMode bool)
	rule = func(st ast.Statement, inMode bool) {
		switch r := st.(type) {
		case *ast.TokenRule:
			ac, ok := actsCode(r.Actions)
			good = good && ok
			items = append(items, "tok "+r.Name+" : "+spaceInts(astRxCode(ctx, r.Expr))+" : "+ac)
		case *ast.FragRule:
			ac, ok := actsCode(r.Actions)
			good = good && ok
			items = append(items, "frag : "+spaceInts(astRxCode(ctx, r.Expr))+" : "+ac)
		case *ast.ExternalRule:
			s := "ext"
			for _, n := range r.Names {
				s += " " + n.Name
			}
			items = append(items, s)
		case *ast.MacroRule:
			items = append(items, "mac "+r.Name)
		case *ast.Mode:
			if inMode {
				good = false
				return
			}
			items = append(items, "mode "+r.Name)
			for _, x := range r.Rules {
				rule(x, true)
			}
			items = append(items, "end")
		case *ast.DiscardStatement:
			// an empty line
		case *ast.ParserRule:
			if inMode {
				good = false
				return
			}
			items = append(items, "other "+r.Name)
		default:
			if inMode {
				good = false
				return
			}
			items = append(items, "other")
		}
	}
	for _, u := range units {
		items = append(items, "file")
		for _, st := range u.Statements {
			rule(st, false)
		}
	}
	return strings.Join(items, " | "), good
}

func lexgenspecFiles(c *Ctx, texts []string, wantReject bool) {
	specTxt := strings.ReplaceAll(strings.TrimSpace(strings.Join(texts, "\n=== next file ===\n")), "\n", " ⏎ ")
	ctx, units, ok, diag := runFrontFiles(texts)
	if strings.HasPrefix(diag, "PARSE ") || ctx == nil {
		c.Emit("# unparsable "+specTxt, "unparsable "+strings.ReplaceAll(strings.TrimSpace(diag), "\n", " ⏎ "))
		return
	}
	line, good := specItems(ctx, units)
	if !good {
		c.Emit("# export-drift: a statement or action the serialisation does not know | "+specTxt, "export-drift")
		return
	}
	line = "lex.genmodes " + line
	if !c.Distinct(line) {
		return
	}
	if !ok {
		c.Count("rejected")
		if !wantReject {
			c.EmitO(line, "rejected", "C17: well-formed specification rejected: "+strings.ReplaceAll(strings.TrimSpace(diag), "\n", " ⏎ ")+" | spec: "+specTxt)
			return
		}
		c.Emit(line, "rejected")
		return
	}
	c.Count("accepted")
	if len(units) > 1 {
		c.Count("multi-file")
	}
	dir, err := os.MkdirTemp("", "verif-lexgenspec-")
	if err != nil {
		panic(err)
	}
	defer os.RemoveAll(dir)
	res := guard(func() string {
		if !codegen.VerifEmitLexer(ctx.FSet, ctx.Errs, dir, ctx.LexerDFAs) {
			return "EmitLexer returned false"
		}
		return ""
	})
	if res != "" {
		c.EmitO(line, res, "C12: EmitLexer failed on an accepted specification: "+res+" | spec: "+specTxt)
		return
	}
	arrs, err := readIntArrays(filepath.Join(dir, "lexer.gen.go"))
	if err != nil {
		c.Emit(line, "readback-failed "+err.Error())
		return
	}
	n := len(ctx.LexerDFAs)
	if n > 1 {
		c.Count("specs-with-modes")
	}
	c.Extra["max-modes"] = maxInt(intOf(c.Extra["max-modes"]), n)
	var parts []string
	for i := 0; i < n; i++ {
		real, ok := arrs[fmt.Sprintf("_lexerMode%d", i)]
		if !ok {
			parts = append(parts, "no-array")
			continue
		}
		parts = append(parts, canonModeArray(real))
	}
	c.Emit(line, strings.Join(parts, " | "))
}

func intOf(v any) int {
	if x, ok := v.(int); ok {
		return x
	}
	return 0
}

func lexgenspecRun(c *Ctx) {
	if c.Replay != nil {
		// The case line carries the statements, not the source text: replayed lines are passed
		// through (the Lean side recomputes its answer; the implementation's answer is not
		// recomputed).
		for _, l := range c.Replay {
			c.Emit(l, l)
		}
		return
	}
	for _, cs := range curatedGenSpecs() {
		lexgenspecFiles(c, cs.files, cs.reject)
	}
	for _, s := range curatedLexSpecs() {
		lexgenspecFiles(c, []string{s.Lox(c.Rng)}, false)
	}
	for i := 0; i < c.N; i++ {
		o := LGenOpts{MaxModes: 3, MaxRules: 4, Depth: 1, Small: c.Rng.Chance(2, 3)}
		// the thorough tier runs MORE specifications of the same size, not larger ones: the list-based subset construction of the
		// Lean model needs minutes for a seven-rule mode over nested classes
		var s *LSpec
		switch c.Rng.Intn(8) {
		case 0:
			s = GenLSpecNG(c.Rng, false)
		case 1:
			s = GenLSpecNG(c.Rng, true)
		default:
			s = GenLSpec(c.Rng, o)
		}
		lexgenspecFiles(c, []string{s.Lox(c.Rng)}, false)
	}
}

type genSpecCase struct {
	files  []string
	reject bool
}

func curatedGenSpecs() []genSpecCase {
	return []genSpecCase{
		// two files: tokens numbered across files, `$default` collects the rules of both, an
		// @external and a parser section in between, @emit of a token declared in the other file
		{files: []string{
			"@lexer\nA = 'a'\n@external X Y\n@mode Str {\n  STR = '\"' @pop_mode\n  @frag [b-z] @emit(X)\n}\n@frag ' '+ @discard\n@parser\n@start s = A B\n",
			"@lexer\n@frag '\"' @push_mode(Str) @emit(B)\nB = 'b'\n@frag '<' @push_mode(Aux)\n@mode Aux {\n  C = '>' @pop_mode @push_mode()\n  @frag 'y' @discard\n}\n",
		}},
		// the same rules, files swapped: other token numbers, other rule order in `$default`
		{files: []string{
			"@lexer\n@frag '\"' @push_mode(Str) @emit(B)\nB = 'b'\n@frag '<' @push_mode(Aux)\n@mode Aux {\n  C = '>' @pop_mode @push_mode()\n  @frag 'y' @discard\n}\n",
			"@lexer\nA = 'a'\n@external X Y\n@mode Str {\n  STR = '\"' @pop_mode\n  @frag [b-z] @emit(X)\n}\n@frag ' '+ @discard\n@parser\n@start s = A B\n",
		}},
		// mode names around `$default` in byte order: upper case, lower case, digits and '_' inside
		{files: []string{
			"@lexer\nA = 'a' @push_mode(Zz)\n@mode b_1 {\n  B = 'b' @pop_mode\n}\n@mode Zz {\n  C = 'c' @push_mode(b_1)\n  D = 'd' @push_mode(B2)\n}\n@mode B2 {\n  E = 'e' @pop_mode @pop_mode\n}\n@mode a {\n  F = 'f' @push_mode()\n}\n",
		}},
		// terminal action written first / in the middle; a fragment that emits its mode's token
		{files: []string{
			"@lexer\nT = 't'\n@frag 'x' @emit(T) @push_mode(M) \n@frag 'y' @push_mode(M) @discard @pop_mode\n@mode M {\n  @frag 'z' @pop_mode @emit(U) @push_mode(M)\n  U = 'u'\n}\n",
		}},
		// three files, rules of `$default` in every one, no conflict (disjoint first characters)
		{files: []string{"@lexer\nA = 'a' 'x'\n", "@lexer\nB = 'b' 'x'\n@mode M {\n  Q = 'q'\n}\n", "@lexer\nC = 'c' 'x' @push_mode(M)\n"}},
		// ---- rejected for a reason the model knows ----
		// cross-file conflict: two files match the same string in `$default`
		{files: []string{"@lexer\nA = 'a'\n", "@lexer\nB = [a-c]\n"}, reject: true},
		// … but the same two rules in one file are fine (earliest wins)
		{files: []string{"@lexer\nA = 'a'\nB = [a-c]\n"}},
		// … and so are two files whose rules cannot end in the same state
		{files: []string{"@lexer\nA = 'a' 'b'\n", "@lexer\nB = 'a' 'c'\n"}},
		{files: []string{"@lexer\nA = 'a' @push_mode(Nope)\n"}, reject: true},
		{files: []string{"@lexer\nA = 'a'\n@frag 'b' @emit(NOPE)\n"}, reject: true},
		{files: []string{"@lexer\nA = 'a'\n@macro MAC = 'm'\n@frag 'b' @emit(MAC)\n"}, reject: true},
		{files: []string{"@lexer\nA = 'a'\n@frag 'b' @emit(EOF)\n"}, reject: true},
		{files: []string{"@lexer\nA = 'a' @discard\n"}, reject: true},
		{files: []string{"@lexer\nA = 'a' @emit(A)\n"}, reject: true},
		{files: []string{"@lexer\nA = 'a'\n@frag 'b' @discard @discard\n"}, reject: true},
		{files: []string{"@lexer\nA = 'a'\n@frag 'b' @emit(A) @emit(A)\n"}, reject: true},
		{files: []string{"@lexer\nA = 'a'\n@frag 'b' @emit(A) @discard\n"}, reject: true},
		{files: []string{"@lexer\nA = 'a'\n", "@lexer\nA = 'b'\n"}, reject: true},
		{files: []string{"@lexer\nA = 'a'\n@mode M {\n  B = 'b'\n}\n@mode M {\n  C = 'c'\n}\n"}, reject: true},
		{files: []string{"@lexer\nA = 'a'\n@external A\n"}, reject: true},
	}
}
