//go:build verif

package main

import (
	"fmt"
	"sort"
	"strings"

	"github.com/dcaiafa/lox/internal/lexergen/rang3"
)

// Family rang3: the pure range algebra of internal/lexergen/rang3 (property C15).
//
// Protocol (ranges are "b e" pairs, lists are flat "b1 e1 b2 e2 …"):
//   rang3.rel b1 e1 b2 e2            -> "contains intersects touches compare" (0/1 0/1 0/1 -1/0/1)
//   rang3.flatten <ranges>           -> result ranges (flat)
//   rang3.subtract <a> | <b>         -> result ranges (flat)
//   rang3.normalize <ranges>         -> final pieces (sorted, flat) ; callback log "o a b c" 8 ints each, '/'-separated
//   rang3.flattenlog <ranges>        -> effect of the onChange log on the set of inputs (sorted, flat)

func fmtRanges(rs []rang3.Range) string {
	var sb strings.Builder
	for i, r := range rs {
		if i > 0 {
			sb.WriteByte(' ')
		}
		fmt.Fprintf(&sb, "%d %d", r.B, r.E)
	}
	return sb.String()
}

func sortRanges(rs []rang3.Range) {
	sort.Slice(rs, func(i, j int) bool { return rang3.Compare(rs[i], rs[j]) < 0 })
}

// boundary-heavy code points
var cpBoundary = []rune{0, 1, 9, 10, 11, 0x7E, 0x7F, 0x80, 0x81, 0x7FF, 0x800, 0xD7FF, 0xD800, 0xDFFF, 0xE000,
	0xFFFD, 0xFFFF, 0x10000, 0x10FFFE, 0x10FFFF}

func genRange(r *Rng, universe int) rang3.Range {
	if universe > 0 {
		b := rune(r.Intn(universe))
		e := b + rune(r.Intn(universe-int(b)))
		return rang3.Range{B: b, E: e}
	}
	pick := func() rune {
		c := Pick(r, cpBoundary)
		switch r.Intn(4) {
		case 0:
			if c > 0 {
				c--
			}
		case 1:
			if c < 0x10FFFF {
				c++
			}
		}
		return c
	}
	b, e := pick(), pick()
	if b > e {
		b, e = e, b
	}
	return rang3.Range{B: b, E: e}
}

func genRanges(r *Rng, maxLen, universe int) []rang3.Range {
	n := r.Intn(maxLen + 1)
	rs := make([]rang3.Range, n)
	for i := range rs {
		rs[i] = genRange(r, universe)
	}
	return rs
}

func parseRanges(s string) []rang3.Range {
	f := strings.Fields(s)
	rs := make([]rang3.Range, 0, len(f)/2)
	for i := 0; i+1 < len(f); i += 2 {
		var b, e int
		fmt.Sscan(f[i], &b)
		fmt.Sscan(f[i+1], &e)
		rs = append(rs, rang3.Range{B: rune(b), E: rune(e)})
	}
	return rs
}

func b2i(b bool) int {
	if b {
		return 1
	}
	return 0
}

func rang3Impl(line string) string {
	return guard(func() string {
		op, payload, _ := strings.Cut(line, " ")
		switch op {
		case "rang3.rel":
			rs := parseRanges(payload)
			a, b := rs[0], rs[1]
			return fmt.Sprintf("%d %d %d %d", b2i(a.Contains(b)), b2i(a.Intersects(b)), b2i(a.Touches(b)), rang3.Compare(a, b))
		case "rang3.flatten":
			rs := parseRanges(payload)
			return fmtRanges(rang3.Flatten(rs, nil))
		case "rang3.flattenlog":
			rs := parseRanges(payload)
			set := map[rang3.Range]bool{}
			for _, r := range rs {
				set[r] = true
			}
			res := rang3.Flatten(rs, func(oa, ob, n rang3.Range) {
				delete(set, oa)
				delete(set, ob)
				set[n] = true
			})
			var out []rang3.Range
			for r := range set {
				out = append(out, r)
			}
			sortRanges(out)
			return fmtRanges(out) + " ; " + fmtRanges(res)
		case "rang3.subtract":
			as, bs, _ := strings.Cut(payload, "|")
			return fmtRanges(rang3.Subtract(parseRanges(as), parseRanges(bs)))
		case "rang3.normalize":
			rs := parseRanges(payload)
			set := map[rang3.Range]bool{}
			for _, r := range rs {
				set[r] = true
			}
			var log []string
			steps := 0
			rang3.Normalize(rs, func(o, a, b, c rang3.Range) {
				steps++
				if steps > 100000 {
					panic("normalize does not terminate")
				}
				log = append(log, fmtRanges([]rang3.Range{o, a, b, c}))
				delete(set, o)
				set[a] = true
				set[b] = true
				set[c] = true
			})
			var out []rang3.Range
			for r := range set {
				out = append(out, r)
			}
			sortRanges(out)
			return fmtRanges(out) + " ; " + strings.Join(log, " / ")
		}
		return "bad-op"
	})
}

func init() {
	register("rang3", "range algebra: rel/flatten/subtract/normalize vs model (C15)", func(c *Ctx) {
		if c.Replay != nil {
			for _, l := range c.Replay {
				c.Emit(l, rang3Impl(l))
			}
			return
		}
		emit := func(l string) {
			if c.Distinct(l) {
				c.Count(strings.SplitN(l, " ", 2)[0])
			}
			c.Emit(l, rang3Impl(l))
		}
		// exhaustive small universe: all lists of <= k ranges over 0..u-1
		u, k := 4, 3
		if c.Tier == "thorough" {
			u, k = 6, 3
		}
		var all []rang3.Range
		for b := 0; b < u; b++ {
			for e := b; e < u; e++ {
				all = append(all, rang3.Range{B: rune(b), E: rune(e)})
			}
		}
		for _, a := range all {
			for _, b := range all {
				emit("rang3.rel " + fmtRanges([]rang3.Range{a, b}))
			}
		}
		var lists [][]rang3.Range
		var rec func(cur []rang3.Range, depth int)
		rec = func(cur []rang3.Range, depth int) {
			lists = append(lists, append([]rang3.Range(nil), cur...))
			if depth == k {
				return
			}
			for _, r := range all {
				rec(append(cur, r), depth+1)
			}
		}
		rec(nil, 0)
		c.Extra["exhaustive_universe"] = u
		c.Extra["exhaustive_maxlen"] = k
		c.Extra["exhaustive_lists"] = len(lists)
		for _, l := range lists {
			s := fmtRanges(l)
			emit("rang3.flatten " + s)
			emit("rang3.flattenlog " + s)
			emit("rang3.normalize " + s)
		}
		// subtract: pairs of lists of <= 2 ranges exhaustively
		for _, a := range lists {
			if len(a) > 2 {
				continue
			}
			for _, b := range lists {
				if len(b) > 2 {
					continue
				}
				emit("rang3.subtract " + fmtRanges(a) + " | " + fmtRanges(b))
			}
		}
		// random: boundary sampling over the full code space and medium universes
		for i := 0; i < c.N; i++ {
			uni := 0
			if c.Rng.Bool() {
				uni = 8 + c.Rng.Intn(40)
			}
			a := genRanges(c.Rng, 8, uni)
			b := genRanges(c.Rng, 6, uni)
			emit("rang3.flatten " + fmtRanges(a))
			emit("rang3.flattenlog " + fmtRanges(a))
			emit("rang3.normalize " + fmtRanges(a))
			emit("rang3.subtract " + fmtRanges(a) + " | " + fmtRanges(b))
			if len(a) > 0 && len(b) > 0 {
				emit("rang3.rel " + fmtRanges([]rang3.Range{a[0], b[0]}))
			}
		}
	})
}
