//go:build verif

package main

import (
	"fmt"
	"os"
	"strings"
)

// Family prec (C05): random operator tables (levels × associativity × several operators per
// level, every level with ONE associativity) turned into an expression rule
//   e = e OP e @left/@right(n) | … | ATOM | LP e RP
// through the real generator; compiled; all operator sequences up to a length plus random long
// chains; oracle = precedence climbing over the table (documented reading). A deviation that
// disappears when every operator is read as @left is the known finding K1; anything else is not.

type opInfo struct {
	prec  int
	right bool
}

func precSpec(r *Rng, maxLevels, maxOps int) (*GSpec, []opInfo) {
	s := &GSpec{Tokens: []string{"ATOM", "LP", "RP"}}
	var ops []opInfo
	nl := 1 + r.Intn(maxLevels)
	// levels are arbitrary positive integers: consecutive small ones, widely spaced ones (Prolog style
	// priorities), large ones
	scale := Pick(r, []int{1, 1, 1, 10, 100, 128, 300, 65536})
	off := Pick(r, []int{0, 0, 0, 250, 1000, 1 << 20})
	for l := 1; l <= nl; l++ {
		right := r.Chance(1, 3)
		n := 1 + r.Intn(maxOps)
		for k := 0; k < n; k++ {
			ops = append(ops, opInfo{l*scale + off, right})
		}
	}
	// shuffle so that declaration order is unrelated to precedence
	for i := len(ops) - 1; i > 0; i-- {
		j := r.Intn(i + 1)
		ops[i], ops[j] = ops[j], ops[i]
	}
	e := &GRule{Name: "e"}
	for i, o := range ops {
		s.Tokens = append(s.Tokens, fmt.Sprintf("OP%d", i))
		e.Prods = append(e.Prods, &GProd{
			Terms: []*GTerm{{Kind: KRule, Rule: 0}, {Kind: KTok, Tok: 3 + i}, {Kind: KRule, Rule: 0}},
			Prec:  o.prec, Right: o.right,
		})
	}
	e.Prods = append(e.Prods, &GProd{Terms: []*GTerm{{Kind: KTok, Tok: 0}}})
	e.Prods = append(e.Prods, &GProd{Terms: []*GTerm{{Kind: KTok, Tok: 1}, {Kind: KRule, Rule: 0}, {Kind: KTok, Tok: 2}}})
	s.Rules = []*GRule{e}
	return s, ops
}

// precSpec2: two expression rules over the SAME operator tokens with their own levels and associativities
// (levels are local to a rule):  e = e OP e @..(a) | ATOM | LP e RP | LB ty RB ;  ty = ty OP ty @..(b) | TATOM.
// Tokens: ATOM LP RP OP0… LB RB TATOM. ops2[i] is the qualifier of OPi inside ty.
func precSpec2(r *Rng, maxLevels, maxOps int) (*GSpec, []opInfo, []opInfo) {
	s, ops := precSpec(r, maxLevels, maxOps)
	for len(ops) < 2 {
		s, ops = precSpec(r, maxLevels, maxOps)
	}
	n := len(ops)
	s.Tokens = append(s.Tokens, "LB", "RB", "TATOM")
	lb, rb, ta := 3+n, 4+n, 5+n
	// the second table: the levels of the first one handed to other operators (a rotation, so every shared
	// operator changes its level unless all are equal), associativity drawn per level again
	ops2 := make([]opInfo, n)
	rightOf := map[int]bool{}
	for i := range ops {
		p := ops[(i+1+r.Intn(n-1))%n].prec
		if _, ok := rightOf[p]; !ok {
			rightOf[p] = r.Chance(1, 3)
		}
		ops2[i] = opInfo{p, rightOf[p]}
	}
	e := s.Rules[0]
	e.Prods = append(e.Prods, &GProd{Terms: []*GTerm{{Kind: KTok, Tok: lb}, {Kind: KRule, Rule: 1}, {Kind: KTok, Tok: rb}}})
	ty := &GRule{Name: "ty"}
	for i, o := range ops2 {
		ty.Prods = append(ty.Prods, &GProd{
			Terms: []*GTerm{{Kind: KRule, Rule: 1}, {Kind: KTok, Tok: 3 + i}, {Kind: KRule, Rule: 1}},
			Prec:  o.prec, Right: o.right,
		})
	}
	ty.Prods = append(ty.Prods, &GProd{Terms: []*GTerm{{Kind: KTok, Tok: ta}}})
	s.Rules = append(s.Rules, ty)
	return s, ops, ops2
}

// climb renders the tree precedence climbing builds for tokens w (indices into spec.Tokens),
// or "" if w is not an expression. ops2 != nil: the two-rule grammar of precSpec2.
func climb(ops []opInfo, w []int, forceLeft bool) string { return climb2(ops, nil, w, forceLeft) }

func climb2(ops, ops2 []opInfo, w []int, forceLeft bool) string {
	pos := 0
	n := len(ops)
	var expr func(tab []opInfo, rule int, minPrec int) (string, bool)
	atom := func(rule int) (string, bool) {
		if pos >= len(w) {
			return "", false
		}
		if rule == 2 {
			if w[pos] == 5+n {
				pos++
				return fmt.Sprintf("(r2 t%d)", pos-1), true
			}
			return "", false
		}
		switch {
		case w[pos] == 0:
			pos++
			return fmt.Sprintf("(r1 t%d)", pos-1), true
		case w[pos] == 1:
			l := pos
			pos++
			in, ok := expr(ops, 1, 1)
			if !ok || pos >= len(w) || w[pos] != 2 {
				return "", false
			}
			pos++
			return fmt.Sprintf("(r1 t%d %s t%d)", l, in, pos-1), true
		case ops2 != nil && w[pos] == 3+n:
			l := pos
			pos++
			in, ok := expr(ops2, 2, 1)
			if !ok || pos >= len(w) || w[pos] != 4+n {
				return "", false
			}
			pos++
			return fmt.Sprintf("(r1 t%d %s t%d)", l, in, pos-1), true
		}
		return "", false
	}
	expr = func(tab []opInfo, rule int, minPrec int) (string, bool) {
		lhs, ok := atom(rule)
		if !ok {
			return "", false
		}
		for pos < len(w) && w[pos] >= 3 && w[pos] < 3+n {
			o := tab[w[pos]-3]
			if o.prec < minPrec {
				break
			}
			opPos := pos
			pos++
			next := o.prec + 1
			if o.right && !forceLeft {
				next = o.prec
			}
			rhs, ok := expr(tab, rule, next)
			if !ok {
				return "", false
			}
			lhs = fmt.Sprintf("(r%d %s t%d %s)", rule, lhs, opPos, rhs)
		}
		return lhs, true
	}
	t, ok := expr(ops, 1, 1)
	if !ok || pos != len(w) {
		return ""
	}
	return t
}

func init() {
	register("prec", "expression grammars over random operator tables, compiled, vs precedence climbing (C05)", func(c *Ctx) {
		root, err := os.MkdirTemp("", "verif-prec-")
		if err != nil {
			panic(err)
		}
		defer os.RemoveAll(root)
		WriteModule(root)
		n := c.N
		var specs []*GSpec
		var tabs, tabs2 [][]opInfo
		var names, loxs, gos []string
		for i := 0; i < n; i++ {
			ml, mo := 3, 2
			if c.Tier == "thorough" {
				ml, mo = 5, 3
			}
			s, ops := precSpec(c.Rng, ml, mo)
			var ops2 []opInfo
			if i%3 == 1 {
				// every third grammar has a second expression rule sharing the operator tokens at other levels
				s, ops, ops2 = precSpec2(c.Rng, ml, mo)
				c.Count("two-rule-tables")
			}
			name := fmt.Sprintf("e%04d", i)
			specs, tabs, tabs2 = append(specs, s), append(tabs, ops), append(tabs2, ops2)
			names, loxs, gos = append(names, name), append(loxs, s.Lox()), append(gos, s.GoSource(name))
		}
		pkgs := GenerateAll(root, names, loxs, gos, false)
		var ok []string
		for i, p := range pkgs {
			flat := strings.ReplaceAll(strings.TrimSpace(p.Lox), "\n", " ⏎ ")
			if !p.OK {
				note := "# prec rejected " + flat
				c.EmitO(note, note, "C04,C05: expression grammar whose every conflict is a one-rule S/R pair with explicit precedences was rejected: "+strings.ReplaceAll(strings.TrimSpace(p.Diag+p.Panic), "\n", " ⏎ ")+" | grammar: "+flat)
				continue
			}
			ok = append(ok, p.Name)
			_ = i
		}
		bin, err := BuildMux(root, ok)
		if err != nil {
			c.EmitO("# go build", "# build-failed", "C06: generated packages do not compile: "+strings.ReplaceAll(err.Error(), "\n", " ⏎ "))
			return
		}
		for i, p := range pkgs {
			if !p.OK {
				continue
			}
			s, ops, ops2 := specs[i], tabs[i], tabs2[i]
			flat := strings.ReplaceAll(strings.TrimSpace(p.Lox), "\n", " ⏎ ")
			hasRight := false
			for _, o := range ops {
				hasRight = hasRight || o.right
			}
			for _, o := range ops2 {
				hasRight = hasRight || o.right
			}
			if hasRight {
				c.Count("tables-with-@right")
			}
			tt := []int{p.Consts["EOF"], p.Consts["ERROR"]}
			for _, name := range s.Tokens {
				tt = append(tt, p.Consts[name])
			}
			// inputs: atom (op atom)^k for all operator sequences up to maxK, some with parentheses, random long chains
			maxK := 3
			if c.Tier == "thorough" {
				maxK = 4
			}
			var ins [][]int
			var rec func(cur []int, k int)
			rec = func(cur []int, k int) {
				ins = append(ins, append([]int(nil), cur...))
				if k == maxK || len(ins) > 1500 {
					return
				}
				for o := range ops {
					rec(append(append([]int(nil), cur...), 3+o, 0), k+1)
				}
			}
			rec([]int{0}, 0)
			for k := 0; k < 25; k++ {
				w := []int{0}
				l := 3 + c.Rng.Intn(8)
				for j := 0; j < l; j++ {
					w = append(w, 3+c.Rng.Intn(len(ops)))
					if c.Rng.Chance(1, 4) {
						w = append(w, 1, 0, 3+c.Rng.Intn(len(ops)), 0, 2)
					} else {
						w = append(w, 0)
					}
				}
				ins = append(ins, w)
			}
			if ops2 != nil {
				// the second rule inside brackets: LB TATOM (op TATOM)^k RB for all operator sequences, alone and as an operand
				nops := len(ops)
				lb, rb, ta := 3+nops, 4+nops, 5+nops
				var rec2 func(cur []int, k int)
				cnt := 0
				rec2 = func(cur []int, k int) {
					cnt++
					ins = append(ins, append(append([]int{lb}, cur...), rb))
					if k >= 2 {
						ins = append(ins, append(append([]int{0, 3 + c.Rng.Intn(nops), lb}, cur...), rb, 3+c.Rng.Intn(nops), 0))
					}
					if k == maxK || cnt > 1500 {
						return
					}
					for o := range ops {
						rec2(append(append([]int(nil), cur...), 3+o, ta), k+1)
					}
				}
				rec2([]int{ta}, 0)
				for k := 0; k < 15; k++ {
					w := []int{lb, ta}
					l := 3 + c.Rng.Intn(8)
					for j := 0; j < l; j++ {
						w = append(w, 3+c.Rng.Intn(nops), ta)
					}
					ins = append(ins, append(w, rb))
				}
			}
			var reqs []string
			for _, w := range ins {
				ty := make([]int, len(w))
				for j, x := range w {
					ty[j] = tt[2+x]
				}
				reqs = append(reqs, fmt.Sprintf("%s %d %s", p.Name, 4000, joinInts(ty)))
			}
			outs := RunMux(bin, reqs)
			for j, w := range ins {
				want := climb2(ops, ops2, w, false)
				got := ""
				evs := strings.Split(outs[j], " ; ")
				if strings.HasPrefix(evs[0], "acc") {
					for _, e := range evs[1:] {
						if strings.HasPrefix(e, "A ") {
							got = e[2:]
						}
					}
				}
				or := ""
				if got != want {
					if hasRight && got == climb2(ops, ops2, w, true) {
						or = "K1: @right groups left-to-right: want " + want + " got " + got
						c.Count("runs-explained-by-K1")
					} else {
						or = fmt.Sprintf("C05: grouping differs from precedence climbing: want %s got %s (output %s) | input %v | grammar: %s", want, got, outs[j], w, flat)
					}
				}
				c.Distinct(p.Lox + fmt.Sprint(w))
				note := fmt.Sprintf("# prec %s %v", p.Name, w)
				c.EmitO(note, note, or)
				c.Count("runs")
			}
		}
	})
}
