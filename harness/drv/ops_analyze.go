//go:build verif

package main

// Family analyze (property C17): well-formed specifications and single-fault variants of them through
// the REAL front end (parser.Parse per file, then ast.Context.Analyze with all passes), compared with
// the Lean model `Lox.Dec.Analyze.analyze` and judged by the property's own oracle.
//
// One case = one specification of 1..3 files rendered to .lox text. Case line:
//
//	dec.analyze <spec> | fault=<name> blame=<lo>-<hi>,<lo>-<hi>… files=<hex>;<hex>…
//
// Everything after the '|' is for this side only (replay re-runs the front end on the hex-encoded
// texts). <spec> is the AST in prefix notation with explicit counts; positions are
// 1000*fileIndex+line:
//
//	spec  := <#units> unit*
//	unit  := U <#stmts> stmt*
//	stmt  := lexrule | O <id> <line> <name> <#rules> lexrule* | P <id> <line> <0|1 start> <name> <#prods> prod*
//	lexrule := T <id> <line> <name> expr <#acts> act*   | F <id> <line> expr <#acts> act*
//	         | M <id> <line> <name> expr                | X <id> <line> <#names> (<line> <name>)*
//	expr  := <#alts> alt*        alt := <#terms> term*
//	term  := L <card> <line> <hex|-> <badEsc> | R <card> <line> <name> | D <card> <line>
//	       | C <card> class | S <card> class class | G <card> expr
//	class := <line> <0|1 neg> <badEsc> <#items> (<lo> <hi>)*
//	card  := 0 one | 1 ? | 2 * | 3 *? | 4 + | 5 +?
//	act   := d <line> | u <line> <mode> | o <line> | e <line> <name>
//	prod  := <line> <#terms> pterm* qual          qual := n | l <line> <prec> | r <line> <prec>
//	pterm := <pcard> atom                         pcard := - | * | ! | + | ?
//	atom  := N <line> <name> | A <line> <hex|-> <badEsc> | E <line> | I <line> atom atom
//
// Literals are the hexadecimal of their bytes after unescaping ('-' = empty).
//
// Answer (both sides): `wf=<0|1> ` then `accept` or the diagnostics in the order printed, each
// `kind@pos` or `kind(name)@pos` (literal names in hex). This side's wf is what the generator
// intended (1 = no fault injected); the Lean side prints its decision procedure `wellFormedB`.
// Info lines of the errlogger ("other X defined here", …) are dropped. `anKinds` is the ONE table
// from message text to kind; a message it does not know becomes `other:<text>`.
//
// Oracle column (the property statement evaluated on the implementation's answer):
//
//	C17: well-formed specification rejected …            (no fault injected, some diagnostic)
//	C17: ill-formed specification accepted (<fault>) …   (fault injected, no diagnostic)
//	C17: diagnostic outside the faulty declaration …     (fault lies in declarations, no diagnostic
//	                                                      is positioned inside any of them)
//	C17: front end panicked …
//
// Sub-family "overlap" (case lines start with '#', echoed by the Lean driver): two files whose
// default-mode rules overlap. By design this is an error ("Conflicting lexer actions"); the oracle
// asks for that diagnostic and no panic.

import (
	"bytes"
	"encoding/hex"
	"fmt"
	gotoken "go/token"
	"regexp"
	"sort"
	"strconv"
	"strings"
	"time"

	"github.com/dcaiafa/lox/internal/ast"
	"github.com/dcaiafa/lox/internal/base/errlogger"
	"github.com/dcaiafa/lox/internal/parser"
)

// ---------------------------------------------------------------------------------------------
// AST of the generator

type anPiece struct {
	Src string // as written between the quotes / brackets
	Val []byte // after unescaping
	Bad bool   // a \u / \U escape that is not a code point
}

type anClass struct {
	Line   int
	Neg    bool
	Items  [][2]int   // values
	Src    [][2]string // how lo and hi are written
	BadEsc int
}

type anTerm struct {
	Kind byte // L R D C S G
	Card int  // 0..5
	Line int
	Lit  []anPiece
	Name string
	C1   *anClass
	C2   *anClass
	Alts [][]*anTerm
}

type anAct struct {
	Kind byte // d u o e
	Line int
	Name string // u: mode ("" = default), e: token
}

type anExtName struct {
	Line int
	Name string
}

type anLexRule struct {
	Kind    byte // T F M X
	ID      int
	Line    int
	EndLine int
	Name    string
	Expr    [][]*anTerm
	Acts    []*anAct
	Names   []*anExtName
	inMode  *anMode // nil: default mode
	file    int
}

type anAtom struct {
	Kind byte // N A E I
	Line int
	Name string
	Lit  []anPiece
	Elem *anAtom
	Sep  *anAtom
}

type anPTerm struct {
	Card string // "" * *! + ?
	Atom *anAtom
}

type anQual struct {
	Line  int
	Right bool
	Prec  string
}

type anProd struct {
	Line  int
	Terms []*anPTerm // empty: @empty
	Qual  *anQual
}

type anPRule struct {
	ID      int
	Line    int
	EndLine int
	Start   bool
	Name    string
	Prods   []*anProd
}

type anMode struct {
	ID      int
	Line    int
	EndLine int
	Name    string
	Rules   []*anLexRule
	file    int
}

type anStmt struct {
	Lex   *anLexRule
	Mode  *anMode
	PRule *anPRule
}

type anSection struct {
	Parser bool
	Stmts  []*anStmt
}

type anFile struct {
	Sections []*anSection
}

type anSpec struct {
	Files []*anFile
}

// span of a declaration after rendering
type anDecl interface{ span() (int, int) }

func (r *anLexRule) span() (int, int) { return r.Line, r.EndLine }
func (r *anPRule) span() (int, int)   { return r.Line, r.EndLine }
func (m *anMode) span() (int, int)    { return m.Line, m.EndLine }

// ---------------------------------------------------------------------------------------------
// Rendering (assigns lines and ids) and encoding

type anW struct {
	sb      strings.Builder
	line    int
	file    int
	r       *Rng
	atStart bool
	nextID  *int
}

func (w *anW) pos() int { return w.file*1000 + w.line }

func (w *anW) nl() {
	w.sb.WriteString("\n")
	w.line++
	w.atStart = true
}

// tok writes one token, possibly after a line continuation, and returns its position.
func (w *anW) tok(s string) int {
	if !w.atStart {
		if w.r.Chance(1, 14) {
			w.sb.WriteString(" \\\n     ")
			w.line++
		} else {
			w.sb.WriteString(" ")
		}
	}
	p := w.pos()
	w.sb.WriteString(s)
	w.atStart = false
	return p
}

// glue writes a token directly after the previous one (no blank, no continuation).
func (w *anW) glue(s string) { w.sb.WriteString(s) }

// bar writes the '|' between alternatives; a '|' that starts a line continues the declaration.
func (w *anW) bar() {
	if w.r.Chance(1, 3) {
		w.sb.WriteString("\n    |")
		w.line++
	} else {
		w.sb.WriteString(" |")
	}
	w.atStart = false
}

func (w *anW) filler() {
	for w.r.Chance(1, 5) {
		if w.r.Bool() {
			w.sb.WriteString("// note")
		}
		w.nl()
	}
}

func (w *anW) id() int {
	*w.nextID++
	return *w.nextID
}

var anCardText = []string{"", "?", "*", "*?", "+", "+?"}

func piecesSrc(ps []anPiece) string {
	var sb strings.Builder
	for _, p := range ps {
		sb.WriteString(p.Src)
	}
	return sb.String()
}

func piecesVal(ps []anPiece) []byte {
	var b []byte
	for _, p := range ps {
		b = append(b, p.Val...)
	}
	return b
}

func piecesBad(ps []anPiece) int {
	n := 0
	for _, p := range ps {
		if p.Bad {
			n++
		}
	}
	return n
}

func (w *anW) class(c *anClass) {
	var sb strings.Builder
	if c.Neg {
		sb.WriteString("~")
	}
	sb.WriteString("[")
	for i, it := range c.Items {
		sb.WriteString(c.Src[i][0])
		if it[0] != it[1] || c.Src[i][1] != "" {
			sb.WriteString("-")
			sb.WriteString(c.Src[i][1])
		}
	}
	sb.WriteString("]")
	c.Line = w.tok(sb.String())
}

func (w *anW) term(t *anTerm) {
	switch t.Kind {
	case 'L':
		t.Line = w.tok("'" + piecesSrc(t.Lit) + "'")
	case 'R':
		t.Line = w.tok(t.Name)
	case 'D':
		t.Line = w.tok(".")
	case 'C':
		w.class(t.C1)
		t.Line = t.C1.Line
	case 'S':
		w.class(t.C1)
		t.Line = t.C1.Line
		w.tok("-")
		w.class(t.C2)
	case 'G':
		t.Line = w.tok("(")
		w.expr(t.Alts, false)
		w.tok(")")
	}
	if t.Card != 0 {
		w.glue(anCardText[t.Card])
	}
}

func (w *anW) expr(alts [][]*anTerm, top bool) {
	for i, alt := range alts {
		if i > 0 {
			if top {
				w.bar()
			} else {
				w.tok("|")
			}
		}
		for _, t := range alt {
			w.term(t)
		}
	}
}

func (w *anW) acts(as []*anAct) {
	for _, a := range as {
		switch a.Kind {
		case 'd':
			a.Line = w.tok("@discard")
		case 'u':
			a.Line = w.tok("@push_mode")
			w.glue("(" + a.Name + ")")
		case 'o':
			a.Line = w.tok("@pop_mode")
		case 'e':
			a.Line = w.tok("@emit")
			w.glue("(" + a.Name + ")")
		}
	}
}

func (w *anW) lexRule(r *anLexRule, indent string) {
	w.sb.WriteString(indent)
	w.atStart = true
	r.ID = w.id()
	switch r.Kind {
	case 'T':
		r.Line = w.tok(r.Name)
		w.tok("=")
		w.expr(r.Expr, true)
		w.acts(r.Acts)
	case 'F':
		r.Line = w.tok("@frag")
		w.expr(r.Expr, true)
		w.acts(r.Acts)
	case 'M':
		r.Line = w.tok("@macro")
		w.tok(r.Name)
		w.tok("=")
		w.expr(r.Expr, true)
	case 'X':
		r.Line = w.tok("@external")
		for _, n := range r.Names {
			n.Line = w.tok(n.Name)
		}
	}
	r.EndLine = w.pos()
	w.nl()
}

func (w *anW) atom(a *anAtom) {
	switch a.Kind {
	case 'N':
		a.Line = w.tok(a.Name)
	case 'A':
		a.Line = w.tok("'" + piecesSrc(a.Lit) + "'")
	case 'E':
		a.Line = w.tok("@error")
	case 'I':
		a.Line = w.tok("@list")
		w.glue("(")
		w.atStart = true
		w.atom(a.Elem)
		w.glue(",")
		w.atom(a.Sep)
		w.glue(")")
	}
}

func (w *anW) pRule(r *anPRule) {
	w.atStart = true
	r.ID = w.id()
	if r.Start {
		r.Line = w.tok("@start")
		w.tok(r.Name)
	} else {
		r.Line = w.tok(r.Name)
	}
	w.tok("=")
	for i, p := range r.Prods {
		if i > 0 {
			w.bar()
		}
		if len(p.Terms) == 0 {
			p.Line = w.tok("@empty")
			continue
		}
		for j, t := range p.Terms {
			w.atom(t.Atom)
			if j == 0 {
				p.Line = t.Atom.Line
			}
			if t.Card != "" {
				w.glue(t.Card)
			}
		}
		if p.Qual != nil {
			kw := "@left"
			if p.Qual.Right {
				kw = "@right"
			}
			p.Qual.Line = w.tok(kw)
			w.glue("(" + p.Qual.Prec + ")")
		}
	}
	r.EndLine = w.pos()
	w.nl()
}

// render writes the files, fills in all Line/EndLine/ID fields and returns the texts.
func (s *anSpec) render(r *Rng) []string {
	var out []string
	id := 0
	for fi, f := range s.Files {
		w := &anW{file: fi, line: 1, r: r, atStart: true, nextID: &id}
		w.filler()
		for _, sec := range f.Sections {
			if sec.Parser {
				w.sb.WriteString("@parser")
			} else {
				w.sb.WriteString("@lexer")
			}
			w.nl()
			w.filler()
			for _, st := range sec.Stmts {
				switch {
				case st.Lex != nil:
					w.lexRule(st.Lex, "")
				case st.Mode != nil:
					m := st.Mode
					m.ID = w.id()
					w.atStart = true
					m.Line = w.pos()
					w.sb.WriteString("@mode " + m.Name + " {")
					w.nl()
					for _, lr := range m.Rules {
						w.lexRule(lr, "  ")
						if w.r.Chance(1, 8) {
							w.nl()
						}
					}
					m.EndLine = w.pos()
					w.sb.WriteString("}")
					w.nl()
				case st.PRule != nil:
					w.pRule(st.PRule)
				}
				w.filler()
			}
		}
		out = append(out, w.sb.String())
	}
	return out
}

func hexOrDash(b []byte) string {
	if len(b) == 0 {
		return "-"
	}
	return hex.EncodeToString(b)
}

type anEnc struct{ t []string }

func (e *anEnc) a(xs ...any) {
	for _, x := range xs {
		e.t = append(e.t, fmt.Sprint(x))
	}
}

func b01(b bool) int {
	if b {
		return 1
	}
	return 0
}

func (e *anEnc) class(c *anClass) {
	e.a(c.Line, b01(c.Neg), c.BadEsc, len(c.Items))
	for _, it := range c.Items {
		e.a(it[0], it[1])
	}
}

func (e *anEnc) expr(alts [][]*anTerm) {
	e.a(len(alts))
	for _, alt := range alts {
		e.a(len(alt))
		for _, t := range alt {
			switch t.Kind {
			case 'L':
				e.a("L", t.Card, t.Line, hexOrDash(piecesVal(t.Lit)), piecesBad(t.Lit))
			case 'R':
				e.a("R", t.Card, t.Line, t.Name)
			case 'D':
				e.a("D", t.Card, t.Line)
			case 'C':
				e.a("C", t.Card)
				e.class(t.C1)
			case 'S':
				e.a("S", t.Card)
				e.class(t.C1)
				e.class(t.C2)
			case 'G':
				e.a("G", t.Card)
				e.expr(t.Alts)
			}
		}
	}
}

func (e *anEnc) acts(as []*anAct) {
	e.a(len(as))
	for _, a := range as {
		switch a.Kind {
		case 'd':
			e.a("d", a.Line)
		case 'u':
			n := a.Name
			if n == "" {
				n = ast.DefaultModeName
			}
			e.a("u", a.Line, n)
		case 'o':
			e.a("o", a.Line)
		case 'e':
			e.a("e", a.Line, a.Name)
		}
	}
}

func (e *anEnc) lexRule(r *anLexRule) {
	switch r.Kind {
	case 'T':
		e.a("T", r.ID, r.Line, r.Name)
		e.expr(r.Expr)
		e.acts(r.Acts)
	case 'F':
		e.a("F", r.ID, r.Line)
		e.expr(r.Expr)
		e.acts(r.Acts)
	case 'M':
		e.a("M", r.ID, r.Line, r.Name)
		e.expr(r.Expr)
	case 'X':
		e.a("X", r.ID, r.Line, len(r.Names))
		for _, n := range r.Names {
			e.a(n.Line, n.Name)
		}
	}
}

func (e *anEnc) atom(a *anAtom) {
	switch a.Kind {
	case 'N':
		e.a("N", a.Line, a.Name)
	case 'A':
		e.a("A", a.Line, hexOrDash(piecesVal(a.Lit)), piecesBad(a.Lit))
	case 'E':
		e.a("E", a.Line)
	case 'I':
		e.a("I", a.Line)
		e.atom(a.Elem)
		e.atom(a.Sep)
	}
}

func (s *anSpec) encode() string {
	e := &anEnc{}
	e.a(len(s.Files))
	for _, f := range s.Files {
		n := 0
		for _, sec := range f.Sections {
			n += len(sec.Stmts)
		}
		e.a("U", n)
		for _, sec := range f.Sections {
			for _, st := range sec.Stmts {
				switch {
				case st.Lex != nil:
					e.lexRule(st.Lex)
				case st.Mode != nil:
					e.a("O", st.Mode.ID, st.Mode.Line, st.Mode.Name, len(st.Mode.Rules))
					for _, r := range st.Mode.Rules {
						e.lexRule(r)
					}
				case st.PRule != nil:
					r := st.PRule
					e.a("P", r.ID, r.Line, b01(r.Start), r.Name, len(r.Prods))
					for _, p := range r.Prods {
						e.a(p.Line, len(p.Terms))
						for _, t := range p.Terms {
							c := t.Card
							switch c {
							case "":
								c = "-"
							case "*!":
								c = "!"
							}
							e.a(c)
							e.atom(t.Atom)
						}
						if p.Qual == nil {
							e.a("n")
						} else if p.Qual.Right {
							e.a("r", p.Qual.Line, p.Qual.Prec)
						} else {
							e.a("l", p.Qual.Line, p.Qual.Prec)
						}
					}
				}
			}
		}
	}
	return strings.Join(e.t, " ")
}

// ---------------------------------------------------------------------------------------------
// The real front end

// anKinds: message text -> kind. A capture group is the name; `lit` marks literal names (hex).
var anKinds = []struct {
	re   *regexp.Regexp
	kind string
	lit  bool
}{
	{regexp.MustCompile(`^escape sequence is not a valid Unicode code point$`), "badEscape", false},
	{regexp.MustCompile(`^precedence must be a positive integer$`), "badPrecedence", false},
	{regexp.MustCompile(`^@list term can only use the zero-or-more '\?' cardinality$`), "listCard", false},
	{regexp.MustCompile(`^name must be all uppercase, must start with a letter which may be followed by letters, numbers and underscore; it cannot end in a underscore and it cannot have more than one consecutive underscore$`), "nameInvalid", false},
	{regexp.MustCompile(`^sorry, "(.*)" is a reserved name$`), "nameReserved", false},
	{regexp.MustCompile(`^rule name cannot contain consecutive underscores: (.*)$`), "ruleNameInvalid", false},
	{regexp.MustCompile(`^@start redefined: (.*)$`), "startRedefined", false},
	{regexp.MustCompile(`^(.*) redefined$`), "redefined", false},
	{regexp.MustCompile(`^literal cannot be empty$`), "emptyLiteral", false},
	{regexp.MustCompile(`^undefined: (.*)$`), "undefined", false},
	{regexp.MustCompile(`^term is not a macro: (.*)$`), "notMacro", false},
	{regexp.MustCompile(`^invalid character range: lower bound is above upper bound$`), "reversedRange", false},
	{regexp.MustCompile(`^undefined mode: (.*)$`), "undefinedMode", false},
	{regexp.MustCompile(`^not a token: (.*)$`), "notToken", false},
	{regexp.MustCompile(`^(.*) is not a parser or token rule$`), "notRuleOrToken", false},
	{regexp.MustCompile(`^unknown token literal: '(.*)'$`), "unknownLiteral", true},
	{regexp.MustCompile(`^ambiguous token literal: '(.*)'$`), "ambiguousLiteral", true},
	{regexp.MustCompile(`^@list entry param must be a simple token or rule$`), "listEntryNotSimple", false},
	{regexp.MustCompile(`^@list separator param must be a simple token or rule$`), "listSepNotSimple", false},
	{regexp.MustCompile(`^macro cycle detected$`), "macroCycle", false},
	{regexp.MustCompile(`^tokens cannot be discarded; use @frag instead$`), "tokenDiscard", false},
	{regexp.MustCompile(`^@emit is not allowed in token actions$`), "tokenEmit", false},
	{regexp.MustCompile(`^@frag can only have one @discard action$`), "fragTwoDiscard", false},
	{regexp.MustCompile(`^@frag can only have one @emit action$`), "fragTwoEmit", false},
	{regexp.MustCompile(`^@frag cannot be discarded and emitted at the same time$`), "fragDiscardAndEmit", false},
	{regexp.MustCompile(`^@start rule undefined$`), "startUndefined", false},
	{regexp.MustCompile(`^Conflicting lexer actions: .*$`), "conflict", false},
}

// errs.Infof lines (same format as errors): dropped.
var anInfo = []*regexp.Regexp{
	regexp.MustCompile(`^other .* defined here$`),
	regexp.MustCompile(`^@start previously defined: .*$`),
	regexp.MustCompile(`^Conflicts with other action: .*$`),
}

var anPosRe = regexp.MustCompile(`^([a-z])\.lox:(\d+):(\d+): (.*)$`)

type anDiag struct {
	Kind string
	Name string
	Pos  int
}

func (d anDiag) String() string {
	if d.Name != "" {
		return fmt.Sprintf("%s(%s)@%d", d.Kind, d.Name, d.Pos)
	}
	return fmt.Sprintf("%s@%d", d.Kind, d.Pos)
}

func anParseOutput(out string) []anDiag {
	var ds []anDiag
	for _, line := range strings.Split(out, "\n") {
		if line == "" {
			continue
		}
		pos, msg := 0, line
		if m := anPosRe.FindStringSubmatch(line); m != nil {
			l, _ := strconv.Atoi(m[2])
			pos = int(m[1][0]-'a')*1000 + l
			msg = m[4]
		}
		info := false
		for _, re := range anInfo {
			if re.MatchString(msg) {
				info = true
			}
		}
		if info {
			continue
		}
		d := anDiag{Kind: "other:" + strings.ReplaceAll(msg, " ", "_"), Pos: pos}
		for _, k := range anKinds {
			if m := k.re.FindStringSubmatch(msg); m != nil {
				d.Kind = k.kind
				if len(m) > 1 {
					d.Name = m[1]
					if k.lit {
						d.Name = hex.EncodeToString([]byte(m[1]))
					}
				}
				break
			}
		}
		ds = append(ds, d)
	}
	return ds
}

// anRunFront mirrors codegen.ParseLox up to Context.Analyze: one Unit per file (named a.lox,
// b.lox, …), the first file with a parse error ends the run.
func anRunFront(texts []string) (out string, panicMsg string) {
	fset := gotoken.NewFileSet()
	var buf bytes.Buffer
	errs := errlogger.New(fset, &buf)
	defer func() {
		if e := recover(); e != nil {
			out = buf.String()
			panicMsg = strings.ReplaceAll(fmt.Sprint(e), "\n", " ")
		}
	}()
	spec := new(ast.Spec)
	for i, t := range texts {
		data := []byte(t)
		file := fset.AddFile(string(rune('a'+i))+".lox", -1, len(data))
		unit := parser.Parse(file, data, errs)
		if errs.HasError() {
			return buf.String(), ""
		}
		spec.Units = append(spec.Units, unit)
	}
	ctx := ast.NewContext(fset, errs)
	ctx.Analyze(spec, ast.AllPasses)
	return buf.String(), ""
}

func anShow(ds []anDiag) string {
	if len(ds) == 0 {
		return "accept"
	}
	parts := make([]string, len(ds))
	for i, d := range ds {
		parts[i] = d.String()
	}
	return strings.Join(parts, " ")
}

// ---------------------------------------------------------------------------------------------
// Generator of well-formed specifications

func anShuffle(r *Rng, n int, swap func(i, j int)) {
	for i := n - 1; i > 0; i-- {
		swap(i, r.Intn(i+1))
	}
}

type anGen struct {
	r      *Rng
	spec   *anSpec
	tokens []*anLexRule
	macros []*anLexRule // macro i only mentions macros j < i
	frags  []*anLexRule
	exts   []*anLexRule
	modes  []*anMode
	rules  []*anPRule
	used   map[string]bool
}

// first characters of default-mode rules, per file: keeps the files' default-mode languages disjoint
var anPrefix = [][]rune{
	{'a', 'b', 'c', '+', '('},
	{'d', 'e', 'f', '-', ')'},
	{'g', 'h', 'i', '*', ','},
}

var anTokenNames = []string{"A", "B", "C", "D", "NUM", "ID", "PLUS", "MINUS", "T1", "T2", "T3", "TOK_A", "X_1", "IF", "ELSE", "LP", "RP", "COMMA", "K9", "Z_Z_Z"}
var anMacroNames = []string{"DIGIT", "HEX", "M1", "M2", "ALPHA", "M_X", "MM", "Q0"}
var anModeNames = []string{"Str", "Alt", "m1", "Inner", "Eof", "x__y", "M_", "Cls", "lower_"}
var anRuleNames = []string{"s", "expr", "term", "list", "r1", "r2", "item", "Rule", "a_b", "stmt", "Tail_", "x9"}
var anExtNames = []string{"EXT1", "EXT2", "XA", "XB", "NL", "INDENT"}

func (g *anGen) fresh(pool []string) string {
	for try := 0; try < 50; try++ {
		n := Pick(g.r, pool)
		if !g.used[n] {
			g.used[n] = true
			return n
		}
	}
	for i := 0; ; i++ {
		n := fmt.Sprintf("%s%d", pool[0], i)
		if !g.used[n] {
			g.used[n] = true
			return n
		}
	}
}

var anPlain = []rune("abcdefghijklmnopqrstuvwxyzABCXYZ0123456789+-*/(){}[]<>=!&,;:. _")

func anRunePiece(r *Rng, c rune) anPiece {
	val := []byte(string(c))
	switch {
	case c == '\'':
		return anPiece{Src: `\'`, Val: val}
	case c == '\\':
		return anPiece{Src: `\\`, Val: val}
	case c == '\n':
		return anPiece{Src: `\n`, Val: val}
	case c == '\t':
		return anPiece{Src: `\t`, Val: val}
	case c < 0x80 && c >= 0x20 && r.Chance(1, 12):
		return anPiece{Src: fmt.Sprintf(`\x%02X`, c), Val: val}
	case c >= 0x80 && c <= 0xFFFF && r.Bool():
		return anPiece{Src: fmt.Sprintf(`\u%04X`, c), Val: val}
	case c > 0xFFFF && r.Bool():
		return anPiece{Src: fmt.Sprintf(`\U%08X`, c), Val: val}
	}
	return anPiece{Src: string(c), Val: val}
}

var anExotic = []rune{'é', 'ß', '世', 0x1F600, 0x7F, '\t', '\\', '\''}

func (g *anGen) litPieces(first rune, minLen int) []anPiece {
	var ps []anPiece
	if first != 0 {
		ps = append(ps, anRunePiece(g.r, first))
	}
	n := minLen + g.r.Intn(3)
	for len(ps) < n || len(ps) == 0 {
		c := Pick(g.r, anPlain)
		if g.r.Chance(1, 10) {
			c = Pick(g.r, anExotic)
		}
		ps = append(ps, anRunePiece(g.r, c))
	}
	return ps
}

func anClassChar(r *Rng, c rune) string {
	switch {
	case c == '-':
		return `\-`
	case c == '\\':
		return `\\`
	case c == ']' || c == '\n' || c < 0x20 || c == 0x7F:
		return fmt.Sprintf(`\x%02X`, c)
	case c >= 0x80 && c <= 0xFFFF && r.Bool():
		return fmt.Sprintf(`\u%04X`, c)
	case c > 0xFFFF && r.Bool():
		return fmt.Sprintf(`\U%08X`, c)
	}
	return string(c)
}

var anClassRunes = []rune{0, 9, ' ', '0', '9', 'A', 'Z', '_', 'a', 'm', 'z', '~', 0x7F, 0x80, 0xE9, 0x7FF, 0x800, 0xD7FF, 0xE000, 0xFFFD, 0xFFFF, 0x10000, 0x10FFFF, ']', '-', '\\'}

func (g *anGen) class(only []rune) *anClass {
	c := &anClass{}
	n := 1 + g.r.Intn(3)
	for i := 0; i < n; i++ {
		var lo, hi rune
		if only != nil {
			lo = Pick(g.r, only)
			hi = lo
		} else {
			lo, hi = Pick(g.r, anClassRunes), Pick(g.r, anClassRunes)
			if lo > hi {
				lo, hi = hi, lo
			}
			if g.r.Bool() {
				hi = lo
			}
		}
		c.Items = append(c.Items, [2]int{int(lo), int(hi)})
		src := [2]string{anClassChar(g.r, lo), ""}
		if hi != lo {
			src[1] = anClassChar(g.r, hi)
		}
		c.Src = append(c.Src, src)
	}
	if only == nil {
		c.Neg = g.r.Chance(1, 4)
	}
	return c
}

// term generates one lexer term; nMac: macros 0..nMac-1 may be mentioned. Repetition is kept to
// literals and small classes so that the DFAs the front end builds for accepted specifications stay
// small (this family is about the analysis, not about the automata).
func (g *anGen) term(depth, nMac int) *anTerm {
	t := &anTerm{}
	loop := false
	k := g.r.Intn(10)
	switch {
	case k < 3:
		t.Kind = 'L'
		t.Lit = g.litPieces(0, 1)
		loop = true
	case k < 5:
		t.Kind = 'C'
		t.C1 = g.class(nil)
		loop = !t.C1.Neg && len(t.C1.Items) == 1 && t.C1.Items[0][1]-t.C1.Items[0][0] < 100
	case k == 5:
		t.Kind = 'S'
		t.C1 = g.class(nil)
		t.C2 = g.class(nil)
	case k == 6:
		t.Kind = 'D'
	case k < 9 && nMac > 0:
		t.Kind = 'R'
		t.Name = g.macros[g.r.Intn(nMac)].Name
	case depth < 1:
		t.Kind = 'G'
		t.Alts = g.expr(depth+1, nMac, nil)
	default:
		t.Kind = 'L'
		t.Lit = g.litPieces(0, 1)
		loop = true
	}
	if g.r.Chance(2, 5) {
		if loop {
			t.Card = 1 + g.r.Intn(5)
		} else {
			t.Card = 1
		}
	}
	return t
}

// expr generates alternatives; prefix != nil: every alternative starts with a term (cardinality
// one) that only matches texts starting with one of these characters.
func (g *anGen) expr(depth, nMac int, prefix []rune) [][]*anTerm {
	var alts [][]*anTerm
	na := 1
	if g.r.Chance(1, 3) {
		na = 2 + g.r.Intn(2)
	}
	for i := 0; i < na; i++ {
		var alt []*anTerm
		if prefix != nil {
			if g.r.Chance(1, 4) {
				alt = append(alt, &anTerm{Kind: 'C', C1: g.class(prefix)})
			} else {
				alt = append(alt, &anTerm{Kind: 'L', Lit: g.litPieces(Pick(g.r, prefix), 1)})
			}
		}
		n := g.r.Intn(3)
		if prefix == nil {
			n++
		}
		if depth > 0 && n > 2 {
			n = 2
		}
		for j := 0; j < n; j++ {
			alt = append(alt, g.term(depth, nMac))
		}
		alts = append(alts, alt)
	}
	return alts
}

func (g *anGen) modeActs(allowPop bool) []*anAct {
	var as []*anAct
	for g.r.Chance(1, 3) && len(as) < 3 {
		switch g.r.Intn(3) {
		case 0:
			if len(g.modes) > 0 {
				as = append(as, &anAct{Kind: 'u', Name: Pick(g.r, g.modes).Name})
			}
		case 1:
			as = append(as, &anAct{Kind: 'u', Name: ""})
		case 2:
			as = append(as, &anAct{Kind: 'o'})
		}
	}
	return as
}

// aliasOf: the literal a token is known by in the parser section ("" = none).
func aliasOf(r *anLexRule) (string, bool) {
	if r.Kind == 'T' && len(r.Expr) == 1 && len(r.Expr[0]) == 1 && r.Expr[0][0].Kind == 'L' && r.Expr[0][0].Card == 0 {
		return string(piecesVal(r.Expr[0][0].Lit)), true
	}
	return "", false
}

func (g *anGen) aliasCount(lit string) int {
	n := 0
	for _, t := range g.tokens {
		if a, ok := aliasOf(t); ok && a == lit {
			n++
		}
	}
	return n
}

// literal safe to print in a diagnostic line
func anSafeAlias(ps []anPiece) bool {
	for _, b := range piecesVal(ps) {
		if b < 0x20 || b == 0x7F {
			return false
		}
	}
	return true
}

func (g *anGen) simpleAtom() *anAtom {
	for try := 0; try < 20; try++ {
		switch g.r.Intn(7) {
		case 0, 1:
			if len(g.tokens) > 0 {
				return &anAtom{Kind: 'N', Name: Pick(g.r, g.tokens).Name}
			}
		case 2, 3:
			if len(g.tokens) > 0 {
				t := Pick(g.r, g.tokens)
				if a, ok := aliasOf(t); ok && g.aliasCount(a) == 1 && anSafeAlias(t.Expr[0][0].Lit) {
					// the same text, possibly spelled with other escapes
					var ps []anPiece
					for _, c := range a {
						ps = append(ps, anRunePiece(g.r, c))
					}
					if string(piecesVal(ps)) != a {
						ps = t.Expr[0][0].Lit
					}
					return &anAtom{Kind: 'A', Lit: ps}
				}
			}
		case 4, 5:
			if len(g.rules) > 0 {
				return &anAtom{Kind: 'N', Name: Pick(g.r, g.rules).Name}
			}
		case 6:
			if len(g.exts) > 0 {
				return &anAtom{Kind: 'N', Name: Pick(g.r, Pick(g.r, g.exts).Names).Name}
			}
		}
	}
	return &anAtom{Kind: 'E'}
}

func (g *anGen) pterm() *anPTerm {
	t := &anPTerm{}
	switch g.r.Intn(8) {
	case 0:
		t.Atom = &anAtom{Kind: 'E'}
		if g.r.Chance(1, 3) {
			t.Card = Pick(g.r, []string{"?", "*"})
		}
	case 1:
		t.Atom = &anAtom{Kind: 'I', Elem: g.simpleAtom(), Sep: g.simpleAtom()}
		if t.Atom.Elem.Kind == 'E' || t.Atom.Sep.Kind == 'E' {
			t.Atom = &anAtom{Kind: 'E'}
		} else if g.r.Bool() {
			t.Card = "?"
		}
	default:
		t.Atom = g.simpleAtom()
		if g.r.Chance(1, 3) {
			t.Card = Pick(g.r, []string{"*", "*!", "+", "?"})
		}
	}
	return t
}

func anGenSpec(r *Rng) *anGen {
	g := &anGen{r: r, spec: &anSpec{}, used: map[string]bool{}}
	nFiles := Pick(r, []int{1, 1, 2, 2, 3})
	for i := 0; i < nFiles; i++ {
		g.spec.Files = append(g.spec.Files, &anFile{})
	}
	// modes, each in one file
	for i, n := 0, r.Intn(4); i < n; i++ {
		g.modes = append(g.modes, &anMode{Name: g.fresh(anModeNames), file: r.Intn(nFiles)})
	}
	place := func(lr *anLexRule) {
		if len(g.modes) > 0 && r.Chance(2, 5) {
			lr.inMode = Pick(r, g.modes)
			lr.file = lr.inMode.file
		} else {
			lr.file = r.Intn(nFiles)
		}
	}
	prefixOf := func(lr *anLexRule) []rune {
		if lr.inMode == nil {
			return anPrefix[lr.file]
		}
		return nil
	}
	// macros
	for i, n := 0, r.Intn(5); i < n; i++ {
		m := &anLexRule{Kind: 'M', Name: g.fresh(anMacroNames)}
		place(m)
		m.Expr = g.expr(0, i, nil)
		g.macros = append(g.macros, m)
	}
	nMac := len(g.macros)
	if nMac > 1 && r.Bool() {
		nMac-- // the last macro stays unused by tokens and fragments
	}
	// tokens
	for i, n := 0, 2+r.Intn(6); i < n; i++ {
		t := &anLexRule{Kind: 'T', Name: g.fresh(anTokenNames)}
		place(t)
		if r.Bool() {
			var first rune
			if p := prefixOf(t); p != nil {
				first = Pick(r, p)
			}
			t.Expr = [][]*anTerm{{{Kind: 'L', Lit: g.litPieces(first, 1)}}}
			// now and then the same literal as another token of another mode (legal while the
			// parser does not use the literal)
			if t.inMode != nil && len(g.tokens) > 0 && r.Chance(1, 4) {
				o := Pick(r, g.tokens)
				if _, ok := aliasOf(o); ok && o.inMode != t.inMode {
					t.Expr = [][]*anTerm{{{Kind: 'L', Lit: o.Expr[0][0].Lit}}}
				}
			}
		} else {
			t.Expr = g.expr(0, nMac, prefixOf(t))
		}
		g.tokens = append(g.tokens, t)
	}
	// externals
	for i, n := 0, r.Intn(3); i < n; i++ {
		x := &anLexRule{Kind: 'X'}
		place(x)
		for j, k := 0, 1+r.Intn(3); j < k; j++ {
			x.Names = append(x.Names, &anExtName{Name: g.fresh(anExtNames)})
		}
		g.exts = append(g.exts, x)
	}
	for _, t := range g.tokens {
		t.Acts = g.modeActs(true)
	}
	// fragments
	for i, n := 0, 1+r.Intn(4); i < n; i++ {
		f := &anLexRule{Kind: 'F'}
		place(f)
		f.Expr = g.expr(0, nMac, prefixOf(f))
		f.Acts = g.modeActs(true)
		switch r.Intn(4) {
		case 0:
			f.Acts = append(f.Acts, &anAct{Kind: 'd'})
		case 1:
			if r.Bool() || len(g.exts) == 0 {
				f.Acts = append(f.Acts, &anAct{Kind: 'e', Name: Pick(r, g.tokens).Name})
			} else {
				f.Acts = append(f.Acts, &anAct{Kind: 'e', Name: Pick(r, Pick(r, g.exts).Names).Name})
			}
		}
		anShuffle(r, len(f.Acts), func(i, j int) { f.Acts[i], f.Acts[j] = f.Acts[j], f.Acts[i] })
		g.frags = append(g.frags, f)
	}
	// parser rules
	if r.Chance(5, 6) {
		for i, n := 0, 1+r.Intn(5); i < n; i++ {
			g.rules = append(g.rules, &anPRule{Name: g.fresh(anRuleNames)})
		}
		for _, pr := range g.rules {
			for i, n := 0, 1+r.Intn(3); i < n; i++ {
				p := &anProd{}
				if !(i > 0 && r.Chance(1, 5)) {
					for j, k := 0, 1+r.Intn(4); j < k; j++ {
						p.Terms = append(p.Terms, g.pterm())
					}
					if r.Chance(1, 4) {
						p.Qual = &anQual{Right: r.Bool(), Prec: strconv.Itoa(1 + r.Intn(9))}
						if r.Chance(1, 8) {
							p.Qual.Prec = "9223372036854775807"
						}
					}
				}
				pr.Prods = append(pr.Prods, p)
			}
		}
		Pick(r, g.rules).Start = true
	}
	// layout
	var all []*anLexRule
	all = append(all, g.macros...)
	all = append(all, g.tokens...)
	all = append(all, g.exts...)
	all = append(all, g.frags...)
	anShuffle(r, len(all), func(i, j int) { all[i], all[j] = all[j], all[i] })
	perFile := make([][]*anStmt, nFiles)
	for _, m := range g.modes {
		perFile[m.file] = append(perFile[m.file], &anStmt{Mode: m})
	}
	for _, lr := range all {
		if lr.inMode != nil {
			lr.inMode.Rules = append(lr.inMode.Rules, lr)
		} else {
			perFile[lr.file] = append(perFile[lr.file], &anStmt{Lex: lr})
		}
	}
	pPerFile := make([][]*anStmt, nFiles)
	for _, pr := range g.rules {
		f := r.Intn(nFiles)
		pPerFile[f] = append(pPerFile[f], &anStmt{PRule: pr})
	}
	for fi, f := range g.spec.Files {
		ls := perFile[fi]
		anShuffle(r, len(ls), func(i, j int) { ls[i], ls[j] = ls[j], ls[i] })
		ps := pPerFile[fi]
		var secs []*anSection
		split := func(stmts []*anStmt, parser bool) {
			if len(stmts) == 0 {
				if r.Chance(1, 6) {
					secs = append(secs, &anSection{Parser: parser})
				}
				return
			}
			k := len(stmts)
			if k > 1 && r.Chance(1, 3) {
				k = 1 + r.Intn(len(stmts)-1)
			}
			secs = append(secs, &anSection{Parser: parser, Stmts: append([]*anStmt{}, stmts[:k]...)})
			if k < len(stmts) {
				secs = append(secs, &anSection{Parser: parser, Stmts: append([]*anStmt{}, stmts[k:]...)})
			}
		}
		split(ls, false)
		split(ps, true)
		anShuffle(r, len(secs), func(i, j int) { secs[i], secs[j] = secs[j], secs[i] })
		f.Sections = secs
	}
	return g
}

// ---------------------------------------------------------------------------------------------
// Fault injectors. Each mutates the generated specification at a random applicable site and
// returns the declarations in which the fault lies (nil: the specification as a whole), or
// ok=false when the specification offers no site.

type anFault struct {
	name  string
	apply func(g *anGen) (blame []anDecl, ok bool)
}

func (g *anGen) allLex() []*anLexRule {
	var out []*anLexRule
	out = append(out, g.tokens...)
	out = append(out, g.frags...)
	out = append(out, g.macros...)
	out = append(out, g.exts...)
	return out
}

// lexSection returns a lexer section of file fi (created when there is none).
func (g *anGen) lexSection(fi int, parser bool) *anSection {
	f := g.spec.Files[fi]
	var cands []*anSection
	for _, s := range f.Sections {
		if s.Parser == parser {
			cands = append(cands, s)
		}
	}
	if len(cands) == 0 {
		s := &anSection{Parser: parser}
		at := g.r.Intn(len(f.Sections) + 1)
		f.Sections = append(f.Sections[:at], append([]*anSection{s}, f.Sections[at:]...)...)
		return s
	}
	return Pick(g.r, cands)
}

func insertStmt(s *anSection, st *anStmt, at int) {
	s.Stmts = append(s.Stmts[:at], append([]*anStmt{st}, s.Stmts[at:]...)...)
}

// addLexRule puts a new rule at a random place: any file, any lexer section, or inside any mode.
// Its expression is built by mk from the prefix characters its place demands.
func (g *anGen) addLexRule(lr *anLexRule, mk func(prefix []rune)) {
	if len(g.modes) > 0 && g.r.Chance(2, 5) {
		m := Pick(g.r, g.modes)
		lr.inMode, lr.file = m, m.file
		if mk != nil {
			mk(nil)
		}
		at := g.r.Intn(len(m.Rules) + 1)
		m.Rules = append(m.Rules[:at], append([]*anLexRule{lr}, m.Rules[at:]...)...)
		return
	}
	lr.file = g.r.Intn(len(g.spec.Files))
	if mk != nil {
		mk(anPrefix[lr.file])
	}
	s := g.lexSection(lr.file, false)
	insertStmt(s, &anStmt{Lex: lr}, g.r.Intn(len(s.Stmts)+1))
}

func (g *anGen) addPRule(pr *anPRule) {
	fi := g.r.Intn(len(g.spec.Files))
	s := g.lexSection(fi, true)
	insertStmt(s, &anStmt{PRule: pr}, g.r.Intn(len(s.Stmts)+1))
	g.rules = append(g.rules, pr)
}

func (g *anGen) declaredNames() (names []string, owner map[string]anDecl) {
	owner = map[string]anDecl{}
	for _, t := range g.tokens {
		names, owner[t.Name] = append(names, t.Name), t
	}
	for _, m := range g.macros {
		names, owner[m.Name] = append(names, m.Name), m
	}
	for _, x := range g.exts {
		for _, n := range x.Names {
			names, owner[n.Name] = append(names, n.Name), x
		}
	}
	for _, m := range g.modes {
		names, owner[m.Name] = append(names, m.Name), m
	}
	for _, r := range g.rules {
		names, owner[r.Name] = append(names, r.Name), r
	}
	return
}

func (g *anGen) undefinedName(upper bool) string {
	for i := 0; ; i++ {
		n := fmt.Sprintf("nowhere%d", i)
		if upper {
			n = fmt.Sprintf("NOWHERE%d", i)
		}
		if !g.used[n] {
			return n
		}
	}
}

// exprTerms lists all terms of an expression with the slice that holds them.
func anWalk(alts [][]*anTerm, f func(t *anTerm)) {
	for _, alt := range alts {
		for _, t := range alt {
			f(t)
			if t.Kind == 'G' {
				anWalk(t.Alts, f)
			}
		}
	}
}

func (g *anGen) rulesWithExpr() []*anLexRule {
	var out []*anLexRule
	out = append(out, g.tokens...)
	out = append(out, g.frags...)
	out = append(out, g.macros...)
	return out
}

// appendTerm adds a term at the end of a random alternative (possibly inside a group).
func (g *anGen) appendTerm(lr *anLexRule, t *anTerm) {
	var holders []*[]*anTerm
	var rec func(alts [][]*anTerm)
	rec = func(alts [][]*anTerm) {
		for i := range alts {
			holders = append(holders, &alts[i])
			for _, x := range alts[i] {
				if x.Kind == 'G' {
					rec(x.Alts)
				}
			}
		}
	}
	rec(lr.Expr)
	h := Pick(g.r, holders)
	*h = append(*h, t)
}

func (g *anGen) atoms(pred func(a *anAtom) bool) (out []*anAtom, owner map[*anAtom]*anPRule) {
	owner = map[*anAtom]*anPRule{}
	var rec func(a *anAtom, pr *anPRule)
	rec = func(a *anAtom, pr *anPRule) {
		if pred(a) {
			out = append(out, a)
			owner[a] = pr
		}
		if a.Kind == 'I' {
			rec(a.Elem, pr)
			rec(a.Sep, pr)
		}
	}
	for _, pr := range g.rules {
		for _, p := range pr.Prods {
			for _, t := range p.Terms {
				rec(t.Atom, pr)
			}
		}
	}
	return
}

func (g *anGen) prodsWithTerms() (out []*anProd, owner map[*anProd]*anPRule) {
	owner = map[*anProd]*anPRule{}
	for _, pr := range g.rules {
		for _, p := range pr.Prods {
			if len(p.Terms) > 0 {
				out = append(out, p)
				owner[p] = pr
			}
		}
	}
	return
}

// macroReaches: does macro a mention (transitively, or is) macro b?
func (g *anGen) macroReaches(a, b *anLexRule) bool {
	if a == b {
		return true
	}
	byName := map[string]*anLexRule{}
	for _, m := range g.macros {
		byName[m.Name] = m
	}
	seen := map[*anLexRule]bool{}
	var rec func(m *anLexRule) bool
	rec = func(m *anLexRule) bool {
		if m == b {
			return true
		}
		if seen[m] {
			return false
		}
		seen[m] = true
		found := false
		anWalk(m.Expr, func(t *anTerm) {
			if t.Kind == 'R' && byName[t.Name] != nil && rec(byName[t.Name]) {
				found = true
			}
		})
		return found
	}
	return rec(a)
}

func (g *anGen) macroUsed(m *anLexRule) bool {
	for _, lr := range append(append([]*anLexRule{}, g.tokens...), g.frags...) {
		used := false
		anWalk(lr.Expr, func(t *anTerm) {
			if t.Kind == 'R' {
				for _, mm := range g.macros {
					if mm.Name == t.Name && g.macroReaches(mm, m) {
						used = true
					}
				}
			}
		})
		if used {
			return true
		}
	}
	return false
}

func anBadNames(r *Rng, base string) string {
	switch r.Intn(6) {
	case 0:
		return base + "_"
	case 1:
		return base + "__" + "X"
	case 2:
		return strings.ToLower(base[:1]) + base[1:]
	case 3:
		return base + "x"
	case 4:
		return "EOF"
	default:
		return "ERROR"
	}
}

func (g *anGen) nonSimpleAtom() *anAtom {
	if g.r.Bool() {
		return &anAtom{Kind: 'E'}
	}
	return &anAtom{Kind: 'I', Elem: g.simpleAtom2(), Sep: g.simpleAtom2()}
}

// simpleAtom2: a simple atom that is certainly defined (a token name).
func (g *anGen) simpleAtom2() *anAtom { return &anAtom{Kind: 'N', Name: Pick(g.r, g.tokens).Name} }

var anBadEscapes = []string{`\uD800`, `\uDFFF`, `\uDBFF`, `\U00110000`, `\UFFFFFFFF`, `\U0000D800`}

func anBadPiece(r *Rng) anPiece {
	return anPiece{Src: Pick(r, anBadEscapes), Val: []byte(string(rune(0xFFFD))), Bad: true}
}

func init() { anFaults = append(anFaults, anFaults2...) }

var anFaults = []anFault{
	{"dup-name", func(g *anGen) ([]anDecl, bool) {
		names, owner := g.declaredNames()
		n := Pick(g.r, names)
		var d anDecl
		switch g.r.Intn(5) {
		case 0:
			t := &anLexRule{Kind: 'T', Name: n}
			g.addLexRule(t, func(p []rune) { t.Expr = g.expr(0, 0, p); t.Expr[0] = append(t.Expr[0], &anTerm{Kind: 'D', Card: 2}) })
			d = t
		case 1:
			m := &anLexRule{Kind: 'M', Name: n}
			g.addLexRule(m, func(p []rune) { m.Expr = g.expr(0, 0, nil) })
			d = m
		case 2:
			x := &anLexRule{Kind: 'X', Names: []*anExtName{{Name: n}}}
			if g.r.Bool() {
				x.Names = append([]*anExtName{{Name: g.undefinedName(true)}}, x.Names...)
			}
			g.addLexRule(x, nil)
			d = x
		case 3:
			m := &anMode{Name: n, file: g.r.Intn(len(g.spec.Files))}
			s := g.lexSection(m.file, false)
			insertStmt(s, &anStmt{Mode: m}, g.r.Intn(len(s.Stmts)+1))
			d = m
		case 4:
			pr := &anPRule{Name: n, Prods: []*anProd{{Terms: []*anPTerm{{Atom: g.simpleAtom2()}}}}}
			g.addPRule(pr)
			d = pr
		}
		return []anDecl{d, owner[n]}, true
	}},
	{"undefined-macro-ref", func(g *anGen) ([]anDecl, bool) {
		lr := Pick(g.r, g.rulesWithExpr())
		g.appendTerm(lr, &anTerm{Kind: 'R', Name: g.undefinedName(true), Card: Pick(g.r, []int{0, 0, 2})})
		return []anDecl{lr}, true
	}},
	{"ref-not-a-macro", func(g *anGen) ([]anDecl, bool) {
		lr := Pick(g.r, g.rulesWithExpr())
		var cands []string
		for _, t := range g.tokens {
			cands = append(cands, t.Name)
		}
		for _, m := range g.modes {
			cands = append(cands, m.Name)
		}
		for _, r := range g.rules {
			cands = append(cands, r.Name)
		}
		for _, x := range g.exts {
			cands = append(cands, x.Names[0].Name)
		}
		var ok []string
		for _, c := range cands {
			if regexp.MustCompile(`^[A-Za-z][A-Za-z0-9_]*$`).MatchString(c) {
				ok = append(ok, c)
			}
		}
		g.appendTerm(lr, &anTerm{Kind: 'R', Name: Pick(g.r, ok)})
		return []anDecl{lr}, true
	}},
	{"emit-undefined", func(g *anGen) ([]anDecl, bool) {
		f := Pick(g.r, g.frags)
		var keep []*anAct
		for _, a := range f.Acts {
			if a.Kind != 'e' && a.Kind != 'd' {
				keep = append(keep, a)
			}
		}
		f.Acts = append(keep, &anAct{Kind: 'e', Name: g.undefinedName(true)})
		return []anDecl{f}, true
	}},
	{"emit-non-token", func(g *anGen) ([]anDecl, bool) {
		var cands []string
		for _, m := range g.macros {
			cands = append(cands, m.Name)
		}
		for _, m := range g.modes {
			cands = append(cands, m.Name)
		}
		for _, r := range g.rules {
			cands = append(cands, r.Name)
		}
		if len(cands) == 0 {
			return nil, false
		}
		f := Pick(g.r, g.frags)
		var keep []*anAct
		for _, a := range f.Acts {
			if a.Kind != 'e' && a.Kind != 'd' {
				keep = append(keep, a)
			}
		}
		f.Acts = append(keep, &anAct{Kind: 'e', Name: Pick(g.r, cands)})
		return []anDecl{f}, true
	}},
	{"push-undefined-mode", func(g *anGen) ([]anDecl, bool) {
		lr := Pick(g.r, append(append([]*anLexRule{}, g.tokens...), g.frags...))
		n := g.undefinedName(false)
		if g.r.Bool() {
			n = Pick(g.r, g.tokens).Name // a token is not a mode
		}
		at := g.r.Intn(len(lr.Acts) + 1)
		lr.Acts = append(lr.Acts[:at], append([]*anAct{{Kind: 'u', Name: n}}, lr.Acts[at:]...)...)
		return []anDecl{lr}, true
	}},
	{"parser-undefined-name", func(g *anGen) ([]anDecl, bool) {
		as, owner := g.atoms(func(a *anAtom) bool { return a.Kind == 'N' })
		if len(as) == 0 {
			return nil, false
		}
		a := Pick(g.r, as)
		a.Name = g.undefinedName(g.r.Bool())
		return []anDecl{owner[a]}, true
	}},
	{"parser-name-not-rule-or-token", func(g *anGen) ([]anDecl, bool) {
		as, owner := g.atoms(func(a *anAtom) bool { return a.Kind == 'N' })
		var cands []string
		for _, m := range g.macros {
			cands = append(cands, m.Name)
		}
		for _, m := range g.modes {
			cands = append(cands, m.Name)
		}
		if len(as) == 0 || len(cands) == 0 {
			return nil, false
		}
		a := Pick(g.r, as)
		a.Name = Pick(g.r, cands)
		return []anDecl{owner[a]}, true
	}},
	{"unknown-alias", func(g *anGen) ([]anDecl, bool) {
		as, owner := g.atoms(func(a *anAtom) bool { return a.Kind == 'N' || a.Kind == 'A' })
		if len(as) == 0 {
			return nil, false
		}
		a := Pick(g.r, as)
		a.Kind, a.Name = 'A', ""
		for {
			a.Lit = []anPiece{{Src: "q", Val: []byte("q")}}
			a.Lit = append(a.Lit, g.litPieces(0, 1)...)
			if g.aliasCount(string(piecesVal(a.Lit))) == 0 && anSafeAlias(a.Lit) {
				break
			}
		}
		return []anDecl{owner[a]}, true
	}},
	{"ambiguous-alias-x3", func(g *anGen) ([]anDecl, bool) {
		// a second AND a third token with the literal of an alias the parser section uses (an odd number of
		// definitions must still be ambiguous)
		b1, ok := injAmbiguousAlias(g)
		if !ok {
			return nil, false
		}
		_, ok = injAmbiguousAliasSame(g)
		return b1, ok
	}},
	{"ambiguous-alias", func(g *anGen) ([]anDecl, bool) { return injAmbiguousAlias(g) }},
}

// the literal chosen by the last injAmbiguousAlias call (so that a third definition can reuse it)
var lastAmbiguousLit string

func injAmbiguousAliasSame(g *anGen) ([]anDecl, bool) { return injAmbiguousAliasLit(g, lastAmbiguousLit) }

func injAmbiguousAlias(g *anGen) ([]anDecl, bool) { return injAmbiguousAliasLit(g, "") }

func injAmbiguousAliasLit(g *anGen, want string) ([]anDecl, bool) {
	{
		// a second token with the literal of an alias the parser section uses
		as, owner := g.atoms(func(a *anAtom) bool { return a.Kind == 'A' })
		if len(as) == 0 {
			return nil, false
		}
		a := Pick(g.r, as)
		if want != "" {
			for _, b := range as {
				if string(piecesVal(b.Lit)) == want {
					a = b
				}
			}
		}
		lit := string(piecesVal(a.Lit))
		lastAmbiguousLit = lit
		var blame []anDecl
		for _, b := range as {
			if string(piecesVal(b.Lit)) == lit {
				blame = append(blame, owner[b])
			}
		}
		t := &anLexRule{Kind: 'T', Name: g.fresh(anTokenNames)}
		// inside a mode, or in the file of the token that has the literal (same file: no conflict)
		var orig *anLexRule
		for _, o := range g.tokens {
			if x, ok := aliasOf(o); ok && x == lit {
				orig = o
			}
		}
		if orig == nil {
			return nil, false
		}
		t.Expr = [][]*anTerm{{{Kind: 'L', Lit: a.Lit}}}
		if len(g.modes) > 0 && g.r.Bool() {
			m := Pick(g.r, g.modes)
			t.inMode, t.file = m, m.file
			at := g.r.Intn(len(m.Rules) + 1)
			m.Rules = append(m.Rules[:at], append([]*anLexRule{t}, m.Rules[at:]...)...)
		} else {
			t.file = orig.file
			s := g.lexSection(t.file, false)
			insertStmt(s, &anStmt{Lex: t}, g.r.Intn(len(s.Stmts)+1))
		}
		g.tokens = append(g.tokens, t)
		return blame, true
	}
}

var anFaults2 = []anFault{
	{"second-start", func(g *anGen) ([]anDecl, bool) {
		if len(g.rules) == 0 {
			return nil, false
		}
		var cur *anPRule
		var others []*anPRule
		for _, r := range g.rules {
			if r.Start {
				cur = r
			} else {
				others = append(others, r)
			}
		}
		var n *anPRule
		if len(others) > 0 && g.r.Bool() {
			n = Pick(g.r, others)
			n.Start = true
		} else {
			n = &anPRule{Name: g.fresh(anRuleNames), Start: true, Prods: []*anProd{{Terms: []*anPTerm{{Atom: g.simpleAtom2()}}}}}
			g.addPRule(n)
		}
		return []anDecl{cur, n}, true
	}},
	{"no-start", func(g *anGen) ([]anDecl, bool) {
		if len(g.rules) == 0 {
			return nil, false
		}
		for _, r := range g.rules {
			r.Start = false
		}
		return nil, true
	}},
	{"token-discard", func(g *anGen) ([]anDecl, bool) {
		t := Pick(g.r, g.tokens)
		at := g.r.Intn(len(t.Acts) + 1)
		t.Acts = append(t.Acts[:at], append([]*anAct{{Kind: 'd'}}, t.Acts[at:]...)...)
		return []anDecl{t}, true
	}},
	{"token-emit", func(g *anGen) ([]anDecl, bool) {
		t := Pick(g.r, g.tokens)
		at := g.r.Intn(len(t.Acts) + 1)
		t.Acts = append(t.Acts[:at], append([]*anAct{{Kind: 'e', Name: Pick(g.r, g.tokens).Name}}, t.Acts[at:]...)...)
		return []anDecl{t}, true
	}},
	{"frag-second-action", func(g *anGen) ([]anDecl, bool) {
		// a second @discard, a second @emit, or the other one of the two
		f := Pick(g.r, g.frags)
		has := byte(0)
		for _, a := range f.Acts {
			if a.Kind == 'd' || a.Kind == 'e' {
				has = a.Kind
			}
		}
		mk := func(k byte) *anAct {
			if k == 'd' {
				return &anAct{Kind: 'd'}
			}
			return &anAct{Kind: 'e', Name: Pick(g.r, g.tokens).Name}
		}
		var add []*anAct
		switch {
		case has == 0:
			k := Pick(g.r, []byte{'d', 'e'})
			if g.r.Bool() {
				add = []*anAct{mk(k), mk(k)}
			} else {
				add = []*anAct{mk('d'), mk('e')}
			}
		case g.r.Bool():
			add = []*anAct{mk(has)}
		default:
			add = []*anAct{mk('d' + 'e' - has)}
		}
		for _, a := range add {
			at := g.r.Intn(len(f.Acts) + 1)
			f.Acts = append(f.Acts[:at], append([]*anAct{a}, f.Acts[at:]...)...)
		}
		return []anDecl{f}, true
	}},
	{"empty-literal", func(g *anGen) ([]anDecl, bool) {
		lr := Pick(g.r, g.rulesWithExpr())
		var lits []*anTerm
		anWalk(lr.Expr, func(t *anTerm) {
			if t.Kind == 'L' {
				lits = append(lits, t)
			}
		})
		if len(lits) > 0 && g.r.Bool() && lr.inMode != nil {
			Pick(g.r, lits).Lit = nil
		} else {
			g.appendTerm(lr, &anTerm{Kind: 'L'})
		}
		return []anDecl{lr}, true
	}},
	{"empty-literal-parser", func(g *anGen) ([]anDecl, bool) {
		ps, owner := g.prodsWithTerms()
		if len(ps) == 0 {
			return nil, false
		}
		p := Pick(g.r, ps)
		t := &anPTerm{Atom: &anAtom{Kind: 'A'}}
		switch g.r.Intn(3) {
		case 0:
			t.Card = Pick(g.r, []string{"?", "*", "+"})
		case 1:
			t.Atom = &anAtom{Kind: 'I', Elem: &anAtom{Kind: 'A'}, Sep: g.simpleAtom2()}
		}
		at := g.r.Intn(len(p.Terms) + 1)
		p.Terms = append(p.Terms[:at], append([]*anPTerm{t}, p.Terms[at:]...)...)
		return []anDecl{owner[p]}, true
	}},
	{"reversed-range", func(g *anGen) ([]anDecl, bool) {
		lr := Pick(g.r, g.rulesWithExpr())
		var cls []*anClass
		anWalk(lr.Expr, func(t *anTerm) {
			if t.C1 != nil {
				cls = append(cls, t.C1)
			}
			if t.C2 != nil {
				cls = append(cls, t.C2)
			}
		})
		var c *anClass
		if len(cls) > 0 && g.r.Bool() {
			c = Pick(g.r, cls)
		} else {
			c = g.class(nil)
			t := &anTerm{Kind: 'C', C1: c, Card: Pick(g.r, []int{0, 2, 4})}
			if g.r.Chance(1, 4) {
				t = &anTerm{Kind: 'S', C1: g.class(nil), C2: c}
			}
			g.appendTerm(lr, t)
		}
		lo, hi := 'z', 'a'
		if g.r.Bool() {
			lo, hi = 0x10FFFF, 0
		}
		at := g.r.Intn(len(c.Items) + 1)
		c.Items = append(c.Items[:at], append([][2]int{{int(lo), int(hi)}}, c.Items[at:]...)...)
		c.Src = append(c.Src[:at], append([][2]string{{anClassChar(g.r, lo), anClassChar(g.r, hi)}}, c.Src[at:]...)...)
		return []anDecl{lr}, true
	}},
	{"macro-cycle", func(g *anGen) ([]anDecl, bool) {
		if len(g.macros) == 0 {
			return nil, false
		}
		// macro `to` reaches macro `from`; a reference from `from` back to `to` closes a cycle
		from := Pick(g.r, g.macros)
		var cands []*anLexRule
		for _, m := range g.macros {
			if g.macroReaches(m, from) {
				cands = append(cands, m)
			}
		}
		to := Pick(g.r, cands)
		g.appendTerm(from, &anTerm{Kind: 'R', Name: to.Name, Card: Pick(g.r, []int{0, 1, 2})})
		return []anDecl{from}, true
	}},
	{"macro-cycle-unused", func(g *anGen) ([]anDecl, bool) {
		var cands []*anLexRule
		for _, m := range g.macros {
			if !g.macroUsed(m) {
				cands = append(cands, m)
			}
		}
		if len(cands) == 0 {
			return nil, false
		}
		m := Pick(g.r, cands)
		g.appendTerm(m, &anTerm{Kind: 'R', Name: m.Name})
		return []anDecl{m}, true
	}},
	{"bad-lexical-name", func(g *anGen) ([]anDecl, bool) {
		var cands []*anLexRule
		cands = append(cands, g.tokens...)
		cands = append(cands, g.macros...)
		cands = append(cands, g.exts...)
		lr := Pick(g.r, cands)
		if lr.Kind == 'X' {
			n := Pick(g.r, lr.Names)
			n.Name = anBadNames(g.r, n.Name)
		} else {
			lr.Name = anBadNames(g.r, lr.Name)
		}
		return []anDecl{lr}, true
	}},
	{"bad-rule-name", func(g *anGen) ([]anDecl, bool) {
		if len(g.rules) == 0 {
			return nil, false
		}
		pr := Pick(g.r, g.rules)
		switch g.r.Intn(4) {
		case 0:
			pr.Name = Pick(g.r, []string{"EOF", "ERROR"}) // reserved for rules as well
		default:
			pr.Name = pr.Name + "__" + Pick(g.r, []string{"x", "", "_y"})
		}
		return []anDecl{pr}, true
	}},
	{"list-param-not-simple", func(g *anGen) ([]anDecl, bool) {
		ps, owner := g.prodsWithTerms()
		if len(ps) == 0 {
			return nil, false
		}
		p := Pick(g.r, ps)
		a := &anAtom{Kind: 'I', Elem: g.simpleAtom2(), Sep: g.simpleAtom2()}
		switch g.r.Intn(3) {
		case 0:
			a.Elem = g.nonSimpleAtom()
		case 1:
			a.Sep = g.nonSimpleAtom()
		default:
			a.Elem, a.Sep = g.nonSimpleAtom(), g.nonSimpleAtom()
		}
		t := &anPTerm{Atom: a}
		if g.r.Bool() {
			t.Card = "?"
		}
		at := g.r.Intn(len(p.Terms) + 1)
		p.Terms = append(p.Terms[:at], append([]*anPTerm{t}, p.Terms[at:]...)...)
		return []anDecl{owner[p]}, true
	}},
	{"bad-escape", func(g *anGen) ([]anDecl, bool) {
		as, owner := g.atoms(func(a *anAtom) bool { return a.Kind == 'A' })
		if len(as) > 0 && g.r.Chance(1, 3) {
			a := Pick(g.r, as)
			a.Lit = append(append([]anPiece{}, a.Lit...), anBadPiece(g.r))
			return []anDecl{owner[a]}, true
		}
		lr := Pick(g.r, g.rulesWithExpr())
		if g.r.Bool() {
			t := &anTerm{Kind: 'L', Lit: g.litPieces(0, 1)}
			at := g.r.Intn(len(t.Lit) + 1)
			t.Lit = append(t.Lit[:at], append([]anPiece{anBadPiece(g.r)}, t.Lit[at:]...)...)
			if g.r.Chance(1, 3) {
				t.Lit = append(t.Lit, anBadPiece(g.r))
			}
			g.appendTerm(lr, t)
		} else {
			c := g.class(nil)
			c.Items = append(c.Items, [2]int{0xFFFD, 0xFFFD})
			c.Src = append(c.Src, [2]string{Pick(g.r, anBadEscapes), ""})
			c.BadEsc = 1
			g.appendTerm(lr, &anTerm{Kind: 'C', C1: c})
		}
		return []anDecl{lr}, true
	}},
	{"bad-precedence", func(g *anGen) ([]anDecl, bool) {
		ps, owner := g.prodsWithTerms()
		if len(ps) == 0 {
			return nil, false
		}
		p := Pick(g.r, ps)
		p.Qual = &anQual{Right: g.r.Bool(), Prec: Pick(g.r, []string{"0", "00", "9223372036854775808", "99999999999999999999999"})}
		return []anDecl{owner[p]}, true
	}},
	{"list-cardinality", func(g *anGen) ([]anDecl, bool) {
		ps, owner := g.prodsWithTerms()
		if len(ps) == 0 {
			return nil, false
		}
		p := Pick(g.r, ps)
		t := &anPTerm{Atom: &anAtom{Kind: 'I', Elem: g.simpleAtom2(), Sep: g.simpleAtom2()}, Card: Pick(g.r, []string{"*", "*!", "+"})}
		at := g.r.Intn(len(p.Terms) + 1)
		p.Terms = append(p.Terms[:at], append([]*anPTerm{t}, p.Terms[at:]...)...)
		return []anDecl{owner[p]}, true
	}},
}

// ---------------------------------------------------------------------------------------------
// One case

func anOracle(fault string, blame [][2]int, ds []anDiag, panicMsg string) string {
	if panicMsg != "" {
		return "C17: front end panicked (" + fault + "): " + panicMsg
	}
	if fault == "none" {
		if len(ds) > 0 {
			return "C17: well-formed specification rejected: " + anShow(ds)
		}
		return ""
	}
	if len(ds) == 0 {
		return "C17: ill-formed specification accepted (" + fault + ")"
	}
	if len(blame) == 0 {
		return ""
	}
	for _, d := range ds {
		for _, b := range blame {
			if b[0] <= d.Pos && d.Pos <= b[1] {
				return ""
			}
		}
	}
	return fmt.Sprintf("C17: diagnostic outside the faulty declaration (%s, lines %v): %s", fault, blame, anShow(ds))
}

func anBlameText(blame [][2]int) string {
	if len(blame) == 0 {
		return "-"
	}
	parts := make([]string, len(blame))
	for i, b := range blame {
		parts[i] = fmt.Sprintf("%d-%d", b[0], b[1])
	}
	return strings.Join(parts, ",")
}

func anFilesText(texts []string) string {
	parts := make([]string, len(texts))
	for i, t := range texts {
		parts[i] = hexOrDash([]byte(t))
	}
	return strings.Join(parts, ";")
}

func anEmit(c *Ctx, g *anGen, fault string, blameDecls []anDecl, layout *Rng) {
	texts := g.spec.render(layout)
	var blame [][2]int
	for _, d := range blameDecls {
		lo, hi := d.span()
		blame = append(blame, [2]int{lo, hi})
	}
	caseLine := fmt.Sprintf("dec.analyze %s | fault=%s blame=%s files=%s", g.spec.encode(), fault, anBlameText(blame), anFilesText(texts))
	t0 := time.Now()
	out, panicMsg := anRunFront(texts)
	if ms := time.Since(t0).Milliseconds(); ms > 200 {
		c.Count("slow-front-end(>200ms)")
		if int(ms) > c.Counters["slowest-ms"] {
			c.Counters["slowest-ms"] = int(ms)
			c.Extra["slowest"] = anFilesText(texts)
		}
	}
	ds := anParseOutput(out)
	wf := 0
	if fault == "none" {
		wf = 1
	}
	impl := fmt.Sprintf("wf=%d %s", wf, anShow(ds))
	if panicMsg != "" {
		impl += " PANIC"
	}
	c.EmitO(caseLine, impl, anOracle(fault, blame, ds, panicMsg))
	c.Count("fault:" + strings.SplitN(fault, ":", 2)[0])
	if len(ds) == 0 {
		c.Count("accepted")
	} else {
		c.Count("first-diagnostic:" + strings.SplitN(ds[0].Kind, ":", 2)[0])
	}
	c.Count(fmt.Sprintf("files:%d", len(texts)))
	c.Distinct(caseLine)
}

// anReplay re-runs the front end on the texts carried by a case line.
func anReplay(c *Ctx, line string) {
	if strings.HasPrefix(line, "#") {
		c.Emit(line, line)
		return
	}
	parts := strings.SplitN(line, "|", 2)
	fault, blameS, filesS := "none", "-", ""
	if len(parts) == 2 {
		for _, f := range strings.Fields(parts[1]) {
			switch {
			case strings.HasPrefix(f, "fault="):
				fault = f[6:]
			case strings.HasPrefix(f, "blame="):
				blameS = f[6:]
			case strings.HasPrefix(f, "files="):
				filesS = f[6:]
			}
		}
	}
	var texts []string
	for _, h := range strings.Split(filesS, ";") {
		if h == "-" || h == "" {
			texts = append(texts, "")
			continue
		}
		b, _ := hex.DecodeString(h)
		texts = append(texts, string(b))
	}
	var blame [][2]int
	if blameS != "-" {
		for _, p := range strings.Split(blameS, ",") {
			var lo, hi int
			fmt.Sscanf(p, "%d-%d", &lo, &hi)
			blame = append(blame, [2]int{lo, hi})
		}
	}
	out, panicMsg := anRunFront(texts)
	ds := anParseOutput(out)
	wf := 0
	if fault == "none" {
		wf = 1
	}
	impl := fmt.Sprintf("wf=%d %s", wf, anShow(ds))
	if panicMsg != "" {
		impl += " PANIC"
	}
	c.EmitO(line, impl, anOracle(fault, blame, ds, panicMsg))
}

// anOverlap: two files whose default-mode rules accept a common text.
func anOverlap(c *Ctx, r *Rng) {
	shapes := [][2]string{
		{"A = 'a'\n", "C = [a-c]+\n"},
		{"@frag ' ' @discard\nA = 'x'\n", "@frag ' '+ @discard\n"},
		{"A = 'if'\n", "ID = [a-z]+\n"},
		{"A = 'a'*\n", "B = 'b'*\n"},
		{"@macro M = 'k'\nA = M\n", "B = 'k' 'k'?\n"},
	}
	sh := Pick(r, shapes)
	texts := []string{"@lexer\n" + sh[0], "@lexer\n" + sh[1]}
	if r.Bool() {
		texts[0] += "@parser\n@start s = A\n"
	}
	out, panicMsg := anRunFront(texts)
	ds := anParseOutput(out)
	line := "# overlap " + anFilesText(texts) + " => " + anShow(ds)
	oracle := ""
	hasConflict := false
	for _, d := range ds {
		if d.Kind == "conflict" {
			hasConflict = true
		}
	}
	if panicMsg != "" {
		oracle = "C17: front end panicked on rules of two files that overlap: " + panicMsg
	} else if !hasConflict {
		oracle = "C17: rules of two files overlap in the default mode and no conflict is reported: " + anShow(ds)
	}
	c.EmitO(line, line, oracle)
	c.Count("overlap")
}

func init() {
	register("analyze", "well-formed specs and single-fault variants through the real front end vs Lox.Dec.Analyze (C17)", func(c *Ctx) {
		if c.Replay != nil {
			for _, l := range c.Replay {
				anReplay(c, l)
			}
			return
		}
		for i := 0; i < c.N; i++ {
			seed := c.Rng.Next()
			// the well-formed specification itself
			g := anGenSpec(NewRng(seed))
			anEmit(c, g, "none", nil, NewRng(seed^0x5555))
			// every injector once, at a random site
			for fi, f := range anFaults {
				g := anGenSpec(NewRng(seed))
				g.r = NewRng(seed ^ uint64(fi+1)*0x9E3779B9)
				blame, ok := f.apply(g)
				if !ok {
					c.Count("inapplicable:" + f.name)
					continue
				}
				var bl []anDecl
				for _, b := range blame {
					if b != nil {
						bl = append(bl, b)
					}
				}
				anEmit(c, g, f.name, bl, NewRng(seed^0x5555^uint64(fi+1)))
			}
			// several faults at once: which pass speaks first, and in which order (correspondence
			// with the model; the oracle only asks for a rejection)
			for k := 0; k < 4; k++ {
				g := anGenSpec(NewRng(seed))
				g.r = NewRng(seed ^ uint64(k+77)*0x9E3779B9)
				var names []string
				for j, n := 0, 2+g.r.Intn(2); j < n; j++ {
					f := Pick(g.r, anFaults)
					if f.name == "no-start" { // together with second-start it is no fault at all
						continue
					}
					if _, ok := f.apply(g); ok {
						names = append(names, f.name)
					}
				}
				if len(names) > 0 {
					anEmit(c, g, "multi:"+strings.Join(names, "+"), nil, NewRng(seed^0x7777^uint64(k)))
				}
			}
			if i%5 == 0 {
				anOverlap(c, c.Rng)
			}
		}
		names := make([]string, len(anFaults))
		for i, f := range anFaults {
			names[i] = f.name
		}
		sort.Strings(names)
		c.Extra["injectors"] = names
	})
}
