//go:build verif

package main

import (
	"fmt"
	"strings"
)

// ParseGSpec builds a GSpec from a compact notation, used for the curated grammars that every
// lrgen run starts with (shapes that exposed defects before, classic LR corner cases):
//   rules separated by ';', productions by '|', terms by blanks;
//   UPPERCASE words are tokens (declared in order of first appearance), lowercase words are rules
//   (the first rule is @start), `@e` = @error, `@empty` or nothing = empty production,
//   suffixes ? * + *! , `L(x,s)` = @list(x, s), `L(x,s)?` = @list(x, s)?.
func ParseGSpec(text string) *GSpec {
	s := &GSpec{}
	tok := map[string]int{}
	rule := map[string]int{}
	type rawRule struct {
		name  string
		prods [][]string
	}
	var raws []rawRule
	for _, rt := range strings.Split(text, ";") {
		rt = strings.TrimSpace(rt)
		if rt == "" {
			continue
		}
		name, body, _ := strings.Cut(rt, "=")
		name = strings.TrimSpace(name)
		rule[name] = len(raws)
		rr := rawRule{name: name}
		for _, pt := range strings.Split(body, "|") {
			rr.prods = append(rr.prods, strings.Fields(pt))
		}
		raws = append(raws, rr)
	}
	simple := func(w string) *GTerm {
		switch {
		case w == "@e":
			return &GTerm{Kind: KErr}
		case w == strings.ToUpper(w):
			if _, ok := tok[w]; !ok {
				tok[w] = len(s.Tokens)
				s.Tokens = append(s.Tokens, w)
			}
			return &GTerm{Kind: KTok, Tok: tok[w]}
		default:
			ri, ok := rule[w]
			if !ok {
				panic("curated grammar: unknown rule " + w)
			}
			return &GTerm{Kind: KRule, Rule: ri}
		}
	}
	for _, rr := range raws {
		gr := &GRule{Name: rr.name}
		for _, ws := range rr.prods {
			p := &GProd{}
			for _, w := range ws {
				if w == "@empty" {
					continue
				}
				switch {
				case strings.HasPrefix(w, "L("):
					opt := strings.HasSuffix(w, "?")
					inner := strings.TrimSuffix(strings.TrimSuffix(w, "?"), ")")[2:]
					x, sp, _ := strings.Cut(inner, ",")
					k := KList
					if opt {
						k = KListOpt
					}
					p.Terms = append(p.Terms, &GTerm{Kind: k, Child: simple(x), Sep: simple(sp)})
				case strings.HasSuffix(w, "*!"):
					p.Terms = append(p.Terms, &GTerm{Kind: KStarF, Child: simple(w[:len(w)-2])})
				case strings.HasSuffix(w, "*"):
					p.Terms = append(p.Terms, &GTerm{Kind: KStar, Child: simple(w[:len(w)-1])})
				case strings.HasSuffix(w, "+"):
					p.Terms = append(p.Terms, &GTerm{Kind: KPlus, Child: simple(w[:len(w)-1])})
				case strings.HasSuffix(w, "?"):
					p.Terms = append(p.Terms, &GTerm{Kind: KOpt, Child: simple(w[:len(w)-1])})
				default:
					p.Terms = append(p.Terms, simple(w))
				}
			}
			gr.Prods = append(gr.Prods, p)
		}
		s.Rules = append(s.Rules, gr)
	}
	if len(s.Tokens) < 2 {
		s.Tokens = append(s.Tokens, fmt.Sprintf("ZZ%d", len(s.Tokens)))
	}
	return s
}

// curatedGrammars run first in every lrgen run, each once with and once without _onBounds.
var curatedGrammars = []string{
	// FIRST through a nullable rule reached twice (repaired defect D1)
	"s = tt r; tt = T; r = oo X | oo Y Z; oo = O | @empty",
	// nullability that needs several fixpoint sweeps against definition order, used as a lookahead source
	"decl = LET mods binding SEMI; mods = MUT | @empty; binding = attrs ID | US; attrs = outer; outer = doc; doc = @empty",
	"s = a p X | a q Y; a = A; p = c0 P | Q; q = c0 Q; c0 = c1; c1 = c2; c2 = c3; c3 = @empty",
	// recovery livelock shapes (repaired defect D13) and the LALR-merged lookahead variant at EOF
	"s = LP a RP | LB a RB; a = X | @e",
	"s = a | LP a RP; a = X | @e",
	"s = a B | LP a RP | LB a RB C; a = X | X X | @e",
	// a chain of reductions on ERROR in front of @error, the second one of a NON-empty production (the recovery
	// simulation follows reductions without popping: repaired defect D30)
	"s = b @e C; b = a; a = @empty", "s = x y @e SEMI | x B; x = A; y = z; z = w?; w = A",
	// @error at start, middle, end, inside sugar
	"s = @e | A s B", "s = A @e B | A C", "s = item* ; item = A SEMI | @e SEMI", "s = L(item,COMMA)?; item = A | @e", "s = A @e? B",
	// a production that is @error alone inside a repetition: a recovered item can be followed at once by
	// another error, also a lexer ERROR token met while skipping (queued lookahead)
	"s = item*; item = A SEMI | @e", "s = item+ END; item = A | @e", "s = LP item* RP; item = A SEMI | LP item* RP | @e",
	// productions whose span can be empty as a whole; nested empty reductions at both ends (bounds)
	"s = item*; item = mods X tail SEMI; mods = mod? flag?; mod = M; flag = F; tail = bangs; bangs = BANG*",
	"s = e1 A e2 | e1 e2; e1 = o1 o2; o1 = @empty; o2 = B?; e2 = C*",
	"s = x? y* L(z,COMMA)?; x = X; y = Y; z = Z",
	// left / right / middle recursion, nullable at start / middle / end
	"s = s A | @empty", "s = A s | @empty", "s = A s B | @empty", "s = n A n B n; n = N | @empty",
	// an absent x* / x*! / x? right after a value of the SAME Go type (stack neighbour of identical type)
	"s = A+ B* SEMI", "s = A+ A* B", "s = item+ extra* SEMI; item = A; extra = B", "s = L(a,COMMA) b*! SEMI; a = A; b = B | B B",
	"s = A* B* C*", "s = x? y? z?; x = A; y = B; z = C", "s = A B? C | A A? A",
	// list sugar in every position, shared helpers, *! filtering
	"s = A* B+ C? A*", "s = L(a,COMMA) SEMI L(a,COMMA)?; a = A | B", "s = t*! u+; t = A | B B; u = C",
	// two lists over DIFFERENT tokens with the same separator, elements written as literals (tokens 1 and 4 are
	// printed as literals); the same with optional lists and with rule elements
	"s = A L(B,C) D L(E,C)", "s = A L(B,C)? D L(E,C)? A", "s = L(x,C) D L(y,C); x = A B; y = A E",
	// two lists over the SAME element with DIFFERENT separators (the helper rule is per element AND separator), plain and optional
	"s = A? b+; b = L(B,C)", // the grammar the end-to-end sugar theorems are instantiated on (Lox.Props.C01.exE2E)
	"s = LB L(item,COMMA) RB | LP L(item,SEMI) RP; item = A | B", "s = A L(B,C) D L(B,E)", "s = L(x,COMMA)? SEMI L(x,BAR)? SEMI L(x,COMMA); x = A",
	// names: rule names that sort before token names (worklist order in ConstructLALR), nesting with a self-loop state
	"Doc = Expr; Expr = OPEN Expr CLOSE | NUM", "Aa = Bb ZZ | YY Bb XX; Bb = WW Bb VV | UU | @empty",
	// classic: LALR(1) but not SLR(1); expression grammar without precedence
	"s = l EQ r | r; l = STAR r | ID; r = l", "e = e PLUS t | t; t = t STAR f | f; f = LP e RP | ID",
	// long single production: table rows with two-digit states and terminals (row sharing keys)
	"s = T B C D E F G H I J A K", "s = A B C D E F G H I J K L M N O P Q R S T U V | V U T S R Q P O N M L K J I H G F E D C B A",
}

// reinjectGrammars: productions `@e TOKEN` whose action calls recoverLookahead(TOKEN, tok) (the token that ended the
// skipped stretch also starts the next construct). The Lean runtime model has no recoverLookahead: these packages run
// under the property oracles only (bounds of every reduction on recovery paths, termination, no panic).
var reinjectGrammars = []string{
	"s = item*; item = A SEMI | LB s RB | @e LB",
	"s = stmt*; stmt = ID SEMI | blk | @e LB; blk = LB stmt* RB",
	"s = item+ END; item = A | LP item RP | @e LP",
}

// shareErrGrammars: an error production and a token production of the same shape bound to ONE method with an
// interface-typed first parameter (a value of type Error for one production, Token for the other)
var shareErrGrammars = []string{
	"s = item*; item = A SEMI | B SEMI | @e SEMI", "s = LP x RP | LB x RB; x = A C | @e C | B",
}

// more than 256 terminals and more than 256 states: numbers that differ by a multiple of 256 in the
// parser tables (row-sharing keys, byte-sized encodings)
func init() {
	var alts []string
	for i := 0; i < 150; i++ {
		alts = append(alts, fmt.Sprintf("K%d L%d", i, i))
	}
	curatedGrammars = append(curatedGrammars, "s = "+strings.Join(alts, " | "))
}

