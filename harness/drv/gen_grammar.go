//go:build verif

package main

import (
	"fmt"
	"strings"
)

// Sugar grammar AST of the harness' own generator (independent of internal/ast).

type TK int

const (
	KTok TK = iota
	KRule
	KErr     // @error
	KOpt     // x?
	KStar    // x*
	KStarF   // x*!
	KPlus    // x+
	KList    // @list(x, sep)
	KListOpt // @list(x, sep)?
)

type GTerm struct {
	Kind  TK
	Tok   int // index into GSpec.Tokens
	Rule  int // index into GSpec.Rules
	Child *GTerm
	Sep   *GTerm
}

type GProd struct {
	Terms []*GTerm
	Prec  int // 0 = none
	Right bool
}

type GRule struct {
	Name  string
	Prods []*GProd
}

type GSpec struct {
	Tokens     []string // token names, numbered 2.. in declaration order (EOF=0, ERROR=1)
	Rules      []*GRule // Rules[0] is @start
	WithBounds bool     // parser type defines _onBounds
	NilTwin    bool     // Go side: Node is an interface and some actions of non-empty productions return nil
	ShareErr   bool     // Go side: a production `@error …` and a sibling `TOKEN …` of the same shape share ONE method whose first parameter is `any`
	Reinject   bool     // Go side: the action of a production `@error TOKEN` hands TOKEN back with recoverLookahead (no Lean model: oracle only)
}

func (s *GSpec) termText(t *GTerm) string {
	switch t.Kind {
	case KTok:
		// every third token is referred to by its literal (alias resolution of the front end)
		if t.Tok%3 == 1 && t.Tok < 26 {
			return "'" + tokenLiteral(t.Tok) + "'"
		}
		return s.Tokens[t.Tok]
	case KRule:
		return s.Rules[t.Rule].Name
	case KErr:
		return "@error"
	case KOpt:
		return s.termText(t.Child) + "?"
	case KStar:
		return s.termText(t.Child) + "*"
	case KStarF:
		return s.termText(t.Child) + "*!"
	case KPlus:
		return s.termText(t.Child) + "+"
	case KList:
		return fmt.Sprintf("@list(%s, %s)", s.termText(t.Child), s.termText(t.Sep))
	case KListOpt:
		return fmt.Sprintf("@list(%s, %s)?", s.termText(t.Child), s.termText(t.Sep))
	}
	panic("bad term")
}

// goType is the Go type lox derives for the value of a term (Token / Node / Error and slices).
func (s *GSpec) goType(t *GTerm) string {
	switch t.Kind {
	case KTok:
		return "Token"
	case KRule:
		return "Node"
	case KErr:
		return "Error"
	case KOpt:
		return s.goType(t.Child)
	case KStar, KStarF, KPlus:
		return "[]" + s.goType(t.Child)
	case KList, KListOpt:
		return "[]" + s.goType(t.Child)
	}
	panic("bad term")
}

func (s *GSpec) prodText(p *GProd) string {
	if len(p.Terms) == 0 {
		return "@empty"
	}
	parts := make([]string, len(p.Terms))
	for i, t := range p.Terms {
		parts[i] = s.termText(t)
	}
	txt := strings.Join(parts, " ")
	if p.Prec > 0 {
		// levels are decimal numbers; leading zeros are allowed by the lexer and change nothing
		pad := []string{"", "0", "", "00", ""}[p.Prec%5]
		if p.Right {
			txt += fmt.Sprintf(" @right(%s%d)", pad, p.Prec)
		} else {
			txt += fmt.Sprintf(" @left(%s%d)", pad, p.Prec)
		}
	}
	return txt
}

func tokenLiteral(i int) string { return string(rune('a' + i)) }

// Lox renders the specification text.
func (s *GSpec) Lox() string {
	var sb strings.Builder
	sb.WriteString("@lexer\n")
	for i, t := range s.Tokens {
		fmt.Fprintf(&sb, "%s = '%s'\n", t, tokenLiteral(i))
	}
	sb.WriteString("@frag [ \\n]+ @discard\n@parser\n")
	for i, r := range s.Rules {
		if i == 0 {
			sb.WriteString("@start ")
		}
		ps := make([]string, len(r.Prods))
		for j, p := range r.Prods {
			ps[j] = s.prodText(p)
		}
		fmt.Fprintf(&sb, "%s = %s\n", r.Name, strings.Join(ps, " | "))
	}
	return sb.String()
}

// GoSource synthesises the user half of the package: Token, the parser type, one action method
// per (rule, parameter-type signature), a scripted lexer and Run.
func (s *GSpec) GoSource(pkg string) string {
	var ms strings.Builder
	for ri, r := range s.Rules {
		seen := map[string]bool{}
		if s.ShareErr {
			// one method for `@error rest…` and `TOKEN rest…`: its first parameter is interface-typed and receives an Error
			// for one production and a Token for the other
			sigOf := func(p *GProd) []string {
				var sig []string
				for _, t := range p.Terms {
					sig = append(sig, s.goType(t))
				}
				return sig
			}
			for _, p := range r.Prods {
				sp := sigOf(p)
				if len(sp) == 0 || sp[0] != "Error" {
					continue
				}
				for _, q := range r.Prods {
					sq := sigOf(q)
					if len(sq) == len(sp) && sq[0] == "Token" && strings.Join(sq[1:], ",") == strings.Join(sp[1:], ",") &&
						!seen[strings.Join(sp, ",")] && !seen[strings.Join(sq, ",")] {
						seen[strings.Join(sp, ",")], seen[strings.Join(sq, ",")] = true, true
						params, args := []string{"a0 any"}, []string{"rv(a0)"}
						for k := 1; k < len(sp); k++ {
							params = append(params, fmt.Sprintf("a%d %s", k, sp[k]))
							args = append(args, fmt.Sprintf("rv(a%d)", k))
						}
						fmt.Fprintf(&ms, "func (p *parserT) on_%s__shared%d(%s) Node { return p.mk(%d, []string{%s}) }\n",
							r.Name, len(seen), strings.Join(params, ", "), ri+1, strings.Join(args, ", "))
					}
				}
			}
		}
		for _, p := range r.Prods {
			var sig []string
			for _, t := range p.Terms {
				sig = append(sig, s.goType(t))
			}
			key := strings.Join(sig, ",")
			if seen[key] {
				continue
			}
			seen[key] = true
			var params, args []string
			for q, ty := range sig {
				// parameters that are merely ASSIGNABLE from the term's type (named slice types)
				if (ri+q+len(sig))%2 == 0 {
					switch ty {
					case "[]Node":
						ty = "NodeList"
					case "[]Token":
						ty = "TokList"
					}
				}
				params = append(params, fmt.Sprintf("a%d %s", q, ty))
				args = append(args, fmt.Sprintf("rv(a%d)", q))
			}
			// rule index in the lr1 grammar: S' is 0, user rules follow in declaration order
			if s.NilTwin && len(sig) > 0 && (ri+len(sig)+len(seen))%2 == 0 {
				// the action runs (and is logged) as usual but hands a nil interface value to its parent
				fmt.Fprintf(&ms, "func (p *parserT) on_%s__s%d(%s) Node { p.mk(%d, []string{%s}); return nil }\n",
					r.Name, len(seen)-1, strings.Join(params, ", "), ri+1, strings.Join(args, ", "))
				continue
			}
			if s.Reinject && len(p.Terms) == 2 && p.Terms[0].Kind == KErr && p.Terms[1].Kind == KTok {
				// documented use of recoverLookahead: the error production consumed a token that starts the next
				// construct; its action hands the token back to the parser as the next lookahead
				fmt.Fprintf(&ms, "func (p *parserT) on_%s__s%d(%s) Node { n := p.mk(%d, []string{%s}); p.recoverLookahead(%s, a1); return n }\n",
					r.Name, len(seen)-1, strings.Join(params, ", "), ri+1, strings.Join(args, ", "), s.Tokens[p.Terms[1].Tok])
				continue
			}
			fmt.Fprintf(&ms, "func (p *parserT) on_%s__s%d(%s) Node { return p.mk(%d, []string{%s}) }\n",
				r.Name, len(seen)-1, strings.Join(params, ", "), ri+1, strings.Join(args, ", "))
		}
	}
	bounds := ""
	if s.WithBounds {
		bounds = "func (p *parserT) _onBounds(r any, b, e Token) { p.log = append(p.log, fmt.Sprintf(\"B %s %d %d\", rv(r), b.N-1, e.N-1)) }\n"
	}
	var tt strings.Builder
	tt.WriteString("var TokTypes = []int{EOF, ERROR")
	for _, t := range s.Tokens {
		tt.WriteString(", " + t)
	}
	tt.WriteString("}\n")
	src := strings.ReplaceAll(goPkgTemplate, "PKG", pkg)
	src = strings.ReplaceAll(src, "METHODS", ms.String()+bounds)
	src = strings.ReplaceAll(src, "TOKTYPES", tt.String())
	if s.NilTwin {
		for _, rp := range [][2]string{
			{"type Node struct {\n\tS string\n\tK int\n}\n\nfunc (n Node) Discard() bool { return n.K%2 == 1 }", "// a marker method keeps Token / Error / slices from being assignable to Node\ntype Node interface{ isNode() }\n\ntype nodeS struct {\n\tS string\n\tK int\n}\n\nfunc (nodeS) isNode() {}"},
			{"\tcase Node:\n", "\tcase nil:\n\t\treturn \"_\"\n\tcase nodeS:\n"},
			{"return Node{S: s, K: len(kids)}", "return nodeS{S: s, K: len(kids)}"},
		} {
			if !strings.Contains(src, rp[0]) {
				panic("NilTwin: template text not found: " + rp[0])
			}
			src = strings.Replace(src, rp[0], rp[1], 1)
		}
	}
	return src
}

const goPkgTemplate = `package PKG

import (
	"fmt"
	"strings"
)

type Token struct {
	N   int // 1-based index in the input; 0 = zero value
	Typ int
}

func (t Token) Discard() bool { return t.Typ%2 == 0 }

type Node struct {
	S string
	K int
}

func (n Node) Discard() bool { return n.K%2 == 1 }

type NodeList []Node
type TokList []Token

type parserT struct {
	lox
	log    []string
	steps  int
	budget int
}

type budgetExceeded struct{}

func joinInts(xs []int) string {
	ss := make([]string, len(xs))
	for i, x := range xs {
		ss[i] = fmt.Sprint(x)
	}
	return strings.Join(ss, ",")
}

func rv(v any) string {
	switch x := v.(type) {
	case Token:
		if x.N == 0 {
			return "_"
		}
		return fmt.Sprintf("t%d", x.N-1)
	case Node:
		if x.S == "" {
			return "_"
		}
		return x.S
	case Error:
		if x.Token.N == 0 {
			return "_"
		}
		return fmt.Sprintf("E%d{%s}", x.Token.N-1, joinInts(x.Expected))
	case NodeList:
		return rv([]Node(x))
	case TokList:
		return rv([]Token(x))
	case []Token:
		ss := make([]string, len(x))
		for i, e := range x {
			ss[i] = rv(e)
		}
		return "[" + strings.Join(ss, " ") + "]"
	case []Node:
		ss := make([]string, len(x))
		for i, e := range x {
			ss[i] = rv(e)
		}
		return "[" + strings.Join(ss, " ") + "]"
	case []Error:
		ss := make([]string, len(x))
		for i, e := range x {
			ss[i] = rv(e)
		}
		return "[" + strings.Join(ss, " ") + "]"
	}
	return fmt.Sprintf("?%T", v)
}

func (p *parserT) mk(rule int, kids []string) Node {
	p.steps++
	if p.steps > p.budget {
		panic(budgetExceeded{})
	}
	s := "(r" + fmt.Sprint(rule)
	for _, k := range kids {
		s += " " + k
	}
	s += ")"
	p.log = append(p.log, "A "+s)
	return Node{S: s, K: len(kids)}
}

METHODS

TOKTYPES

type scripted struct {
	toks   []int
	i      int
	reads  int
	budget int
}

func (l *scripted) ReadToken() (Token, int) {
	l.reads++
	if l.reads > l.budget {
		panic(budgetExceeded{})
	}
	if l.i < len(l.toks) {
		t := Token{N: l.i + 1, Typ: l.toks[l.i]}
		l.i++
		return t, t.Typ
	}
	return Token{N: len(l.toks) + 1, Typ: EOF}, EOF
}

// Run parses a sequence of token TYPE NUMBERS and reports what could be observed.
func Run(toks []int, budget int) (res string) {
	lex := &scripted{toks: toks, budget: budget}
	p := &parserT{budget: budget}
	defer func() {
		if e := recover(); e != nil {
			if _, ok := e.(budgetExceeded); ok {
				res = "timeout"
			} else {
				res = "panic"
			}
		}
	}()
	ok := p.parse(lex)
	head := "rej"
	if ok {
		head = "acc"
	}
	return strings.Join(append([]string{fmt.Sprintf("%s r=%d", head, lex.reads)}, p.log...), " ; ")
}

// Runner returns a function that parses with ONE parser value, used again for every call (the
// caller's own log and budget are reset; whatever the generated parser keeps in its embedded
// struct between two calls of parse is kept).
func Runner() func(toks []int, budget int) string {
	p := &parserT{}
	return func(toks []int, budget int) (res string) {
		lex := &scripted{toks: toks, budget: budget}
		p.log, p.steps, p.budget = nil, 0, budget
		defer func() {
			if e := recover(); e != nil {
				if _, ok := e.(budgetExceeded); ok {
					res = "timeout"
				} else {
					res = "panic"
				}
			}
		}()
		ok := p.parse(lex)
		head := "rej"
		if ok {
			head = "acc"
		}
		return strings.Join(append([]string{fmt.Sprintf("%s r=%d", head, lex.reads)}, p.log...), " ; ")
	}
}
`

// ---- random generation ----

type GenOpts struct {
	MaxTokens, MaxRules, MaxProds, MaxTerms int
	Sugar                                    bool // cardinality sugar / @list
	Errors                                   bool // @error terms
	Prec                                     bool // @left/@right qualifiers
}

func genSimple(r *Rng, s *GSpec, nrules int, allowErr bool) *GTerm {
	x := r.Intn(10)
	switch {
	case allowErr && x == 0:
		return &GTerm{Kind: KErr}
	case x < 6:
		return &GTerm{Kind: KTok, Tok: r.Intn(len(s.Tokens))}
	default:
		return &GTerm{Kind: KRule, Rule: r.Intn(nrules)}
	}
}

func genTerm(r *Rng, s *GSpec, nrules int, o GenOpts) *GTerm {
	if o.Sugar && r.Chance(1, 4) {
		switch r.Intn(7) {
		case 0:
			return &GTerm{Kind: KOpt, Child: genSimple(r, s, nrules, o.Errors && r.Chance(1, 4))}
		case 1:
			return &GTerm{Kind: KStar, Child: genSimple(r, s, nrules, false)}
		case 2:
			return &GTerm{Kind: KPlus, Child: genSimple(r, s, nrules, false)}
		case 3:
			return &GTerm{Kind: KStarF, Child: genSimple(r, s, nrules, false)}
		case 4, 5:
			return &GTerm{Kind: KList, Child: genSimple(r, s, nrules, false), Sep: &GTerm{Kind: KTok, Tok: r.Intn(len(s.Tokens))}}
		default:
			return &GTerm{Kind: KListOpt, Child: genSimple(r, s, nrules, false), Sep: &GTerm{Kind: KTok, Tok: r.Intn(len(s.Tokens))}}
		}
	}
	return genSimple(r, s, nrules, o.Errors && r.Chance(1, 3))
}

// GenSpec draws a random specification. About half of the rules get productions that start
// with pairwise different tokens, which keeps a good share of the grammars conflict-free.
func GenSpec(r *Rng, o GenOpts) *GSpec {
	s := &GSpec{}
	nt := 2 + r.Intn(o.MaxTokens-1)
	// naming schemes: symbols are sorted BY NAME in several places of the generator (Next, Inputs,
	// Terminals), so the relative order of token and rule names must vary
	tokPrefix := Pick(r, []string{"T", "T", "ZZ", "A"})
	rulePrefix := Pick(r, []string{"r", "r", "Rule", "B", "a"})
	for i := 0; i < nt; i++ {
		name := fmt.Sprintf("%s%c", tokPrefix, 'A'+i)
		if r.Chance(1, 8) {
			name = fmt.Sprintf("%c%s", 'Z'-i, tokPrefix) // reversed alphabetical order w.r.t. declaration order
		}
		s.Tokens = append(s.Tokens, name)
	}
	nr := 1 + r.Intn(o.MaxRules)
	for i := 0; i < nr; i++ {
		s.Rules = append(s.Rules, &GRule{Name: fmt.Sprintf("%s%d", rulePrefix, i)})
	}
	s.WithBounds = r.Chance(2, 3)
	for _, rule := range s.Rules {
		np := 1 + r.Intn(o.MaxProds)
		distinctLead := r.Bool()
		perm := r.Intn(nt)
		for j := 0; j < np; j++ {
			p := &GProd{}
			n := r.Intn(o.MaxTerms + 1)
			if r.Chance(1, 10) {
				n = 0
			}
			if o.Sugar && r.Chance(1, 8) && n > 0 {
				// a production made only of terms that can derive nothing (x?, x*, @list?): its span is empty
				// for some inputs and non-empty for others
				for k := 0; k < n && k < 3; k++ {
					child := &GTerm{Kind: KTok, Tok: r.Intn(nt)}
					switch r.Intn(3) {
					case 0:
						p.Terms = append(p.Terms, &GTerm{Kind: KOpt, Child: child})
					case 1:
						p.Terms = append(p.Terms, &GTerm{Kind: KStar, Child: child})
					default:
						p.Terms = append(p.Terms, &GTerm{Kind: KListOpt, Child: child, Sep: &GTerm{Kind: KTok, Tok: r.Intn(nt)}})
					}
				}
				rule.Prods = append(rule.Prods, p)
				continue
			}
			for k := 0; k < n; k++ {
				if k == 0 && distinctLead && j < nt {
					p.Terms = append(p.Terms, &GTerm{Kind: KTok, Tok: (perm + j) % nt})
					continue
				}
				p.Terms = append(p.Terms, genTerm(r, s, nr, o))
			}
			rule.Prods = append(rule.Prods, p)
		}
		// duplicate productions are useless and always conflict
		seen := map[string]bool{}
		var keep []*GProd
		for _, p := range rule.Prods {
			k := s.prodText(p)
			if !seen[k] {
				seen[k] = true
				keep = append(keep, p)
			}
		}
		rule.Prods = keep
	}
	// make every rule reachable from the start rule and give most rules a terminating production
	refs := func(t *GTerm, ri int) bool { return false }
	var refsRec func(t *GTerm, ri int) bool
	refsRec = func(t *GTerm, ri int) bool {
		if t == nil {
			return false
		}
		return (t.Kind == KRule && t.Rule == ri) || refsRec(t.Child, ri) || refsRec(t.Sep, ri)
	}
	refs = refsRec
	for ri := 1; ri < nr; ri++ {
		used := false
		for rj := 0; rj < ri && !used; rj++ {
			for _, p := range s.Rules[rj].Prods {
				for _, t := range p.Terms {
					if refs(t, ri) {
						used = true
					}
				}
			}
		}
		if !used {
			host := s.Rules[r.Intn(ri)]
			p := host.Prods[r.Intn(len(host.Prods))]
			if len(p.Terms) >= o.MaxTerms || len(p.Terms) == 0 {
				p = &GProd{Terms: []*GTerm{{Kind: KTok, Tok: r.Intn(nt)}}}
				host.Prods = append(host.Prods, p)
			}
			at := r.Intn(len(p.Terms) + 1)
			nt2 := append([]*GTerm{}, p.Terms[:at]...)
			nt2 = append(nt2, &GTerm{Kind: KRule, Rule: ri})
			nt2 = append(nt2, p.Terms[at:]...)
			p.Terms = nt2
		}
	}
	for _, rule := range s.Rules {
		if !r.Chance(3, 4) {
			continue
		}
		terminating := false
		for _, p := range rule.Prods {
			onlyTok := true
			for _, t := range p.Terms {
				for ri := 0; ri < nr; ri++ {
					if refs(t, ri) {
						onlyTok = false
					}
				}
				if t.Kind == KErr {
					onlyTok = false
				}
			}
			if onlyTok {
				terminating = true
			}
		}
		if !terminating {
			rule.Prods = append(rule.Prods, &GProd{Terms: []*GTerm{{Kind: KTok, Tok: r.Intn(nt)}}})
		}
	}
	if o.Prec && r.Chance(1, 2) {
		addExprRule(r, s)
	}
	return s
}

// addExprRule appends a classic expression rule with precedence qualifiers and references it
// from the start rule, so that precedence resolution is exercised inside random grammars.
func addExprRule(r *Rng, s *GSpec) {
	ei := len(s.Rules)
	e := &GRule{Name: fmt.Sprintf("xp%d", ei)}
	s.Rules = append(s.Rules, e)
	nops := 1 + r.Intn(len(s.Tokens)-1)
	for k := 0; k < nops; k++ {
		e.Prods = append(e.Prods, &GProd{
			Terms: []*GTerm{{Kind: KRule, Rule: ei}, {Kind: KTok, Tok: k}, {Kind: KRule, Rule: ei}},
			Prec:  1 + r.Intn(3), Right: r.Chance(1, 3),
		})
	}
	e.Prods = append(e.Prods, &GProd{Terms: []*GTerm{{Kind: KTok, Tok: len(s.Tokens) - 1}}})
	s.Rules[0].Prods = append(s.Rules[0].Prods, &GProd{Terms: []*GTerm{{Kind: KRule, Rule: ei}}})
}

// UsesPrec reports whether any production carries a qualifier.
func (s *GSpec) UsesPrec() bool {
	for _, r := range s.Rules {
		for _, p := range r.Prods {
			if p.Prec > 0 {
				return true
			}
		}
	}
	return false
}

func (s *GSpec) UsesError() bool {
	var has func(t *GTerm) bool
	has = func(t *GTerm) bool {
		if t == nil {
			return false
		}
		return t.Kind == KErr || has(t.Child) || has(t.Sep)
	}
	for _, r := range s.Rules {
		for _, p := range r.Prods {
			for _, t := range p.Terms {
				if has(t) {
					return true
				}
			}
		}
	}
	return false
}
