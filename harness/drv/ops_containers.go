//go:build verif

package main

import (
	"fmt"
	"strconv"
	"strings"

	"github.com/dcaiafa/lox/internal/base/array"
	"github.com/dcaiafa/lox/internal/base/set"
	"github.com/dcaiafa/lox/internal/base/stablemap"
	"github.com/dcaiafa/lox/internal/base/stack"
)

// Family containers: the generic containers of internal/base driven by operation sequences and
// compared with the pointer-level Lean models of Lox/Dec/Containers.lean (property C13: the
// generator relies on insertion-ordered containers; Lox.Props.C13.stablemap_refines,
// foreach_order_independent_of_go_map, set_refines, multimap_refines are about those models).
//
// Protocol (see Lox/Dec/DrvContainers.lean): operations separated by ';', fields by spaces, all
// keys/values/elements integers; the answer has one result per operation separated by ';'
// ("-" = no result; a list = space separated items, possibly empty). A panic makes the whole
// answer "panic <kind>".
//
//	dec.stablemap  P k v | G k | Z k | H k | L | R k | C | F | K | V     stablemap.Map[int,int]{}
//	dec.set        A r x | S r x… | U r o | R r x | H r x | E r | L r | X r | Q r o | F r | N d s | C r | W d x…
//	               set.Set[int], variables 0..7, all zero values at the start
//	dec.multimap   A k v | G k | H k | L | R k | C | K | F                stablemap.MultiMap[int,int]{}
//	dec.stack      P x | O | T | L | E | X                                stack.Stack[int]{}
//	dec.array      A x | G i | L | E | X | D m                            array.Array[int]{}

const ctrNSets = 8

func ctrPanicText(r any) string {
	s := fmt.Sprint(r)
	switch {
	case strings.Contains(s, "index out of range"), strings.Contains(s, "slice bounds out of range"):
		return "panic index"
	case strings.Contains(s, "nil pointer dereference"):
		return "panic nil-dereference"
	case strings.Contains(s, "assignment to entry in nil map"):
		return "panic nil-map"
	}
	return "PANIC " + strings.ReplaceAll(s, "\n", " ")
}

func ctrInts(xs []int) string {
	var sb strings.Builder
	for i, x := range xs {
		if i > 0 {
			sb.WriteByte(' ')
		}
		sb.WriteString(strconv.Itoa(x))
	}
	return sb.String()
}

// ctrSplit parses "A 1 2;B;C 3" into [][]string; ok=false on an empty payload field list only
// when a field is not well formed later.
func ctrSplit(payload string) [][]string {
	out := [][]string{}
	for _, sec := range strings.Split(payload, ";") {
		f := strings.Fields(sec)
		if len(f) > 0 {
			out = append(out, f)
		}
	}
	return out
}

func ctrAtois(fs []string) ([]int, bool) {
	out := make([]int, len(fs))
	for i, f := range fs {
		v, err := strconv.Atoi(f)
		if err != nil {
			return nil, false
		}
		out[i] = v
	}
	return out, true
}

const ctrBad = "error: malformed ops"

func ctrStablemap(ops [][]string) string {
	var m stablemap.Map[int, int]
	res := []string{}
	for _, op := range ops {
		a, ok := ctrAtois(op[1:])
		if !ok {
			return ctrBad
		}
		switch {
		case op[0] == "P" && len(a) == 2:
			m.Put(a[0], a[1])
			res = append(res, "-")
		case op[0] == "G" && len(a) == 1:
			v, ok := m.Get(a[0])
			res = append(res, fmt.Sprintf("%d %v", v, ok))
		case op[0] == "Z" && len(a) == 1:
			res = append(res, strconv.Itoa(m.GetOrZero(a[0])))
		case op[0] == "H" && len(a) == 1:
			res = append(res, strconv.FormatBool(m.Has(a[0])))
		case op[0] == "L" && len(a) == 0:
			res = append(res, strconv.Itoa(m.Len()))
		case op[0] == "R" && len(a) == 1:
			m.Remove(a[0])
			res = append(res, "-")
		case op[0] == "C" && len(a) == 0:
			m.Clear()
			res = append(res, "-")
		case op[0] == "F" && len(a) == 0:
			parts := []string{}
			m.ForEach(func(k, v int) { parts = append(parts, fmt.Sprintf("%d:%d", k, v)) })
			res = append(res, strings.Join(parts, " "))
		case op[0] == "K" && len(a) == 0:
			res = append(res, ctrInts(m.Keys()))
		case op[0] == "V" && len(a) == 0:
			res = append(res, ctrInts(m.Values()))
		default:
			return ctrBad
		}
	}
	return strings.Join(res, ";")
}

func ctrSet(ops [][]string) string {
	var sets [ctrNSets]set.Set[int]
	res := []string{}
	reg := func(i int) bool { return i >= 0 && i < ctrNSets }
	for _, op := range ops {
		a, ok := ctrAtois(op[1:])
		if !ok || len(a) == 0 || !reg(a[0]) {
			return ctrBad
		}
		r := a[0]
		switch {
		case op[0] == "A" && len(a) == 2:
			res = append(res, strconv.FormatBool(sets[r].Add(a[1])))
		case op[0] == "S":
			res = append(res, strconv.FormatBool(sets[r].AddSlice(a[1:])))
		case op[0] == "U" && len(a) == 2 && reg(a[1]):
			res = append(res, strconv.FormatBool(sets[r].AddSet(sets[a[1]])))
		case op[0] == "R" && len(a) == 2:
			sets[r].Remove(a[1])
			res = append(res, "-")
		case op[0] == "H" && len(a) == 2:
			res = append(res, strconv.FormatBool(sets[r].Has(a[1])))
		case op[0] == "E" && len(a) == 1:
			res = append(res, strconv.FormatBool(sets[r].Empty()))
		case op[0] == "L" && len(a) == 1:
			res = append(res, strconv.Itoa(sets[r].Len()))
		case op[0] == "X" && len(a) == 1:
			res = append(res, ctrInts(sets[r].Elements()))
		case op[0] == "Q" && len(a) == 2 && reg(a[1]):
			res = append(res, strconv.FormatBool(sets[r].Equal(sets[a[1]])))
		case op[0] == "F" && len(a) == 1:
			xs := []int{}
			sets[r].ForEach(func(e int) { xs = append(xs, e) })
			res = append(res, ctrInts(xs))
		case op[0] == "N" && len(a) == 2 && reg(a[1]):
			sets[r] = sets[a[1]].Clone()
			res = append(res, "-")
		case op[0] == "C" && len(a) == 1:
			sets[r].Clear()
			res = append(res, "-")
		case op[0] == "W":
			sets[r] = set.New(a[1:]...)
			res = append(res, "-")
		default:
			return ctrBad
		}
	}
	return strings.Join(res, ";")
}

func ctrMultimap(ops [][]string) string {
	var m stablemap.MultiMap[int, int]
	res := []string{}
	for _, op := range ops {
		a, ok := ctrAtois(op[1:])
		if !ok {
			return ctrBad
		}
		switch {
		case op[0] == "A" && len(a) == 2:
			m.Add(a[0], a[1])
			res = append(res, "-")
		case op[0] == "G" && len(a) == 1:
			arr, ok := m.Get(a[0])
			res = append(res, fmt.Sprintf("%v:%s", ok, ctrInts(arr.Elements())))
		case op[0] == "H" && len(a) == 1:
			res = append(res, strconv.FormatBool(m.Has(a[0])))
		case op[0] == "L" && len(a) == 0:
			res = append(res, strconv.Itoa(m.Len()))
		case op[0] == "R" && len(a) == 1:
			m.Remove(a[0])
			res = append(res, "-")
		case op[0] == "C" && len(a) == 0:
			m.Clear()
			res = append(res, "-")
		case op[0] == "K" && len(a) == 0:
			res = append(res, ctrInts(m.Keys()))
		case op[0] == "F" && len(a) == 0:
			parts := []string{}
			m.ForEach(func(k int, arr *array.Array[int]) {
				parts = append(parts, fmt.Sprintf("%d:[%s]", k, ctrInts(arr.Elements())))
			})
			res = append(res, strings.Join(parts, " "))
		default:
			return ctrBad
		}
	}
	return strings.Join(res, ";")
}

func ctrStack(ops [][]string) string {
	var s stack.Stack[int]
	res := []string{}
	for _, op := range ops {
		a, ok := ctrAtois(op[1:])
		if !ok {
			return ctrBad
		}
		switch {
		case op[0] == "P" && len(a) == 1:
			s.Push(a[0])
			res = append(res, "-")
		case op[0] == "O" && len(a) == 0:
			res = append(res, strconv.Itoa(s.Pop()))
		case op[0] == "T" && len(a) == 0:
			res = append(res, strconv.Itoa(s.Peek()))
		case op[0] == "L" && len(a) == 0:
			res = append(res, strconv.Itoa(s.Len()))
		case op[0] == "E" && len(a) == 0:
			res = append(res, strconv.FormatBool(s.Empty()))
		case op[0] == "X" && len(a) == 0:
			res = append(res, ctrInts(s.Elements()))
		default:
			return ctrBad
		}
	}
	return strings.Join(res, ";")
}

func ctrArray(ops [][]string) string {
	var s array.Array[int]
	res := []string{}
	for _, op := range ops {
		a, ok := ctrAtois(op[1:])
		if !ok {
			return ctrBad
		}
		switch {
		case op[0] == "A" && len(a) == 1:
			s.Add(a[0])
			res = append(res, "-")
		case op[0] == "G" && len(a) == 1:
			res = append(res, strconv.Itoa(s.Get(a[0])))
		case op[0] == "L" && len(a) == 0:
			res = append(res, strconv.Itoa(s.Len()))
		case op[0] == "E" && len(a) == 0:
			res = append(res, strconv.FormatBool(s.Empty()))
		case op[0] == "X" && len(a) == 0:
			res = append(res, ctrInts(s.Elements()))
		case op[0] == "D" && len(a) == 1 && a[0] > 0:
			m := a[0]
			s.DeleteFunc(func(e int) bool { return e%m == 0 })
			res = append(res, "-")
		default:
			return ctrBad
		}
	}
	return strings.Join(res, ";")
}

func containersImpl(line string) (res string) {
	defer func() {
		if r := recover(); r != nil {
			res = ctrPanicText(r)
		}
	}()
	op, payload, _ := strings.Cut(line, " ")
	ops := ctrSplit(payload)
	switch op {
	case "dec.stablemap":
		return ctrStablemap(ops)
	case "dec.set":
		return ctrSet(ops)
	case "dec.multimap":
		return ctrMultimap(ops)
	case "dec.stack":
		return ctrStack(ops)
	case "dec.array":
		return ctrArray(ops)
	}
	return "bad-op"
}

// ---- the property's own oracle: naive insertion-ordered references (slices, linear search) ----

type ctrKV struct {
	k  int
	v  int
	vs []int
}

func ctrFind(es []ctrKV, k int) int {
	for i := range es {
		if es[i].k == k {
			return i
		}
	}
	return -1
}

func ctrRefStablemap(ops [][]string) string {
	es := []ctrKV{}
	res := []string{}
	for _, op := range ops {
		a, _ := ctrAtois(op[1:])
		switch op[0] {
		case "P":
			if i := ctrFind(es, a[0]); i >= 0 {
				es[i].v = a[1]
			} else {
				es = append(es, ctrKV{k: a[0], v: a[1]})
			}
			res = append(res, "-")
		case "G":
			if i := ctrFind(es, a[0]); i >= 0 {
				res = append(res, fmt.Sprintf("%d true", es[i].v))
			} else {
				res = append(res, "0 false")
			}
		case "Z":
			if i := ctrFind(es, a[0]); i >= 0 {
				res = append(res, strconv.Itoa(es[i].v))
			} else {
				res = append(res, "0")
			}
		case "H":
			res = append(res, strconv.FormatBool(ctrFind(es, a[0]) >= 0))
		case "L":
			res = append(res, strconv.Itoa(len(es)))
		case "R":
			if i := ctrFind(es, a[0]); i >= 0 {
				es = append(es[:i:i], es[i+1:]...)
			}
			res = append(res, "-")
		case "C":
			es = []ctrKV{}
			res = append(res, "-")
		case "F":
			parts := []string{}
			for _, e := range es {
				parts = append(parts, fmt.Sprintf("%d:%d", e.k, e.v))
			}
			res = append(res, strings.Join(parts, " "))
		case "K":
			xs := []int{}
			for _, e := range es {
				xs = append(xs, e.k)
			}
			res = append(res, ctrInts(xs))
		case "V":
			xs := []int{}
			for _, e := range es {
				xs = append(xs, e.v)
			}
			res = append(res, ctrInts(xs))
		}
	}
	return strings.Join(res, ";")
}

func ctrHasInt(xs []int, x int) bool {
	for _, y := range xs {
		if y == x {
			return true
		}
	}
	return false
}

func ctrRefSet(ops [][]string) string {
	var sets [ctrNSets][]int
	res := []string{}
	addAll := func(r int, xs []int) bool {
		changed := false
		for _, x := range xs {
			if !ctrHasInt(sets[r], x) {
				sets[r] = append(sets[r], x)
				changed = true
			}
		}
		return changed
	}
	for _, op := range ops {
		a, _ := ctrAtois(op[1:])
		r := a[0]
		switch op[0] {
		case "A":
			res = append(res, strconv.FormatBool(addAll(r, a[1:2])))
		case "S":
			res = append(res, strconv.FormatBool(addAll(r, a[1:])))
		case "U":
			res = append(res, strconv.FormatBool(addAll(r, append([]int{}, sets[a[1]]...))))
		case "R":
			out := []int{}
			for _, x := range sets[r] {
				if x != a[1] {
					out = append(out, x)
				}
			}
			sets[r] = out
			res = append(res, "-")
		case "H":
			res = append(res, strconv.FormatBool(ctrHasInt(sets[r], a[1])))
		case "E":
			res = append(res, strconv.FormatBool(len(sets[r]) == 0))
		case "L":
			res = append(res, strconv.Itoa(len(sets[r])))
		case "X", "F":
			res = append(res, ctrInts(sets[r]))
		case "Q": // set equality
			eq := true
			for _, x := range sets[r] {
				eq = eq && ctrHasInt(sets[a[1]], x)
			}
			for _, x := range sets[a[1]] {
				eq = eq && ctrHasInt(sets[r], x)
			}
			res = append(res, strconv.FormatBool(eq))
		case "N":
			sets[r] = append([]int{}, sets[a[1]]...)
			res = append(res, "-")
		case "C":
			sets[r] = nil
			res = append(res, "-")
		case "W":
			sets[r] = nil
			addAll(r, a[1:])
			res = append(res, "-")
		}
	}
	return strings.Join(res, ";")
}

func ctrRefMultimap(ops [][]string) string {
	es := []ctrKV{}
	res := []string{}
	for _, op := range ops {
		a, _ := ctrAtois(op[1:])
		switch op[0] {
		case "A":
			if i := ctrFind(es, a[0]); i >= 0 {
				es[i].vs = append(es[i].vs, a[1])
			} else {
				es = append(es, ctrKV{k: a[0], vs: []int{a[1]}})
			}
			res = append(res, "-")
		case "G":
			if i := ctrFind(es, a[0]); i >= 0 {
				res = append(res, "true:"+ctrInts(es[i].vs))
			} else {
				res = append(res, "false:")
			}
		case "H":
			res = append(res, strconv.FormatBool(ctrFind(es, a[0]) >= 0))
		case "L":
			res = append(res, strconv.Itoa(len(es)))
		case "R":
			if i := ctrFind(es, a[0]); i >= 0 {
				es = append(es[:i:i], es[i+1:]...)
			}
			res = append(res, "-")
		case "C":
			es = []ctrKV{}
			res = append(res, "-")
		case "K":
			xs := []int{}
			for _, e := range es {
				xs = append(xs, e.k)
			}
			res = append(res, ctrInts(xs))
		case "F":
			parts := []string{}
			for _, e := range es {
				parts = append(parts, fmt.Sprintf("%d:[%s]", e.k, ctrInts(e.vs)))
			}
			res = append(res, strings.Join(parts, " "))
		}
	}
	return strings.Join(res, ";")
}

// containersOracle compares the implementation's answer with the insertion-order reference;
// "" = agrees / not applicable (malformed line, stack, array: the slice is its own reference).
func containersOracle(line, impl string) string {
	if impl == ctrBad || impl == "bad-op" {
		return ""
	}
	op, payload, _ := strings.Cut(line, " ")
	ops := ctrSplit(payload)
	want := ""
	switch op {
	case "dec.stablemap":
		want = ctrRefStablemap(ops)
	case "dec.set":
		want = ctrRefSet(ops)
	case "dec.multimap":
		want = ctrRefMultimap(ops)
	default:
		return ""
	}
	if want == impl {
		return ""
	}
	wa, ia := strings.Split(want, ";"), strings.Split(impl, ";")
	for i := 0; i < len(wa) && i < len(ia); i++ {
		if wa[i] != ia[i] {
			return fmt.Sprintf("result %d (%s): insertion-order reference %q, implementation %q", i, strings.Join(ops[i], " "), wa[i], ia[i])
		}
	}
	return fmt.Sprintf("insertion-order reference %q, implementation %q", trunc(want, 300), trunc(impl, 300))
}

// ---- generators ----

type ctrGen struct {
	r    *Rng
	keys int // size of the key space
}

func (g *ctrGen) key() int {
	if g.r.Chance(1, 40) {
		return Pick(g.r, []int{-1, 0, 1 << 40, -(1 << 40), 9223372036854775807, -9223372036854775808})
	}
	return 1 + g.r.Intn(g.keys)
}

func (g *ctrGen) val() int {
	if g.r.Chance(1, 30) {
		return Pick(g.r, []int{0, -1, 1 << 40, -(1 << 40), 9223372036854775807, -9223372036854775808})
	}
	return g.r.Intn(100)
}

func (g *ctrGen) length(c *Ctx) int {
	switch g.r.Intn(10) {
	case 0:
		return g.r.Intn(3)
	case 1, 2, 3, 4:
		return 1 + g.r.Intn(12)
	case 5, 6, 7:
		return 10 + g.r.Intn(50)
	case 8:
		return 50 + g.r.Intn(250)
	}
	if c.Tier == "thorough" {
		return 300 + g.r.Intn(1500)
	}
	return 100 + g.r.Intn(300)
}

func (g *ctrGen) stablemapSeq(c *Ctx) string {
	n := g.length(c)
	ops := make([]string, 0, n)
	live := []int{} // keys believed present (only to steer the choice, never to predict)
	for i := 0; i < n; i++ {
		k := g.key()
		if len(live) > 0 && g.r.Chance(1, 3) {
			k = Pick(g.r, live)
		}
		switch x := g.r.Intn(100); {
		case x < 34:
			ops = append(ops, fmt.Sprintf("P %d %d", k, g.val()))
			live = append(live, k)
		case x < 50:
			ops = append(ops, fmt.Sprintf("R %d", k))
			for j, l := range live {
				if l == k {
					live = append(live[:j:j], live[j+1:]...)
					break
				}
			}
		case x < 58:
			ops = append(ops, "K")
		case x < 63:
			ops = append(ops, "V")
		case x < 68:
			ops = append(ops, "F")
		case x < 75:
			ops = append(ops, fmt.Sprintf("G %d", k))
		case x < 79:
			ops = append(ops, fmt.Sprintf("Z %d", k))
		case x < 86:
			ops = append(ops, fmt.Sprintf("H %d", k))
		case x < 92:
			ops = append(ops, "L")
		case x < 95:
			ops = append(ops, "C")
			live = live[:0]
		default: // remove first / last believed-live key
			if len(live) > 0 {
				if g.r.Bool() {
					ops = append(ops, fmt.Sprintf("R %d", live[0]))
					live = live[1:]
				} else {
					ops = append(ops, fmt.Sprintf("R %d", live[len(live)-1]))
					live = live[:len(live)-1]
				}
			} else {
				ops = append(ops, "K")
			}
		}
	}
	ops = append(ops, "F", "L")
	return "dec.stablemap " + strings.Join(ops, ";")
}

func (g *ctrGen) elems() string {
	n := g.r.Intn(6)
	xs := make([]int, n)
	for i := range xs {
		xs[i] = g.key()
	}
	if n == 0 {
		return ""
	}
	return " " + ctrInts(xs)
}

func (g *ctrGen) setSeq(c *Ctx) string {
	n := g.length(c)
	nreg := 1 + g.r.Intn(4)
	ops := make([]string, 0, n)
	for i := 0; i < n; i++ {
		r, o := g.r.Intn(nreg), g.r.Intn(nreg)
		switch x := g.r.Intn(100); {
		case x < 28:
			ops = append(ops, fmt.Sprintf("A %d %d", r, g.key()))
		case x < 36:
			ops = append(ops, fmt.Sprintf("S %d%s", r, g.elems()))
		case x < 46:
			ops = append(ops, fmt.Sprintf("U %d %d", r, o))
		case x < 58:
			ops = append(ops, fmt.Sprintf("R %d %d", r, g.key()))
		case x < 64:
			ops = append(ops, fmt.Sprintf("H %d %d", r, g.key()))
		case x < 67:
			ops = append(ops, fmt.Sprintf("E %d", r))
		case x < 71:
			ops = append(ops, fmt.Sprintf("L %d", r))
		case x < 79:
			ops = append(ops, fmt.Sprintf("X %d", r))
		case x < 86:
			ops = append(ops, fmt.Sprintf("Q %d %d", r, o))
		case x < 89:
			ops = append(ops, fmt.Sprintf("F %d", r))
		case x < 94:
			ops = append(ops, fmt.Sprintf("N %d %d", r, o))
		case x < 97:
			ops = append(ops, fmt.Sprintf("C %d", r))
		default:
			ops = append(ops, fmt.Sprintf("W %d%s", r, g.elems()))
		}
	}
	for r := 0; r < nreg; r++ {
		ops = append(ops, fmt.Sprintf("X %d", r))
	}
	return "dec.set " + strings.Join(ops, ";")
}

func (g *ctrGen) multimapSeq(c *Ctx) string {
	n := g.length(c)
	ops := make([]string, 0, n)
	for i := 0; i < n; i++ {
		k := g.key()
		switch x := g.r.Intn(100); {
		case x < 45:
			ops = append(ops, fmt.Sprintf("A %d %d", k, g.val()))
		case x < 57:
			ops = append(ops, fmt.Sprintf("G %d", k))
		case x < 69:
			ops = append(ops, fmt.Sprintf("R %d", k))
		case x < 79:
			ops = append(ops, "F")
		case x < 86:
			ops = append(ops, "K")
		case x < 91:
			ops = append(ops, fmt.Sprintf("H %d", k))
		case x < 96:
			ops = append(ops, "L")
		default:
			ops = append(ops, "C")
		}
	}
	ops = append(ops, "F")
	return "dec.multimap " + strings.Join(ops, ";")
}

func (g *ctrGen) stackSeq(c *Ctx) string {
	n := g.length(c)
	ops := make([]string, 0, n)
	depth := 0
	for i := 0; i < n; i++ {
		switch x := g.r.Intn(100); {
		case x < 45:
			ops = append(ops, fmt.Sprintf("P %d", g.val()))
			depth++
		case x < 70:
			if depth > 0 || g.r.Chance(1, 25) { // an occasional pop of the empty stack (panics)
				ops = append(ops, "O")
				if depth > 0 {
					depth--
				}
			}
		case x < 80:
			if depth > 0 || g.r.Chance(1, 25) {
				ops = append(ops, "T")
			}
		case x < 87:
			ops = append(ops, "L")
		case x < 92:
			ops = append(ops, "E")
		default:
			ops = append(ops, "X")
		}
	}
	ops = append(ops, "X")
	return "dec.stack " + strings.Join(ops, ";")
}

func (g *ctrGen) arraySeq(c *Ctx) string {
	n := g.length(c)
	ops := make([]string, 0, n)
	size := 0
	for i := 0; i < n; i++ {
		switch x := g.r.Intn(100); {
		case x < 45:
			ops = append(ops, fmt.Sprintf("A %d", g.val()))
			size++
		case x < 65:
			if g.r.Chance(1, 25) {
				ops = append(ops, fmt.Sprintf("G %d", Pick(g.r, []int{-1, size, size + 3})))
			} else if size > 0 {
				ops = append(ops, fmt.Sprintf("G %d", g.r.Intn(size)))
			}
		case x < 75:
			ops = append(ops, "L")
		case x < 80:
			ops = append(ops, "E")
		case x < 90:
			ops = append(ops, "X")
		default:
			ops = append(ops, fmt.Sprintf("D %d", 1+g.r.Intn(4)))
			size = 0 // unknown from here on; G picks indices that may be out of range
		}
	}
	ops = append(ops, "X")
	return "dec.array " + strings.Join(ops, ";")
}

var containersDirected = []string{
	// the zero value Map{}: every method before the first Put
	"dec.stablemap L;H 1;G 1;Z 1;R 1;C;K;V;F;L",
	"dec.stablemap C;C;R 0;K;P 0 0;K;V;G 0;Z 0;H 0;L",
	// the worked example of the property text
	"dec.stablemap P 1 10;P 2 20;P 1 11;R 1;P 1 12;K;V;F",
	// Put of an existing key keeps the position
	"dec.stablemap P 1 1;P 2 2;P 3 3;P 2 20;K;V;P 1 10;P 3 30;F",
	// Remove: absent, only, first, last, middle
	"dec.stablemap P 1 1;R 2;K;R 1;K;L;F;R 1;K",
	"dec.stablemap P 1 1;P 2 2;P 3 3;R 1;K;P 1 1;K;R 1;K",
	"dec.stablemap P 1 1;P 2 2;P 3 3;R 3;K;P 3 3;K;R 2;K;R 1;R 3;K;L",
	"dec.stablemap P 1 1;P 2 2;P 3 3;P 4 4;P 5 5;R 3;K;R 2;R 4;K;V",
	// Clear then reuse; Clear of an empty initialised map
	"dec.stablemap P 1 1;P 2 2;C;K;L;H 1;G 1;P 2 5;P 1 6;K;V;C;C;K;P 3 3;F",
	"dec.stablemap P 1 1;R 1;C;P 1 2;F",
	// interleaved Keys
	"dec.stablemap K;P 3 1;K;P 1 1;K;P 2 1;K;R 1;K;P 1 1;K;P 3 9;K;V",
	// zero value / zero key / negative and large keys
	"dec.stablemap P 0 0;G 0;Z 0;G 1;P -1 -1;P 9223372036854775807 -9223372036854775808;F;R 0;F",
	// Set
	"dec.set E 0;L 0;X 0;H 0 1;R 0 1;C 0;F 0;Q 0 1;U 0 1;N 1 0;X 1",
	"dec.set A 0 3;A 0 3;A 0 1;X 0;R 0 3;A 0 3;X 0;L 0;E 0",
	"dec.set S 0 1 2 1 3;S 0 3 2 1;S 0;X 0;S 0 4;X 0",
	"dec.set W 0 1 2 3;W 1 3 4 1 5;U 0 1;X 0;U 0 1;X 0;U 1 0;X 1;Q 0 1;U 0 0;X 0",
	"dec.set W 0 1 2 3;W 1 3 2 1;Q 0 1;Q 1 0;W 2 1 2;Q 0 2;Q 2 0;W 3 1 2 4;Q 0 3;Q 3 3;Q 4 5",
	"dec.set W 0 5 4 3;N 1 0;X 1;A 1 9;X 0;X 1;R 0 5;X 0;X 1;N 0 0;X 0;N 2 7;X 2;Q 2 7",
	"dec.set W 0 1 2 3;C 0;X 0;E 0;A 0 2;X 0;Q 0 1;C 1;Q 0 1;Q 1 2",
	"dec.set W 0 1 2;U 1 0;X 1;U 2 3;X 2;E 2;F 0;F 1",
	// MultiMap
	"dec.multimap G 1;H 1;L;K;F;R 1;C;A 1 5;G 1;F",
	"dec.multimap A 1 5;A 2 6;A 1 7;A 1 5;G 1;G 2;G 3;F;K;L",
	"dec.multimap A 1 5;A 2 6;R 1;A 1 8;F;C;A 2 1;A 2 2;F;G 1",
	// Stack, Array
	"dec.stack E;L;X;P 1;P 2;P 3;T;O;T;X;O;O;E;X",
	"dec.stack O",
	"dec.stack P 1;O;T",
	"dec.array E;L;X;A 1;A 2;A 3;A 4;G 0;G 3;D 2;X;L;D 1;X;E",
	"dec.array G 0",
	"dec.array A 5;G -1",
	"dec.array A 5;G 1",
}

func init() {
	register("containers", "internal/base containers (stablemap.Map, MultiMap, set.Set, stack, array) vs pointer-level models (C13)", func(c *Ctx) {
		if c.Replay != nil {
			for _, l := range c.Replay {
				res := containersImpl(l)
				c.EmitO(l, res, containersOracle(l, res))
			}
			return
		}
		emit := func(l string) {
			if !c.Distinct(l) {
				c.Count("duplicate")
				return
			}
			res := containersImpl(l)
			op, payload, _ := strings.Cut(l, " ")
			c.Count("kind:" + op)
			n := len(ctrSplit(payload))
			switch {
			case n <= 3:
				c.Count("ops:0-3")
			case n <= 15:
				c.Count("ops:4-15")
			case n <= 60:
				c.Count("ops:16-60")
			case n <= 300:
				c.Count("ops:61-300")
			default:
				c.Count("ops:>300")
			}
			if strings.HasPrefix(res, "panic") || strings.HasPrefix(res, "PANIC") {
				c.Count("result:" + strings.SplitN(res, ":", 2)[0])
			}
			o := containersOracle(l, res)
			if o != "" {
				c.Count("oracle-hit")
			}
			c.EmitO(l, res, o)
		}
		for _, l := range containersDirected {
			c.Count("directed")
			emit(l)
		}
		for i := 0; i < c.N; i++ {
			g := &ctrGen{r: c.Rng, keys: Pick(c.Rng, []int{1, 2, 3, 3, 4, 5, 8, 20})}
			switch x := c.Rng.Intn(100); {
			case x < 45:
				emit(g.stablemapSeq(c))
			case x < 75:
				emit(g.setSeq(c))
			case x < 88:
				emit(g.multimapSeq(c))
			case x < 94:
				emit(g.stackSeq(c))
			default:
				emit(g.arraySeq(c))
			}
		}
	})
}
