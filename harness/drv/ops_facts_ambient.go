//go:build verif

package main

import (
	"fmt"
	goast "go/ast"
	gotoken "go/token"
	gotypes "go/types"
	"sort"
	"strings"
)

// Family facts_ambient (C13): every syntactic site in the packages linked into cmd/lox through
// which something OTHER than the .lox files and the user's Go sources could reach the output:
//
//	ambient-call   calls into time, math/rand(/v2), crypto/rand, os/user, os/signal, net…, and the
//	               functions of os / runtime / path/filepath that read the environment, the clock,
//	               the process, the host or the working directory
//	ambient-var    uses of os.Args, os.Stdin (read by main only) and friends
//	map-iter       iteration over a built-in map that is NOT a `range` statement over a map value
//	               (those are in facts_mapranges): maps.Keys/Values/All, reflect MapKeys/MapRange,
//	               sync.Map.Range
//	dir-order      directory listings in directory order (File.Readdir/Readdirnames)
//	concurrency    go statements, select statements, channel sends/receives
//	address        %p / %v of a pointer is not recognisable syntactically; what is: conversions to
//	               uintptr, unsafe.Pointer, reflect Value.Pointer/UnsafeAddr
//
// Compared with /verif/expect/ambient_sources.json (each listed site carries the reason why it
// cannot influence a generated file or the --report text). Identity as for the other inventories:
// no line numbers.

var ambientPkgs = map[string]bool{
	"time": true, "math/rand": true, "math/rand/v2": true, "crypto/rand": true, "os/user": true,
	"os/signal": true, "net": true, "net/http": true, "os/exec": true, "syscall": true,
	"runtime/debug": true, "hash/maphash": true,
}

var ambientFuncs = map[string]map[string]bool{
	"os": {"Getenv": true, "LookupEnv": true, "Environ": true, "ExpandEnv": true, "Hostname": true, "Getpid": true,
		"Getppid": true, "Getuid": true, "Geteuid": true, "Getgid": true, "Getwd": true, "UserHomeDir": true,
		"UserCacheDir": true, "UserConfigDir": true, "TempDir": true, "Executable": true, "MkdirTemp": true,
		"CreateTemp": true, "Stat": true, "Lstat": true, "Chdir": true, "Getpagesize": true},
	"runtime": {"NumCPU": true, "GOMAXPROCS": true, "NumGoroutine": true, "Caller": true, "Callers": true,
		"Stack": true, "Version": true, "ReadMemStats": true, "GC": true, "SetFinalizer": true},
	"path/filepath": {"Abs": true, "EvalSymlinks": true},
	"maps":          {"Keys": true, "Values": true, "All": true, "Collect": true, "Insert": true},
	"golang.org/x/exp/maps": {"Keys": true, "Values": true},
	"unsafe":        {"Pointer": true},
}

var ambientVars = map[string]map[string]bool{
	"os":      {"Args": true, "Stdin": true},
	"runtime": {"GOOS": true, "GOARCH": true},
}

var ambientMethods = map[string]string{
	"Readdir": "dir-order", "Readdirnames": "dir-order", "ReadDir": "",
	"MapKeys": "map-iter", "MapRange": "map-iter", "Pointer": "address", "UnsafeAddr": "address", "UnsafePointer": "address",
}

func (fp *factPkgs) ambientSites() []*factSite {
	var out []*factSite
	for _, p := range fp.pkgs {
		rel := fp.rel(p)
		info := p.TypesInfo
		fp.forEachFunc(p, func(fname string, file *goast.File, body goast.Node) {
			ords := map[string]int{}
			add := func(kind string, n goast.Node, text string) {
				ords[kind]++
				s := &factSite{Pkg: rel, Func: fname, Kind: kind, Ord: ords[kind], Text: text, Pos: fp.pos(n)}
				s.ID = fmt.Sprintf("%s:%s:%s:%d:%s", s.Pkg, s.Func, s.Kind, s.Ord, s.Text)
				out = append(out, s)
			}
			goast.Inspect(body, func(n goast.Node) bool {
				switch x := n.(type) {
				case *goast.GoStmt:
					add("concurrency", x, "go "+fp.text(x.Call.Fun))
				case *goast.SelectStmt:
					add("concurrency", x, "select")
				case *goast.SendStmt:
					add("concurrency", x, "send "+fp.text(x.Chan))
				case *goast.UnaryExpr:
					if x.Op == gotoken.ARROW {
						add("concurrency", x, "recv "+fp.text(x.X))
					}
				case *goast.RangeStmt:
					if tv, ok := info.Types[x.X]; ok {
						switch tv.Type.Underlying().(type) {
						case *gotypes.Chan:
							add("concurrency", x, "range "+fp.text(x.X))
						}
					}
				case *goast.BasicLit:
					if x.Kind == gotoken.STRING && strings.Contains(x.Value, "%p") {
						add("address", x, "format verb %p in "+fp.text(x))
					}
				case *goast.SelectorExpr:
					if obj, ok := info.Uses[x.Sel].(*gotypes.Var); ok && obj.Pkg() != nil && !obj.IsField() {
						if ambientVars[obj.Pkg().Path()][obj.Name()] {
							add("ambient-var", x, obj.Pkg().Path()+"."+obj.Name())
						}
					}
				case *goast.CallExpr:
					pkg, name := calleePkgFunc(info, x)
					if pkg != "" {
						// package-level function or method of a named type of that package
						var recv string
						if sel, ok := x.Fun.(*goast.SelectorExpr); ok {
							if fn, ok := info.Uses[sel.Sel].(*gotypes.Func); ok {
								if sig, ok := fn.Type().(*gotypes.Signature); ok && sig.Recv() != nil {
									recv = sig.Recv().Type().String()
								}
							}
						}
						switch {
						case ambientPkgs[pkg]:
							add("ambient-call", x, pkg+"."+strings.TrimPrefix(recv+".", ".")+name)
						case recv == "" && ambientFuncs[pkg][name]:
							kind := "ambient-call"
							if pkg == "maps" || pkg == "golang.org/x/exp/maps" {
								kind = "map-iter"
							}
							if pkg == "unsafe" {
								kind = "address"
							}
							add(kind, x, pkg+"."+name)
						case recv != "":
							if k, ok := ambientMethods[name]; ok && k != "" && (pkg == "os" || pkg == "reflect") {
								add(k, x, recv+"."+name)
							}
							if pkg == "sync" && name == "Range" {
								add("map-iter", x, recv+".Range")
							}
						}
					}
					// conversions to uintptr / unsafe.Pointer
					if tv, ok := info.Types[x.Fun]; ok && tv.IsType() {
						if b, ok := tv.Type.Underlying().(*gotypes.Basic); ok && (b.Kind() == gotypes.Uintptr || b.Kind() == gotypes.UnsafePointer) {
							add("address", x, "conversion to "+tv.Type.String())
						}
					}
				}
				return true
			})
		})
	}
	sort.Slice(out, func(i, j int) bool { return out[i].ID < out[j].ID })
	return out
}

func init() {
	register("facts_ambient", "C13: every site through which clock, environment, process, host, working directory, map iteration in disguise, directory order, goroutines or addresses could reach the output (packages linked into cmd/lox)", func(c *Ctx) {
		fp := loadRepoPackages()
		emitFacts(c, fp, fp.ambientSites())
	})
}
