//go:build verif

package main

import "fmt"

// Curated lexer specifications: shapes that exposed defects before; every lexgen run starts with them.

func lit(s string, card string) *LTerm {
	var cs []int
	for _, r := range s {
		cs = append(cs, int(r))
	}
	return &LTerm{Kind: LLit, Lit: cs, Card: card}
}

func cls(neg bool, card string, rs ...RRange) *LTerm {
	return &LTerm{Kind: LClass, Class: &LClassExpr{Neg: neg, Items: rs}, Card: card}
}

func grp(card string, alts ...[]*LTerm) *LTerm {
	return &LTerm{Kind: LGroup, Group: &LExpr{Alts: alts}, Card: card}
}

func seq(ts ...*LTerm) *LExpr { return &LExpr{Alts: [][]*LTerm{ts}} }

func tokRule(e *LExpr, acts ...LAct) *LRule  { return &LRule{Expr: e, Acts: acts} }
func fragRule(e *LExpr, acts ...LAct) *LRule { return &LRule{Frag: true, Expr: e, Acts: acts} }

// finishSpec numbers the tokens in textual order (all mode blocks are written after the default rules).
func finishSpec(modes ...*LMode) *LSpec {
	s := &LSpec{Modes: modes, BlockAt: make([]int, len(modes))}
	for k := range modes {
		s.BlockAt[k] = len(modes[0].Rules)
	}
	for _, m := range modes {
		for _, ru := range m.Rules {
			if !ru.Frag {
				ru.Tok = len(s.TokenNames)
				ru.Name = fmt.Sprintf("T%d", len(s.TokenNames))
				s.TokenNames = append(s.TokenNames, ru.Name)
			}
		}
	}
	return s
}

func curatedLexSpecs() []*LSpec {
	az := RRange{'a', 'z'}
	ws := fragRule(seq(cls(false, "+", RRange{' ', ' '}, RRange{'\n', '\n'})), LAct{Kind: "discard"})
	var out []*LSpec
	// start state with a self loop: one rule `X* Y` alone in its mode (minimisation merges the start state)
	out = append(out, finishSpec(&LMode{Rules: []*LRule{tokRule(seq(lit("a", "*"), lit("b", "")))}}))
	out = append(out, finishSpec(&LMode{Rules: []*LRule{tokRule(seq(cls(true, "*", RRange{'\n', '\n'}), lit("\n", "")))}}))
	out = append(out, finishSpec(&LMode{Rules: []*LRule{tokRule(seq(lit("a", ""), grp("*", []*LTerm{lit("b", ""), lit("a", "")})))}}))
	out = append(out, finishSpec(&LMode{Rules: []*LRule{tokRule(seq(grp("*", []*LTerm{cls(false, "+", az), lit("/", "")}), lit(">", "")))}}))
	// the same inside a pushed mode: string body
	out = append(out, finishSpec(
		&LMode{Rules: []*LRule{fragRule(seq(lit("\"", "")), LAct{Kind: "push", Mode: 1}), tokRule(seq(cls(false, "+", az))), ws}},
		&LMode{Name: "Str", Rules: []*LRule{tokRule(seq(cls(true, "*", RRange{'"', '"'}), lit("\"", "")), LAct{Kind: "pop"})}}))
	// replace-the-mode rules: pop then push on one rule, in both written orders, three modes
	out = append(out, finishSpec(
		&LMode{Rules: []*LRule{tokRule(seq(lit("a", "")), LAct{Kind: "push", Mode: 1}), tokRule(seq(lit("d", ""))), ws}},
		&LMode{Name: "One", Rules: []*LRule{tokRule(seq(lit("b", "")), LAct{Kind: "pop"}, LAct{Kind: "push", Mode: 2}), tokRule(seq(lit("x", ""))),
			fragRule(seq(lit("q", "")), LAct{Kind: "pop"}, LAct{Kind: "push", Mode: 2}, LAct{Kind: "discard"})}},
		&LMode{Name: "Two", Rules: []*LRule{tokRule(seq(lit("c", "")), LAct{Kind: "pop"}), tokRule(seq(lit("y", ""))),
			fragRule(seq(lit("p", "")), LAct{Kind: "push", Mode: 1}, LAct{Kind: "pop"})}}))
	// nesting of any depth: a mode that pushes itself (parentheses), the default mode re-entered from inside (interpolation)
	out = append(out, finishSpec(
		&LMode{Rules: []*LRule{tokRule(seq(lit("(", "")), LAct{Kind: "push", Mode: 1}), tokRule(seq(cls(false, "+", az))), ws}},
		&LMode{Name: "In", Rules: []*LRule{tokRule(seq(lit("(", "")), LAct{Kind: "push", Mode: 1}), tokRule(seq(lit(")", "")), LAct{Kind: "pop"}),
			tokRule(seq(cls(false, "+", RRange{'0', '9'}))), ws}}))
	out = append(out, finishSpec(
		&LMode{Rules: []*LRule{fragRule(seq(lit("\"", "")), LAct{Kind: "push", Mode: 1}), tokRule(seq(lit("}", "")), LAct{Kind: "pop"}), tokRule(seq(cls(false, "+", az))), ws}},
		&LMode{Name: "Str", Rules: []*LRule{tokRule(seq(lit("${", "")), LAct{Kind: "push", Mode: 0}), tokRule(seq(lit("\"", "")), LAct{Kind: "pop"}),
			tokRule(seq(cls(true, "", RRange{'"', '"'}, RRange{'$', '$'})))}}))
	// mode names whose byte order and case-folded order differ (Tag < attr bytewise, attr < tag ignoring case), both pushed
	out = append(out, finishSpec(
		&LMode{Rules: []*LRule{tokRule(seq(lit("<", "")), LAct{Kind: "push", Mode: 1}), tokRule(seq(cls(false, "+", az))), ws}},
		&LMode{Name: "Tag", Rules: []*LRule{tokRule(seq(lit("=", "")), LAct{Kind: "push", Mode: 2}), tokRule(seq(lit(">", "")), LAct{Kind: "pop"}), tokRule(seq(cls(false, "+", az))), ws}},
		&LMode{Name: "attr", Rules: []*LRule{tokRule(seq(cls(false, "+", RRange{'0', '9'})), LAct{Kind: "pop"}), tokRule(seq(lit("'", ""), cls(true, "*", RRange{'\'', '\''}), lit("'", "")), LAct{Kind: "pop"})}}))
	// priority: keyword vs identifier sharing states; a later rule whose every first character also starts an earlier rule
	out = append(out, finishSpec(&LMode{Rules: []*LRule{
		tokRule(seq(lit("0x", ""), cls(false, "+", RRange{'0', '9'}, RRange{'a', 'f'}))), tokRule(seq(lit("1", ""))),
		tokRule(seq(cls(false, "+", RRange{'0', '1'}))), ws}}))
	out = append(out, finishSpec(&LMode{Rules: []*LRule{
		tokRule(seq(lit("bz", ""))), tokRule(seq(lit("a", ""))), tokRule(&LExpr{Alts: [][]*LTerm{{lit("a", "")}, {lit("bc", "")}}}), ws}}))
	out = append(out, finishSpec(&LMode{Rules: []*LRule{
		tokRule(seq(lit("if", ""))), tokRule(seq(lit("in", ""))), tokRule(seq(cls(false, "", az), cls(false, "*", az, RRange{'0', '9'}))),
		tokRule(seq(cls(false, "+", RRange{'0', '9'}), grp("?", []*LTerm{lit(".", ""), cls(false, "+", RRange{'0', '9'})}))), ws}}))
	// overlapping classes that must be split into pieces; a literal inside the overlap
	out = append(out, finishSpec(&LMode{Rules: []*LRule{
		tokRule(seq(cls(false, "", RRange{'a', 'm'}))), tokRule(seq(cls(false, "", RRange{'h', 'z'}), lit("!", ""))), tokRule(seq(lit("k", ""), lit("?", ""))), ws}}))
	// a rule that can match the EMPTY string and carries mode actions ends a pushed mode (the idiom of
	// examples/bolox): its actions take effect wherever the mode cannot go on, also at the end of the input
	out = append(out, finishSpec(
		&LMode{Rules: []*LRule{tokRule(seq(lit("<", "")), LAct{Kind: "push", Mode: 1}), tokRule(seq(cls(false, "+", RRange{'0', '9'}))), tokRule(seq(lit("%", ""))), ws}},
		&LMode{Name: "Name", Rules: []*LRule{fragRule(seq(cls(false, "", az))), fragRule(seq(cls(false, "*", RRange{' ', ' '})), LAct{Kind: "pop"}, LAct{Kind: "emit", Tok: 2})}}))
	out = append(out, finishSpec(
		&LMode{Rules: []*LRule{tokRule(seq(lit("(", "")), LAct{Kind: "push", Mode: 1}), tokRule(seq(cls(false, "+", az))), ws}},
		&LMode{Name: "In", Rules: []*LRule{tokRule(seq(cls(false, "+", RRange{'0', '9'}))), tokRule(seq(lit(")", "?")), LAct{Kind: "pop"})}}))
	// many single-character tokens, one of them also covered by a class token: DFA states with several accepting
	// NFA states next to leaves with one (state-merging criteria in minimisation; NFA state numbers 1 … 40)
	for _, classAt := range []int{1, 0, 4} {
		var rules []*LRule
		for i := 0; i < 16; i++ {
			if i == classAt {
				rules = append(rules, tokRule(seq(cls(false, "", RRange{'a', 'b'}, RRange{'q', 'q'}))))
			}
			rules = append(rules, tokRule(seq(lit(string(rune('a'+i)), ""))))
		}
		rules = append(rules, ws)
		out = append(out, finishSpec(&LMode{Rules: rules}))
	}
	// more than 256 terminals: token numbers that differ by a multiple of 256 (row sharing keys, byte-sized
	// encodings); leaf accepting states of the same mode differ in the token number only
	{
		var rules []*LRule
		for i := 0; i < 300; i++ {
			rules = append(rules, tokRule(seq(lit(fmt.Sprintf("k%03d", i), ""))))
		}
		rules = append(rules, ws)
		out = append(out, finishSpec(&LMode{Rules: rules}))
	}
	return out
}
