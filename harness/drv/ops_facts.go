//go:build verif

package main

import (
	"bytes"
	"fmt"
	goast "go/ast"
	goprinter "go/printer"
	gotoken "go/token"
	gotypes "go/types"
	"os"
	"path/filepath"
	"sort"
	"strings"

	"golang.org/x/tools/go/packages"
)

// Fact extractor (C12, C13). Loads `./...` of the repository root FROM THE CURRENT WORKING
// TREE (go/packages, non-test files), keeps the packages of the module that the lox command
// actually links (cmd/lox and everything of the module it imports transitively) and lists
//
//	family facts_panics     every site that can raise a Go panic by construction:
//	                        panic(..) calls, assert.* calls, single-value type assertions,
//	                        index/slice expressions with a non-constant index, strconv parses
//	family facts_mapranges  every `range` over a built-in map, with a mechanical classification
//	                        of what the loop body does with the iteration order
//
// A site is identified WITHOUT line numbers:
//
//	<pkg path inside the module>:<enclosing func or Recv.method>:<kind>:<ordinal of this kind in the func>:<normalised text>
//
// so that edits elsewhere in a file do not move it, while a new site, a removed site or a
// changed expression does. Case lines are notes (`# site <id>`; echoed by the Lean driver);
// the full records go to meta.json (`extra.sites`) and are compared with
// /verif/expect/panic_sites.json and /verif/expect/map_ranges.json by lib/props/c12.py, c13.py.

type factSite struct {
	ID    string   `json:"id"`
	Pkg   string   `json:"pkg"`
	Func  string   `json:"func"`
	Kind  string   `json:"kind"`
	Ord   int      `json:"ord"`
	Text  string   `json:"text"`
	Pos   string   `json:"pos"`             // file:line, informative only (never compared)
	Auto  string   `json:"auto,omitempty"`  // mechanical guard recognised by the extractor (index sites)
	Class string   `json:"class,omitempty"` // map ranges: mechanical classification
	Fx    []string `json:"effects,omitempty"`
}

type factPkgs struct {
	fset   *gotoken.FileSet
	module string
	pkgs   []*packages.Package // linked into cmd/lox, sorted by path
	err    string
}

func loadRepoPackages() *factPkgs {
	fp := &factPkgs{fset: gotoken.NewFileSet()}
	cfg := &packages.Config{
		Mode: packages.NeedName | packages.NeedFiles | packages.NeedCompiledGoFiles | packages.NeedImports |
			packages.NeedSyntax | packages.NeedTypes | packages.NeedTypesInfo | packages.NeedModule,
		Dir:   repoRoot(),
		Fset:  fp.fset,
		Tests: false,
		Env:   append(os.Environ(), "GOFLAGS=-mod=mod", "GOPROXY=off", "GOSUMDB=off", "GOTOOLCHAIN=local"),
	}
	all, err := packages.Load(cfg, "./...")
	if err != nil {
		fp.err = err.Error()
		return fp
	}
	byPath := map[string]*packages.Package{}
	for _, p := range all {
		byPath[p.PkgPath] = p
		if p.Module != nil && fp.module == "" {
			fp.module = p.Module.Path
		}
	}
	root := byPath[fp.module+"/cmd/lox"]
	if root == nil {
		fp.err = "package cmd/lox not found under " + repoRoot()
		return fp
	}
	seen := map[string]bool{}
	var visit func(p *packages.Package)
	visit = func(p *packages.Package) {
		if seen[p.PkgPath] {
			return
		}
		seen[p.PkgPath] = true
		var imps []string
		for path := range p.Imports {
			imps = append(imps, path)
		}
		sort.Strings(imps)
		for _, path := range imps {
			if q := byPath[path]; q != nil && strings.HasPrefix(path, fp.module+"/") {
				visit(q)
			}
		}
	}
	visit(root)
	for path := range seen {
		p := byPath[path]
		for _, e := range p.Errors {
			fp.err += p.PkgPath + ": " + e.Error() + "; "
		}
		fp.pkgs = append(fp.pkgs, p)
	}
	sort.Slice(fp.pkgs, func(i, j int) bool { return fp.pkgs[i].PkgPath < fp.pkgs[j].PkgPath })
	return fp
}

func (fp *factPkgs) rel(p *packages.Package) string {
	return strings.TrimPrefix(strings.TrimPrefix(p.PkgPath, fp.module), "/")
}

func (fp *factPkgs) text(n goast.Node) string {
	var b bytes.Buffer
	goprinter.Fprint(&b, fp.fset, n)
	s := strings.Join(strings.Fields(b.String()), " ")
	if len(s) > 90 {
		s = s[:90] + "…"
	}
	return s
}

func (fp *factPkgs) pos(n goast.Node) string {
	p := fp.fset.Position(n.Pos())
	rel, err := filepath.Rel(repoRoot(), p.Filename)
	if err != nil {
		rel = p.Filename
	}
	return fmt.Sprintf("%s:%d", rel, p.Line)
}

func funcName(d *goast.FuncDecl) string {
	if d.Recv == nil || len(d.Recv.List) == 0 {
		return d.Name.Name
	}
	t := d.Recv.List[0].Type
	for {
		switch x := t.(type) {
		case *goast.StarExpr:
			t = x.X
			continue
		case *goast.IndexExpr:
			t = x.X
			continue
		case *goast.IndexListExpr:
			t = x.X
			continue
		case *goast.ParenExpr:
			t = x.X
			continue
		}
		break
	}
	if id, ok := t.(*goast.Ident); ok {
		return id.Name + "." + d.Name.Name
	}
	return d.Name.Name
}

// forEachFunc calls f for every top-level function body (name, node) and every package-level
// variable initialiser (name "<var NAME>") of the non-test files of p, in file-name order.
func (fp *factPkgs) forEachFunc(p *packages.Package, f func(name string, file *goast.File, body goast.Node)) {
	files := append([]*goast.File(nil), p.Syntax...)
	sort.Slice(files, func(i, j int) bool {
		return fp.fset.Position(files[i].Pos()).Filename < fp.fset.Position(files[j].Pos()).Filename
	})
	for _, file := range files {
		if strings.HasSuffix(fp.fset.Position(file.Pos()).Filename, "_test.go") {
			continue
		}
		for _, d := range file.Decls {
			switch d := d.(type) {
			case *goast.FuncDecl:
				if d.Body != nil {
					f(funcName(d), file, d)
				}
			case *goast.GenDecl:
				if d.Tok != gotoken.VAR {
					continue
				}
				for _, sp := range d.Specs {
					vs := sp.(*goast.ValueSpec)
					if len(vs.Values) > 0 && len(vs.Names) > 0 {
						f("<var "+vs.Names[0].Name+">", file, vs)
					}
				}
			}
		}
	}
}

// ---------------------------------------------------------------------------------------
// panic sites

// indexPackages: packages whose index/slice expressions are listed (the generator proper).
// The generic containers of internal/base are covered by their own panics/asserts only.
func wantsIndexSites(rel string) bool {
	switch {
	case rel == "cmd/lox", rel == "internal/codegen", rel == "internal/parser", rel == "internal/ast":
		return true
	case strings.HasPrefix(rel, "internal/lexergen/"), strings.HasPrefix(rel, "internal/parsergen/"):
		return true
	}
	return false
}

func isBuiltin(info *gotypes.Info, id *goast.Ident, name string) bool {
	if id.Name != name {
		return false
	}
	_, ok := info.Uses[id].(*gotypes.Builtin)
	return ok
}

func calleePkgFunc(info *gotypes.Info, call *goast.CallExpr) (pkgPath, name string) {
	fun := call.Fun
	for {
		switch x := fun.(type) {
		case *goast.ParenExpr:
			fun = x.X
			continue
		case *goast.IndexExpr: // explicit instantiation
			fun = x.X
			continue
		case *goast.IndexListExpr:
			fun = x.X
			continue
		}
		break
	}
	var id *goast.Ident
	switch x := fun.(type) {
	case *goast.Ident:
		id = x
	case *goast.SelectorExpr:
		id = x.Sel
	default:
		return "", ""
	}
	if fn, ok := info.Uses[id].(*gotypes.Func); ok && fn.Pkg() != nil {
		return fn.Pkg().Path(), fn.Name()
	}
	return "", ""
}

func sameObjectExpr(info *gotypes.Info, a, b goast.Expr) bool {
	// syntactic equality of simple paths x, x.f, x.f.g with identical root object
	for {
		pa, oka := a.(*goast.ParenExpr)
		if oka {
			a = pa.X
			continue
		}
		pb, okb := b.(*goast.ParenExpr)
		if okb {
			b = pb.X
			continue
		}
		break
	}
	switch x := a.(type) {
	case *goast.Ident:
		y, ok := b.(*goast.Ident)
		if !ok {
			return false
		}
		ox, oy := info.ObjectOf(x), info.ObjectOf(y)
		return ox != nil && ox == oy
	case *goast.SelectorExpr:
		y, ok := b.(*goast.SelectorExpr)
		return ok && x.Sel.Name == y.Sel.Name && sameObjectExpr(info, x.X, y.X)
	case *goast.StarExpr:
		y, ok := b.(*goast.StarExpr)
		return ok && sameObjectExpr(info, x.X, y.X)
	}
	return false
}

// autoGuard recognises the two loop shapes that make an index trivially in range:
//
//	for i := range X { … X[i] … }                       -> "range-key"
//	for i := c; i < len(X); i++ { … X[i] … }  (c const ≥ 0) -> "loop-len"
//
// provided i is not assigned in the body (checked syntactically).
func autoGuard(info *gotypes.Info, stack []goast.Node, x goast.Expr, index goast.Expr) string {
	id, ok := index.(*goast.Ident)
	if !ok {
		return ""
	}
	obj := info.ObjectOf(id)
	if obj == nil {
		return ""
	}
	assigned := func(body *goast.BlockStmt) bool {
		found := false
		goast.Inspect(body, func(n goast.Node) bool {
			switch s := n.(type) {
			case *goast.AssignStmt:
				for _, l := range s.Lhs {
					if li, ok := l.(*goast.Ident); ok && info.ObjectOf(li) == obj {
						found = true
					}
				}
			case *goast.IncDecStmt:
				if li, ok := s.X.(*goast.Ident); ok && info.ObjectOf(li) == obj {
					found = true
				}
			case *goast.UnaryExpr:
				if s.Op == gotoken.AND {
					if li, ok := s.X.(*goast.Ident); ok && info.ObjectOf(li) == obj {
						found = true
					}
				}
			}
			return true
		})
		return found
	}
	for k := len(stack) - 1; k >= 0; k-- {
		switch s := stack[k].(type) {
		case *goast.RangeStmt:
			if key, ok := s.Key.(*goast.Ident); ok && s.Tok == gotoken.DEFINE && info.ObjectOf(key) == obj {
				if sameObjectExpr(info, s.X, x) && !assigned(s.Body) {
					return "range-key"
				}
				return ""
			}
		case *goast.ForStmt:
			init, ok := s.Init.(*goast.AssignStmt)
			if !ok || init.Tok != gotoken.DEFINE || len(init.Lhs) != 1 {
				continue
			}
			li, ok := init.Lhs[0].(*goast.Ident)
			if !ok || info.ObjectOf(li) != obj {
				continue
			}
			tv, ok := info.Types[init.Rhs[0]]
			if !ok || tv.Value == nil || !strings.HasPrefix(tv.Value.ExactString(), "") || strings.HasPrefix(tv.Value.ExactString(), "-") {
				return ""
			}
			cond, ok := s.Cond.(*goast.BinaryExpr)
			if !ok || cond.Op != gotoken.LSS {
				return ""
			}
			ci, ok := cond.X.(*goast.Ident)
			if !ok || info.ObjectOf(ci) != obj {
				return ""
			}
			call, ok := cond.Y.(*goast.CallExpr)
			if !ok || len(call.Args) != 1 {
				return ""
			}
			fid, ok := call.Fun.(*goast.Ident)
			if !ok || !isBuiltin(info, fid, "len") || !sameObjectExpr(info, call.Args[0], x) {
				return ""
			}
			post, ok := s.Post.(*goast.IncDecStmt)
			if !ok || post.Tok != gotoken.INC {
				return ""
			}
			if assigned(s.Body) {
				return ""
			}
			return "loop-len"
		}
	}
	return ""
}

func (fp *factPkgs) panicSites() []*factSite {
	var out []*factSite
	for _, p := range fp.pkgs {
		rel := fp.rel(p)
		info := p.TypesInfo
		wantIdx := wantsIndexSites(rel)
		fp.forEachFunc(p, func(fname string, file *goast.File, body goast.Node) {
			ords := map[string]int{}
			add := func(kind string, n goast.Node, auto string) {
				ords[kind]++
				s := &factSite{Pkg: rel, Func: fname, Kind: kind, Ord: ords[kind], Text: fp.text(n), Pos: fp.pos(n), Auto: auto}
				s.ID = fmt.Sprintf("%s:%s:%s:%d:%s", s.Pkg, s.Func, s.Kind, s.Ord, s.Text)
				out = append(out, s)
			}
			var stack []goast.Node
			typeSwitchAsserts := map[*goast.TypeAssertExpr]bool{}
			goast.Inspect(body, func(n goast.Node) bool {
				if n == nil {
					stack = stack[:len(stack)-1]
					return true
				}
				stack = append(stack, n)
				switch x := n.(type) {
				case *goast.CallExpr:
					if id, ok := x.Fun.(*goast.Ident); ok && isBuiltin(info, id, "panic") {
						add("panic", x, "")
						break
					}
					pp, fn := calleePkgFunc(info, x)
					switch {
					case strings.HasSuffix(pp, "/internal/base/assert"):
						add("assert", x, "")
					case pp == "strconv" && (strings.HasPrefix(fn, "Parse") || fn == "Atoi" || strings.HasPrefix(fn, "Unquote")):
						add("strconv", x, "")
					}
				case *goast.TypeAssertExpr:
					if x.Type == nil {
						typeSwitchAsserts[x] = true
						break
					}
					if _, isTuple := info.TypeOf(x).(*gotypes.Tuple); isTuple {
						break // v, ok := x.(T)
					}
					add("typeassert", x, "")
				case *goast.IndexExpr:
					if !wantIdx {
						break
					}
					tv, ok := info.Types[x.X]
					if !ok || !tv.IsValue() {
						break // generic type instantiation
					}
					if _, isFunc := tv.Type.Underlying().(*gotypes.Signature); isFunc {
						break // generic function instantiation f[T]
					}
					switch u := tv.Type.Underlying().(type) {
					case *gotypes.Map:
						_ = u
						return true
					case *gotypes.TypeParam:
						return true
					}
					if itv, ok := info.Types[x.Index]; ok && itv.Value != nil {
						// constant index: still a site when the operand is a slice or string (length unknown)
						if _, isArr := tv.Type.Underlying().(*gotypes.Array); isArr {
							break
						}
						add("index", x, "const-index")
						break
					}
					add("index", x, autoGuard(info, stack[:len(stack)-1], x.X, x.Index))
				case *goast.BinaryExpr:
					if x.Op != gotoken.QUO && x.Op != gotoken.REM {
						break
					}
					if tv, ok := info.Types[x.Y]; ok && tv.Value == nil {
						if b, ok := tv.Type.Underlying().(*gotypes.Basic); ok && b.Info()&gotypes.IsInteger != 0 {
							add("div", x, "")
						}
					}
				case *goast.SliceExpr:
					if !wantIdx {
						break
					}
					if x.Low == nil && x.High == nil && x.Max == nil {
						break
					}
					add("slice", x, "")
				}
				return true
			})
		})
	}
	sort.Slice(out, func(i, j int) bool { return out[i].ID < out[j].ID })
	return out
}

// ---------------------------------------------------------------------------------------
// ranges over built-in maps

type rangeFx struct {
	fp        *factPkgs
	info      *gotypes.Info
	fn        goast.Node // enclosing top-level function
	loop      *goast.RangeStmt
	effects   []string
	appended  []gotypes.Object // slices appended to in the body (declared outside the body)
	appendedX []goast.Expr
	other     bool
	emits     bool
	inserts   bool
	stable    bool // inserts into an insertion-ordered container (stablemap / set)
	reduces   bool
	returns   []string
}

func (r *rangeFx) declaredInside(obj gotypes.Object) bool {
	return obj != nil && obj.Pos() >= r.loop.Pos() && obj.Pos() <= r.loop.End()
}

func rootIdent(e goast.Expr) *goast.Ident {
	for {
		switch x := e.(type) {
		case *goast.Ident:
			return x
		case *goast.SelectorExpr:
			e = x.X
		case *goast.IndexExpr:
			e = x.X
		case *goast.StarExpr:
			e = x.X
		case *goast.ParenExpr:
			e = x.X
		default:
			return nil
		}
	}
}

func (r *rangeFx) fx(s string) { r.effects = append(r.effects, s) }

// hasSideEffectCall reports calls inside an expression other than conversions, builtins
// len/cap/min/max and pure accessors that the classification treats as reads.
func (r *rangeFx) exprCalls(e goast.Node) {
	goast.Inspect(e, func(n goast.Node) bool {
		call, ok := n.(*goast.CallExpr)
		if !ok {
			return true
		}
		r.call(call)
		return true
	})
}

var pureMethods = map[string]bool{"Has": true, "Len": true, "Empty": true, "Get": true, "GetOrZero": true, "Name": true, "Pos": true,
	"Equal": true, "Elements": true, "Keys": true, "Values": true, "String": true, "Contains": true, "Identical": true, "HasError": true}
var insertMethods = map[string]bool{"Add": true, "AddSlice": true, "AddSet": true, "Put": true}

func (r *rangeFx) call(call *goast.CallExpr) {
	if tv, ok := r.info.Types[call.Fun]; ok && tv.IsType() {
		return // conversion
	}
	if id, ok := call.Fun.(*goast.Ident); ok {
		if _, isB := r.info.Uses[id].(*gotypes.Builtin); isB {
			switch id.Name {
			case "len", "cap", "min", "max", "append", "make", "new":
				return
			case "delete":
				r.inserts = true
				r.fx("delete:" + r.fp.text(call.Args[0]))
				return
			case "panic":
				r.fx("panic")
				return
			}
		}
	}
	pp, fn := calleePkgFunc(r.info, call)
	txt := r.fp.text(call.Fun)
	switch {
	case strings.HasSuffix(pp, "/internal/base/assert"):
		r.fx("assert")
	case pp == "fmt" && (strings.HasPrefix(fn, "Fprint") || strings.HasPrefix(fn, "Print")), pp == "io" && fn == "WriteString":
		r.emits = true
		r.fx("write:" + txt)
	case pp == "fmt" || pp == "strings" || pp == "strconv" || pp == "go/types" || pp == "cmp" || pp == "slices" && fn == "Contains":
		// pure helpers (Sprintf, HasPrefix, Identical …)
	case strings.HasSuffix(pp, "/internal/base/errlogger"):
		r.emits = true
		r.fx("diagnostic:" + txt)
	case strings.HasSuffix(pp, "/internal/base/set") || strings.HasSuffix(pp, "/internal/base/stablemap"):
		switch {
		case insertMethods[fn]:
			r.inserts, r.stable = true, true
			r.fx("ordered-insert:" + txt)
		case pureMethods[fn]:
		default:
			r.other = true
			r.fx("call:" + txt)
		}
	default:
		if sel, ok := call.Fun.(*goast.SelectorExpr); ok && pureMethods[sel.Sel.Name] {
			return
		}
		if sel, ok := call.Fun.(*goast.SelectorExpr); ok && (strings.HasPrefix(sel.Sel.Name, "Write") || strings.HasPrefix(sel.Sel.Name, "Print")) {
			r.emits = true
			r.fx("write:" + txt)
			return
		}
		r.other = true
		r.fx("call:" + txt)
	}
}

func (r *rangeFx) stmt(s goast.Stmt) {
	switch s := s.(type) {
	case nil:
	case *goast.BlockStmt:
		for _, t := range s.List {
			r.stmt(t)
		}
	case *goast.IfStmt:
		r.stmt(s.Init)
		r.exprCalls(s.Cond)
		r.stmt(s.Body)
		r.stmt(s.Else)
	case *goast.ForStmt:
		r.stmt(s.Init)
		if s.Cond != nil {
			r.exprCalls(s.Cond)
		}
		r.stmt(s.Post)
		r.stmt(s.Body)
	case *goast.RangeStmt:
		r.exprCalls(s.X)
		r.stmt(s.Body)
	case *goast.SwitchStmt:
		r.stmt(s.Init)
		if s.Tag != nil {
			r.exprCalls(s.Tag)
		}
		r.stmt(s.Body)
	case *goast.TypeSwitchStmt:
		r.stmt(s.Body)
	case *goast.CaseClause:
		for _, t := range s.Body {
			r.stmt(t)
		}
	case *goast.BranchStmt:
		if s.Tok == gotoken.BREAK || s.Tok == gotoken.GOTO {
			// leaving the loop early makes "which element was seen" order dependent
			inner := false
			_ = inner
			r.fx("branch:" + s.Tok.String())
		}
	case *goast.DeclStmt:
		r.exprCalls(s)
	case *goast.IncDecStmt:
		if id := rootIdent(s.X); id != nil && !r.declaredInside(r.info.ObjectOf(id)) {
			r.reduces = true
			r.fx("count:" + r.fp.text(s.X))
		}
	case *goast.ExprStmt:
		r.exprCalls(s.X)
	case *goast.ReturnStmt:
		var parts []string
		for _, e := range s.Results {
			r.exprCalls(e)
			parts = append(parts, r.fp.text(e))
		}
		r.returns = append(r.returns, strings.Join(parts, ","))
		r.fx("return:" + strings.Join(parts, ","))
	case *goast.AssignStmt:
		for _, e := range s.Rhs {
			r.exprCalls(e)
		}
		for i, l := range s.Lhs {
			if id, ok := l.(*goast.Ident); ok && (id.Name == "_" || s.Tok == gotoken.DEFINE || r.declaredInside(r.info.ObjectOf(id))) {
				continue // local of the body
			}
			root := rootIdent(l)
			if root != nil && r.declaredInside(r.info.ObjectOf(root)) {
				if _, isIdx := l.(*goast.IndexExpr); !isIdx {
					continue
				}
			}
			// x = append(x, …)
			if len(s.Rhs) == len(s.Lhs) {
				if call, ok := s.Rhs[i].(*goast.CallExpr); ok {
					if fid, ok := call.Fun.(*goast.Ident); ok && isBuiltin(r.info, fid, "append") && len(call.Args) > 0 && sameObjectExpr(r.info, l, call.Args[0]) {
						if root != nil {
							r.appended = append(r.appended, r.info.ObjectOf(root))
							r.appendedX = append(r.appendedX, l)
						}
						r.fx("append:" + r.fp.text(l))
						continue
					}
				}
			}
			// m[k] = v / m[k] op= v on a built-in map
			if ix, ok := l.(*goast.IndexExpr); ok {
				if tv, ok := r.info.Types[ix.X]; ok {
					if _, isMap := tv.Type.Underlying().(*gotypes.Map); isMap {
						r.inserts = true
						r.fx("mapset:" + r.fp.text(ix.X))
						continue
					}
				}
			}
			// boolean / numeric reductions
			switch s.Tok {
			case gotoken.OR_ASSIGN, gotoken.AND_ASSIGN, gotoken.ADD_ASSIGN, gotoken.XOR_ASSIGN:
				if tv, ok := r.info.Types[l]; ok {
					if b, ok := tv.Type.Underlying().(*gotypes.Basic); ok && b.Info()&(gotypes.IsInteger|gotypes.IsBoolean) != 0 {
						r.reduces = true
						r.fx("reduce:" + r.fp.text(l))
						continue
					}
				}
			case gotoken.ASSIGN:
				if len(s.Rhs) == len(s.Lhs) {
					if be, ok := s.Rhs[i].(*goast.BinaryExpr); ok && (be.Op == gotoken.LOR || be.Op == gotoken.LAND) &&
						(sameObjectExpr(r.info, be.X, l) || sameObjectExpr(r.info, be.Y, l)) {
						r.reduces = true
						r.fx("reduce:" + r.fp.text(l))
						continue
					}
					if tv, ok := r.info.Types[s.Rhs[i]]; ok && tv.Value != nil {
						r.reduces = true // flag = true / false
						r.fx("setconst:" + r.fp.text(l) + "=" + tv.Value.ExactString())
						continue
					}
				}
			}
			r.other = true
			r.fx("assign:" + r.fp.text(l))
		}
	default:
		r.other = true
		r.fx(fmt.Sprintf("stmt:%T", s))
	}
}

// sortedAfter reports whether obj (a slice appended to inside the loop) is handed to a sort
// function after the loop, in the same top-level function.
func (r *rangeFx) sortedAfter(k int) bool { return r.sortCallAfter(k) != "" }

// sortCallAfter returns the normalised text of that sort call (function and comparator: the KEY the
// order-independence theorem is instantiated with), "" when there is none.
func (r *rangeFx) sortCallAfter(k int) string {
	found := ""
	goast.Inspect(r.fn, func(n goast.Node) bool {
		call, ok := n.(*goast.CallExpr)
		if !ok || call.Pos() < r.loop.End() || len(call.Args) == 0 {
			return true
		}
		pp, fn := calleePkgFunc(r.info, call)
		isSort := (pp == "sort" && (fn == "Slice" || fn == "SliceStable" || fn == "Strings" || fn == "Ints" || fn == "Sort" || fn == "Stable")) ||
			(pp == "slices" && strings.HasPrefix(fn, "Sort"))
		if !isSort {
			return true
		}
		if found == "" && sameObjectExpr(r.info, call.Args[0], r.appendedX[k]) {
			var b bytes.Buffer
			goprinter.Fprint(&b, r.fp.fset, call)
			found = strings.Join(strings.Fields(b.String()), " ")
			if len(found) > 400 {
				found = found[:400] + "…"
			}
		}
		return true
	})
	return found
}

func (fp *factPkgs) mapRanges() []*factSite {
	var out []*factSite
	for _, p := range fp.pkgs {
		rel := fp.rel(p)
		info := p.TypesInfo
		fp.forEachFunc(p, func(fname string, file *goast.File, body goast.Node) {
			ord := 0
			goast.Inspect(body, func(n goast.Node) bool {
				rs, ok := n.(*goast.RangeStmt)
				if !ok {
					return true
				}
				tv, ok := info.Types[rs.X]
				if !ok {
					return true
				}
				if _, isMap := tv.Type.Underlying().(*gotypes.Map); !isMap {
					return true
				}
				ord++
				head := "range " + fp.text(rs.X)
				if rs.Key != nil {
					head = fp.text(rs.Key)
					if rs.Value != nil {
						head += ", " + fp.text(rs.Value)
					}
					head += " := range " + fp.text(rs.X)
				}
				r := &rangeFx{fp: fp, info: info, fn: body, loop: rs}
				r.stmt(rs.Body)
				allSorted := len(r.appended) > 0
				for k := range r.appended {
					if sc := r.sortCallAfter(k); sc != "" {
						r.effects = append(r.effects, "sorted-after:"+fp.text(r.appendedX[k]))
						r.effects = append(r.effects, "sort-call:"+sc)
					} else {
						allSorted = false
					}
				}
				constReturns := true
				for _, rv := range r.returns {
					if rv != r.returns[0] || !(rv == "true" || rv == "false" || rv == "" || rv == "nil") {
						constReturns = false
					}
				}
				hasBreak := false
				for _, e := range r.effects {
					if strings.HasPrefix(e, "branch:") {
						hasBreak = true
					}
				}
				class := "other"
				switch {
				case r.emits:
					class = "emit-in-order"
				case len(r.appended) > 0 && !allSorted:
					class = "emit-in-order"
				case r.other || !constReturns:
					class = "other"
				case r.stable:
					class = "ordered-insert" // insertion-ordered container: order leaks unless consumed order-independently
				case len(r.appended) > 0 && allSorted:
					class = "collect-then-sorted"
				case r.inserts:
					class = "insert-only"
				case r.reduces || len(r.returns) > 0 || hasBreak:
					class = "order-irrelevant-reduction"
				default:
					class = "lookup-only"
				}
				s := &factSite{Pkg: rel, Func: fname, Kind: "maprange", Ord: ord, Text: head, Pos: fp.pos(rs), Class: class, Fx: r.effects}
				s.ID = fmt.Sprintf("%s:%s:%s:%d:%s", s.Pkg, s.Func, s.Kind, s.Ord, s.Text)
				out = append(out, s)
				return true
			})
		})
	}
	sort.Slice(out, func(i, j int) bool { return out[i].ID < out[j].ID })
	return out
}

func emitFacts(c *Ctx, fp *factPkgs, sites []*factSite) {
	if fp.err != "" {
		c.EmitO("# facts load", "# facts load", "FACTS: cannot load the repository packages: "+strings.ReplaceAll(fp.err, "\n", " "))
	}
	var pk []string
	for _, p := range fp.pkgs {
		pk = append(pk, fp.rel(p))
	}
	c.Extra["packages"] = pk
	c.Extra["sites"] = sites
	for _, s := range sites {
		line := "# site " + s.ID
		if s.Class != "" {
			line += " => " + s.Class
		}
		line = strings.ReplaceAll(line, "\r", " ")
		c.EmitO(line, line, "")
		c.Distinct(s.ID)
		c.Count("kind:" + s.Kind)
		if s.Class != "" {
			c.Count("class:" + s.Class)
		}
		if s.Auto != "" {
			c.Count("auto:" + s.Auto)
		}
	}
}

func init() {
	register("facts_panics", "C12: every panic/assert/type-assertion/index/strconv site of the packages linked into cmd/lox (current working tree)", func(c *Ctx) {
		fp := loadRepoPackages()
		emitFacts(c, fp, fp.panicSites())
	})
	register("facts_mapranges", "C13: every range over a built-in map of the packages linked into cmd/lox, with the classification of the loop body", func(c *Ctx) {
		fp := loadRepoPackages()
		emitFacts(c, fp, fp.mapRanges())
	})
}
