//go:build verif

package main

import (
	"fmt"
	"sort"
	"strings"
	"unicode/utf8"
)

// Reference lexer: the rule-level definition of C02/C07/C11 executed directly on the harness'
// own AST (own Thompson construction + set simulation; independent of internal/lexergen).

type oEdge struct {
	lo, hi, to int
}

type oNFA struct {
	edges  [][]oEdge
	eps    [][]int
	accept []int // rule index, -1 if not accepting
	ng     []bool
	start  int
}

func (n *oNFA) newState() int {
	n.edges = append(n.edges, nil)
	n.eps = append(n.eps, nil)
	n.accept = append(n.accept, -1)
	n.ng = append(n.ng, false)
	return len(n.edges) - 1
}

func (s *LSpec) buildExpr(n *oNFA, e *LExpr) (int, int) {
	b, en := n.newState(), n.newState()
	for _, alt := range e.Alts {
		cur := b
		for _, t := range alt {
			tb, te := s.buildTerm(n, t)
			n.eps[cur] = append(n.eps[cur], tb)
			cur = te
		}
		n.eps[cur] = append(n.eps[cur], en)
	}
	return b, en
}

func (s *LSpec) buildTerm(n *oNFA, t *LTerm) (int, int) {
	var b, e int
	switch t.Kind {
	case LLit:
		b = n.newState()
		e = b
		for _, c := range t.Lit {
			x := n.newState()
			n.edges[e] = append(n.edges[e], oEdge{c, c, x})
			e = x
		}
	case LClass, LDot:
		set := []RRange{{0, 0x10FFFF}}
		if t.Kind == LClass {
			set = t.Class.Set()
		}
		b, e = n.newState(), n.newState()
		for _, r := range set {
			n.edges[b] = append(n.edges[b], oEdge{r.B, r.E, e})
		}
	case LGroup:
		b, e = s.buildExpr(n, t.Group)
	case LRef:
		b, e = s.buildExpr(n, s.Macros[t.Ref])
	}
	switch t.Card {
	case "?":
		nb, ne := n.newState(), n.newState()
		n.eps[nb] = append(n.eps[nb], b, ne)
		n.eps[e] = append(n.eps[e], ne)
		return nb, ne
	case "*", "*?":
		nb, ne := n.newState(), n.newState()
		n.eps[nb] = append(n.eps[nb], b, ne)
		n.eps[e] = append(n.eps[e], b, ne)
		n.ng[ne] = t.Card == "*?"
		return nb, ne
	case "+", "+?":
		nb, ne := n.newState(), n.newState()
		n.eps[nb] = append(n.eps[nb], b)
		n.eps[e] = append(n.eps[e], b, ne)
		n.ng[ne] = t.Card == "+?"
		return nb, ne
	}
	return b, e
}

// modeSim simulates every rule of a mode separately. A rule containing a non-greedy operator
// matches only the SHORTEST words of its language: once it has accepted, it is dead.
type modeSim struct {
	nfas []*oNFA
	ng   []bool
}

func (s *LSpec) hasNG(e *LExpr) bool {
	for _, a := range e.Alts {
		for _, t := range a {
			if t.Card == "*?" || t.Card == "+?" {
				return true
			}
			if t.Kind == LGroup && s.hasNG(t.Group) {
				return true
			}
			if t.Kind == LRef && s.hasNG(s.Macros[t.Ref]) {
				return true
			}
		}
	}
	return false
}

func (s *LSpec) buildMode(m *LMode) *modeSim {
	ms := &modeSim{}
	for i, ru := range m.Rules {
		n := &oNFA{}
		n.start = n.newState()
		b, e := s.buildExpr(n, ru.Expr)
		n.eps[n.start] = append(n.eps[n.start], b)
		n.accept[e] = i
		ms.nfas = append(ms.nfas, n)
		ms.ng = append(ms.ng, s.hasNG(ru.Expr))
	}
	return ms
}

type simState []map[int]bool

func (ms *modeSim) initial() simState {
	st := make(simState, len(ms.nfas))
	for i, n := range ms.nfas {
		st[i] = n.closure(map[int]bool{n.start: true})
	}
	return st
}

func (ms *modeSim) accepts(st simState, i int) bool {
	return st[i] != nil && ms.nfas[i].winner(st[i]) >= 0
}

// step advances every live rule; a non-greedy rule that accepts now does not continue.
func (ms *modeSim) step(st simState, c int) (simState, bool) {
	nx := make(simState, len(st))
	alive := false
	for i, n := range ms.nfas {
		if len(st[i]) == 0 {
			continue
		}
		if ms.ng[i] && ms.accepts(st, i) {
			continue
		}
		t := n.step(st[i], c)
		if len(t) > 0 {
			nx[i] = t
			alive = true
		}
	}
	return nx, alive
}

func (ms *modeSim) winner(st simState) int {
	for i := range ms.nfas {
		if ms.accepts(st, i) {
			return i
		}
	}
	return -1
}

func (n *oNFA) closure(set map[int]bool) map[int]bool {
	stack := make([]int, 0, len(set))
	for q := range set {
		stack = append(stack, q)
	}
	for len(stack) > 0 {
		q := stack[len(stack)-1]
		stack = stack[:len(stack)-1]
		for _, t := range n.eps[q] {
			if !set[t] {
				set[t] = true
				stack = append(stack, t)
			}
		}
	}
	return set
}

func (n *oNFA) step(set map[int]bool, c int) map[int]bool {
	out := map[int]bool{}
	for q := range set {
		for _, e := range n.edges[q] {
			if e.lo <= c && c <= e.hi {
				out[e.to] = true
			}
		}
	}
	return n.closure(out)
}

func (n *oNFA) winner(set map[int]bool) int {
	best := -1
	for q := range set {
		if a := n.accept[q]; a >= 0 && (best < 0 || a < best) {
			best = a
		}
	}
	return best
}

type dRune struct {
	r   int
	w   int
	off int
}

func decodeInput(b []byte) []dRune {
	var out []dRune
	off := 0
	for off < len(b) {
		r, w := utf8.DecodeRune(b[off:])
		out = append(out, dRune{int(r), w, off})
		off += w
	}
	return out
}

// RefLex tokenises input by the rule-level definition. Output format = generated package's Lex.
func (s *LSpec) RefLex(input []byte, tokNum func(int) int, maxToks int) string {
	nfas := make([]*modeSim, len(s.Modes))
	for i, m := range s.Modes {
		nfas[i] = s.buildMode(m)
	}
	rs := decodeInput(input)
	total := len(input)
	offAt := func(i int) int {
		if i < len(rs) {
			return rs[i].off
		}
		return total
	}
	var out []string
	mode := 0
	var stack []int
	pos := 0
	start := -1
	for len(out) <= maxToks {
		if start < 0 {
			start = offAt(pos)
		}
		n := nfas[mode]
		set := n.initial()
		p := pos
		for p < len(rs) {
			nx, alive := n.step(set, rs[p].r)
			if !alive {
				break
			}
			set = nx
			p++
		}
		cur := -1
		if p < len(rs) {
			cur = rs[p].r
		}
		fail := func() {
			out = append(out, fmt.Sprintf("E@%d:%d", start, cur))
			// skip to the beginning of the next line
			q := p
			for q < len(rs) && rs[q].r != '\n' {
				q++
			}
			if q < len(rs) {
				q++
			}
			pos = q
			mode = 0 // Reset(): mode and state, the mode stack is kept
			start = -1
		}
		if p == pos {
			// nothing consumed. A rule that matches the empty string and carries a mode action matches here
			// (also at the end of the input): its actions take effect, the lexer goes on in the new mode.
			// (An empty-matchable rule WITHOUT a mode action would match for ever: known finding K3; the
			// generators never write one.)
			w0 := n.winner(set)
			modeChange := false
			if w0 >= 0 {
				for _, a := range s.Modes[mode].Rules[w0].Acts {
					modeChange = modeChange || a.Kind == "push" || a.Kind == "pop"
				}
			}
			if !modeChange {
				if pos == len(rs) {
					out = append(out, fmt.Sprintf("EOF@%d", start))
					return strings.Join(out, " ") + " ok"
				}
				fail()
				continue
			}
		}
		w := n.winner(set)
		if w < 0 {
			fail()
			continue
		}
		ru := s.Modes[mode].Rules[w]
		// actions: mode actions in written order, then the terminal action
		bad := false
		for _, a := range ru.Acts {
			switch a.Kind {
			case "push":
				stack = append(stack, mode)
				mode = a.Mode
			case "pop":
				if len(stack) == 0 {
					bad = true
				} else {
					mode = stack[len(stack)-1]
					stack = stack[:len(stack)-1]
				}
			}
			if bad {
				break
			}
		}
		if bad {
			pos = p
			fail()
			continue
		}
		pos = p
		term := "accum"
		tok := 0
		if !ru.Frag {
			term, tok = "emit", ru.Tok
		}
		for _, a := range ru.Acts {
			if a.Kind == "emit" {
				term, tok = "emit", a.Tok
			} else if a.Kind == "discard" {
				term = "discard"
			}
		}
		switch term {
		case "emit":
			out = append(out, fmt.Sprintf("T%d:%d-%d", tokNum(tok), start, offAt(p)))
			start = -1
		case "discard":
			start = -1
		}
	}
	return "timeout"
}

// sampleString draws a string from the language of an expression (random walk).
func (s *LSpec) sampleExpr(r *Rng, e *LExpr, out *[]int, depth int) {
	alt := e.Alts[r.Intn(len(e.Alts))]
	for _, t := range alt {
		n := 1
		switch t.Card {
		case "?":
			n = r.Intn(2)
		case "*", "*?":
			n = r.Intn(3)
		case "+", "+?":
			n = 1 + r.Intn(2)
		}
		for k := 0; k < n; k++ {
			switch t.Kind {
			case LLit:
				*out = append(*out, t.Lit...)
			case LClass:
				set := t.Class.Set()
				if len(set) > 0 {
					rg := set[r.Intn(len(set))]
					switch r.Intn(3) {
					case 0:
						*out = append(*out, rg.B)
					case 1:
						*out = append(*out, rg.E)
					default:
						*out = append(*out, rg.B+r.Intn(rg.E-rg.B+1))
					}
				}
			case LDot:
				*out = append(*out, genCp(r, false))
			case LGroup:
				if depth > 0 {
					s.sampleExpr(r, t.Group, out, depth-1)
				}
			case LRef:
				if depth > 0 {
					s.sampleExpr(r, s.Macros[t.Ref], out, depth-1)
				}
			}
		}
	}
}

func encodeRunes(cs []int) []byte {
	var b []byte
	for _, c := range cs {
		if c >= 0xD800 && c <= 0xDFFF {
			c = 0xFFFD
		}
		b = utf8.AppendRune(b, rune(c))
	}
	return b
}

// genLexInputs: concatenations of sampled matches of the rules (following mode switches is left
// to chance), boundary code points next to class edges, truncations, raw invalid bytes.
func (s *LSpec) genLexInputs(r *Rng, n int) [][]byte {
	var ins [][]byte
	seen := map[string]bool{}
	add := func(b []byte) {
		if len(b) <= 200 && !seen[string(b)] {
			seen[string(b)] = true
			ins = append(ins, b)
		}
	}
	add(nil)
	// every string up to length 3 over a few characters the rules mention (inputs ending in the
	// middle of every construct)
	var reps []int
	seenRep := map[int]bool{}
	var collect func(e *LExpr)
	collect = func(e *LExpr) {
		for _, a := range e.Alts {
			for _, t := range a {
				switch t.Kind {
				case LLit:
					for _, c := range t.Lit {
						if !seenRep[c] {
							seenRep[c] = true
							reps = append(reps, c)
						}
					}
				case LClass:
					for _, rg := range t.Class.Set() {
						if !seenRep[rg.B] {
							seenRep[rg.B] = true
							reps = append(reps, rg.B)
						}
					}
				case LGroup:
					collect(t.Group)
				case LRef:
					collect(s.Macros[t.Ref])
				}
			}
		}
	}
	for _, m := range s.Modes {
		for _, ru := range m.Rules {
			collect(ru.Expr)
		}
	}
	if len(reps) > 4 {
		for i := len(reps) - 1; i > 0; i-- {
			j := r.Intn(i + 1)
			reps[i], reps[j] = reps[j], reps[i]
		}
		reps = reps[:4]
	}
	var recShort func(cur []int)
	recShort = func(cur []int) {
		if len(cur) > 0 {
			add(encodeRunes(cur))
		}
		if len(cur) == 3 {
			return
		}
		for _, c := range reps {
			recShort(append(append([]int(nil), cur...), c))
		}
	}
	recShort(nil)
	// every proper prefix of a few matches of every rule (default-mode rules directly; rules of other
	// modes after a match of a rule that pushes their mode when there is one)
	for mi, m := range s.Modes {
		var lead []int
		if mi > 0 {
			for _, m0 := range s.Modes {
				for _, ru := range m0.Rules {
					for _, a := range ru.Acts {
						if a.Kind == "push" && a.Mode == mi && lead == nil && m0 == s.Modes[0] {
							s.sampleExpr(r, ru.Expr, &lead, 3)
						}
					}
				}
			}
			if lead == nil {
				continue
			}
		}
		for _, ru := range m.Rules {
			for k := 0; k < 2; k++ {
				cs := append([]int(nil), lead...)
				s.sampleExpr(r, ru.Expr, &cs, 3)
				for cut := len(lead); cut <= len(cs) && cut <= len(lead)+12; cut++ {
					add(encodeRunes(cs[:cut]))
				}
			}
			// after a rule that switches modes, continue with a match of a rule of every mode: the next
			// token shows which mode is current
			switches := false
			for _, a := range ru.Acts {
				if a.Kind == "push" || a.Kind == "pop" {
					switches = true
				}
			}
			if switches {
				for _, m2 := range s.Modes {
					for k := 0; k < 2; k++ {
						cs := append([]int(nil), lead...)
						s.sampleExpr(r, ru.Expr, &cs, 3)
						s.sampleExpr(r, Pick(r, m2.Rules).Expr, &cs, 3)
						s.sampleExpr(r, Pick(r, m2.Rules).Expr, &cs, 3)
						add(encodeRunes(cs))
					}
				}
			}
		}
	}
	// a rule that is one literal, directly followed (and followed after a blank) by a match of every other rule of its mode:
	// what the lexer does right after a literal that another rule also accepts (keyword / identifier, '""' / string)
	for _, m := range s.Modes[:1] {
		budget := 48 // specifications with hundreds of keyword rules: a sample of the pairs
		for _, ru := range m.Rules {
			if len(ru.Expr.Alts) != 1 || len(ru.Expr.Alts[0]) != 1 || ru.Expr.Alts[0][0].Kind != LLit || ru.Expr.Alts[0][0].Card != "" {
				continue
			}
			others := m.Rules
			if len(others) > 6 {
				others = nil
				for k := 0; k < 6; k++ {
					others = append(others, Pick(r, m.Rules))
				}
			}
			for _, o := range others {
				if o == ru || budget <= 0 {
					continue
				}
				for _, sep := range [][]int{nil, {' '}} {
					cs := append(append([]int(nil), ru.Expr.Alts[0][0].Lit...), sep...)
					s.sampleExpr(r, o.Expr, &cs, 3)
					add(encodeRunes(cs))
					budget--
				}
			}
		}
	}
	// deep nesting: follow rules that push a mode (and do not pop) forty times in a row (a mode stack of any depth)
	if len(s.Modes) > 1 {
		var cs []int
		cur, depth := 0, 0
		for depth < 40 {
			var next *LRule
			tgt := -1
			for _, ru := range s.Modes[cur].Rules {
				pushes, pops, t := 0, 0, -1
				for _, a := range ru.Acts {
					if a.Kind == "push" {
						pushes++
						t = a.Mode
					}
					if a.Kind == "pop" {
						pops++
					}
				}
				if pushes == 1 && pops == 0 && !s.nullable(ru.Expr) {
					next, tgt = ru, t
					break
				}
			}
			if next == nil {
				break
			}
			s.sampleExpr(r, next.Expr, &cs, 2)
			cur = tgt
			depth++
		}
		if depth >= 33 {
			b := encodeRunes(cs)
			if !seen[string(b)] && len(b) <= 4000 {
				seen[string(b)] = true
				ins = append(ins, b)
			}
		}
	}
	n += len(ins)
	var allRules []*LRule
	for _, m := range s.Modes {
		allRules = append(allRules, m.Rules...)
	}
	for len(ins) < n {
		var cs []int
		k := 1 + r.Intn(5)
		for i := 0; i < k; i++ {
			var ru *LRule
			if r.Chance(2, 3) {
				ru = Pick(r, s.Modes[0].Rules)
			} else {
				ru = Pick(r, allRules)
			}
			s.sampleExpr(r, ru.Expr, &cs, 3)
			if r.Chance(1, 8) {
				cs = append(cs, genCp(r, false))
			}
			if r.Chance(1, 10) {
				cs = append(cs, '\n')
			}
		}
		b := encodeRunes(cs)
		switch r.Intn(8) {
		case 0:
			if len(b) > 0 {
				b = b[:r.Intn(len(b))] // may cut a multi-byte sequence: invalid UTF-8
			}
		case 1:
			i := r.Intn(len(b) + 1)
			b = append(append(append([]byte{}, b[:i]...), Pick(r, []byte{0xFF, 0x80, 0xC0, 0xED})), b[i:]...)
		}
		add(b)
		if len(seen) > 4*n {
			break
		}
	}
	sort.SliceStable(ins, func(i, j int) bool { return len(ins[i]) < len(ins[j]) })
	return ins
}
