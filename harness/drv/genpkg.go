//go:build verif

package main

import (
	"bufio"
	"bytes"
	"fmt"
	goast "go/ast"
	goparser "go/parser"
	gotoken "go/token"
	"os"
	"os/exec"
	"path/filepath"
	"runtime/debug"
	"sort"
	"strconv"
	"strings"
	"sync"
	"time"

	"github.com/dcaiafa/lox/internal/ast"
	"github.com/dcaiafa/lox/internal/base/errlogger"
	"github.com/dcaiafa/lox/internal/codegen"
	"github.com/dcaiafa/lox/internal/parser"
	"github.com/dcaiafa/lox/internal/parsergen/lr1"
)

// GenPkg is one generated package: the files lox wrote and what was read back from them.
type GenPkg struct {
	Name   string
	Dir    string
	Lox    string
	OK     bool   // codegen.Generate returned true
	Diag   string // diagnostics printed by lox
	Report string // --report text
	Panic  string // generator panic, if any

	// read back from the emitted files
	Rules, TermCounts, Actions, Goto []int64
	LexModes                         [][]int64
	Consts                           map[string]int // base.gen.go const block
	ConstOrder                       []string
}

// runGenerate runs the real generator on dir, in-process.
func runGenerate(dir string, withReport bool) (ok bool, diag, report, panicMsg string) {
	fset := gotoken.NewFileSet()
	var dbuf, rbuf bytes.Buffer
	errs := errlogger.New(fset, &dbuf)
	cfg := &codegen.Config{Fset: fset, Errs: errs, Dir: dir}
	if withReport {
		cfg.Report = &rbuf
	}
	func() {
		defer func() {
			if e := recover(); e != nil {
				panicMsg = fmt.Sprint(e)
				if os.Getenv("VERIF_STACK") != "" {
					panicMsg += "\n" + string(debug.Stack())
				}
			}
		}()
		ok = codegen.Generate(cfg)
	}()
	return ok, dbuf.String(), rbuf.String(), panicMsg
}

// readIntArrays extracts `var name = []T{ints…}` declarations from a Go file.
func readIntArrays(path string) (map[string][]int64, error) {
	fset := gotoken.NewFileSet()
	f, err := goparser.ParseFile(fset, path, nil, 0)
	if err != nil {
		return nil, err
	}
	out := map[string][]int64{}
	for _, d := range f.Decls {
		gd, ok := d.(*goast.GenDecl)
		if !ok || gd.Tok != gotoken.VAR {
			continue
		}
		for _, sp := range gd.Specs {
			vs := sp.(*goast.ValueSpec)
			if len(vs.Names) != 1 || len(vs.Values) != 1 {
				continue
			}
			cl, ok := vs.Values[0].(*goast.CompositeLit)
			if !ok {
				continue
			}
			var xs []int64
			good := true
			for _, e := range cl.Elts {
				neg := false
				if u, ok := e.(*goast.UnaryExpr); ok && u.Op == gotoken.SUB {
					neg = true
					e = u.X
				}
				bl, ok := e.(*goast.BasicLit)
				if !ok || bl.Kind != gotoken.INT {
					good = false
					break
				}
				v, err := strconv.ParseInt(bl.Value, 0, 64)
				if err != nil {
					good = false
					break
				}
				if neg {
					v = -v
				}
				xs = append(xs, v)
			}
			if good {
				out[vs.Names[0].Name] = xs
			}
		}
	}
	return out, nil
}

// readConsts extracts the first const block `NAME int = k` of base.gen.go.
func readConsts(path string) (map[string]int, []string, error) {
	fset := gotoken.NewFileSet()
	f, err := goparser.ParseFile(fset, path, nil, 0)
	if err != nil {
		return nil, nil, err
	}
	m := map[string]int{}
	var order []string
	for _, d := range f.Decls {
		gd, ok := d.(*goast.GenDecl)
		if !ok || gd.Tok != gotoken.CONST {
			continue
		}
		for _, sp := range gd.Specs {
			vs := sp.(*goast.ValueSpec)
			for i, n := range vs.Names {
				if i < len(vs.Values) {
					if bl, ok := vs.Values[i].(*goast.BasicLit); ok && bl.Kind == gotoken.INT {
						v, _ := strconv.Atoi(bl.Value)
						m[n.Name] = v
						order = append(order, n.Name)
					}
				}
			}
		}
		break
	}
	return m, order, nil
}

func (g *GenPkg) readBack() error {
	arrs, err := readIntArrays(filepath.Join(g.Dir, "parser.gen.go"))
	if err != nil {
		return err
	}
	g.Rules, g.TermCounts, g.Actions, g.Goto = arrs["_rules"], arrs["_termCounts"], arrs["_actions"], arrs["_goto"]
	larrs, err := readIntArrays(filepath.Join(g.Dir, "lexer.gen.go"))
	if err != nil {
		return err
	}
	for i := 0; ; i++ {
		m, ok := larrs[fmt.Sprintf("_lexerMode%d", i)]
		if !ok {
			break
		}
		g.LexModes = append(g.LexModes, m)
	}
	g.Consts, g.ConstOrder, err = readConsts(filepath.Join(g.Dir, "base.gen.go"))
	return err
}

// GenerateAll writes one package per (name, lox text, go source) under root and runs the real
// generator on each, 16 at a time.
func GenerateAll(root string, names, loxs, gosrcs []string, withReport bool) []*GenPkg {
	files := make([]map[string]string, len(names))
	for i := range names {
		files[i] = map[string]string{"g.lox": loxs[i]}
	}
	return GenerateAllFiles(root, names, files, gosrcs, withReport)
}

// GenerateAllFiles is GenerateAll for specifications spread over several .lox files.
func GenerateAllFiles(root string, names []string, loxFiles []map[string]string, gosrcs []string, withReport bool) []*GenPkg {
	pkgs := make([]*GenPkg, len(names))
	var wg sync.WaitGroup
	sem := make(chan struct{}, 16)
	for i := range names {
		wg.Add(1)
		go func(i int) {
			defer wg.Done()
			sem <- struct{}{}
			defer func() { <-sem }()
			g := &GenPkg{Name: names[i], Dir: filepath.Join(root, names[i])}
			pkgs[i] = g
			os.MkdirAll(g.Dir, 0o755)
			var fns []string
			for fn := range loxFiles[i] {
				fns = append(fns, fn)
			}
			sort.Strings(fns)
			for _, fn := range fns {
				os.WriteFile(filepath.Join(g.Dir, fn), []byte(loxFiles[i][fn]), 0o644)
				g.Lox += "// file " + fn + "\n" + loxFiles[i][fn]
			}
			if len(fns) == 1 {
				g.Lox = loxFiles[i][fns[0]]
			}
			os.WriteFile(filepath.Join(g.Dir, "p.go"), []byte(gosrcs[i]), 0o644)
			g.OK, g.Diag, g.Report, g.Panic = runGenerate(g.Dir, withReport)
			if g.OK {
				if err := g.readBack(); err != nil {
					g.OK = false
					g.Diag += "\nreadback: " + err.Error()
				}
			}
		}(i)
	}
	wg.Wait()
	return pkgs
}

// WriteModule creates the scratch module (go.mod + go.sum for loxlex) under root.
func WriteModule(root string) {
	os.MkdirAll(root, 0o755)
	gomod := "module verifgen\n\ngo 1.23\n\nrequire github.com/dcaiafa/loxlex v0.5.0\n"
	os.WriteFile(filepath.Join(root, "go.mod"), []byte(gomod), 0o644)
	sum, _ := os.ReadFile(filepath.Join(repoRoot(), "go.sum"))
	var keep []string
	for _, l := range strings.Split(string(sum), "\n") {
		if strings.Contains(l, "loxlex") {
			keep = append(keep, l)
		}
	}
	os.WriteFile(filepath.Join(root, "go.sum"), []byte(strings.Join(keep, "\n")+"\n"), 0o644)
}

func repoRoot() string {
	if r := os.Getenv("VERIF_REPO"); r != "" {
		return r
	}
	return "/repo"
}

// BuildMux writes main.go importing every package (each must export
// `func Run(toks []int, budget int) string`) and builds it. Protocol of the binary: one request
// per stdin line `<pkg> <budget> <tok> <tok> …`, one answer line each; a request that does not
// finish within 5 s answers `timeout` and the process exits with status 3.
func BuildMux(root string, pkgs []string) (string, error) {
	var sb strings.Builder
	sb.WriteString("package main\n\nimport (\n\t\"bufio\"\n\t\"fmt\"\n\t\"os\"\n\t\"strconv\"\n\t\"strings\"\n\t\"time\"\n")
	for _, p := range pkgs {
		fmt.Fprintf(&sb, "\t%s \"verifgen/%s\"\n", p, p)
	}
	sb.WriteString(")\n\nvar runs = map[string]func([]int, int) string{\n")
	for _, p := range pkgs {
		fmt.Fprintf(&sb, "\t%q: %s.Run,\n", p, p)
	}
	sb.WriteString(`}

func muxTimeout() time.Duration {
	if v, err := strconv.Atoi(os.Getenv("VERIF_MUX_TIMEOUT")); err == nil && v > 0 {
		return time.Duration(v) * time.Second
	}
	return 5 * time.Second
}

func main() {
	sc := bufio.NewScanner(os.Stdin)
	sc.Buffer(make([]byte, 1<<20), 1<<26)
	out := bufio.NewWriter(os.Stdout)
	for sc.Scan() {
		f := strings.Fields(sc.Text())
		if len(f) < 2 {
			fmt.Fprintln(out, "bad-request")
			out.Flush()
			continue
		}
		run := runs[f[0]]
		budget, _ := strconv.Atoi(f[1])
		toks := make([]int, 0, len(f)-2)
		for _, x := range f[2:] {
			v, _ := strconv.Atoi(x)
			toks = append(toks, v)
		}
		done := make(chan string, 1)
		go func() { done <- run(toks, budget) }()
		select {
		case r := <-done:
			fmt.Fprintln(out, r)
		case <-time.After(muxTimeout()):
			fmt.Fprintln(out, "timeout")
			out.Flush()
			os.Exit(3)
		}
	}
	out.Flush()
}
`)
	if err := os.WriteFile(filepath.Join(root, "main.go"), []byte(sb.String()), 0o644); err != nil {
		return "", err
	}
	bin := filepath.Join(root, "mux.bin")
	cmd := exec.Command("go", "build", "-o", bin, ".")
	cmd.Dir = root
	cmd.Env = append(os.Environ(), "GOFLAGS=-mod=mod", "GOPROXY=off", "GOSUMDB=off", "GOTOOLCHAIN=local")
	outb, err := cmd.CombinedOutput()
	if err != nil {
		return "", fmt.Errorf("go build of generated packages failed: %v\n%s", err, outb)
	}
	return bin, nil
}

// RunMux feeds requests to the multiplexer, restarting it after a hang. A request answered
// `timeout` or `crash` is run again alone with a 90 s limit, so that a loaded machine is not
// mistaken for a parser that does not terminate.
func RunMux(bin string, reqs []string) []string {
	res := runMuxOnce(bin, reqs, 0)
	retried := 0
	for i, r := range res {
		if (r == "timeout" || r == "crash") && retried < 4 {
			retried++
			again := runMuxOnce(bin, reqs[i:i+1], 90)
			if len(again) == 1 {
				res[i] = again[0]
			}
		}
	}
	return res
}

func runMuxOnce(bin string, reqs []string, limit int) []string {
	res := make([]string, 0, len(reqs))
	for len(res) < len(reqs) {
		rest := reqs[len(res):]
		cmd := exec.Command(bin)
		wait := time.Duration(30+len(rest)/50) * time.Second
		if limit > 0 {
			cmd.Env = append(os.Environ(), fmt.Sprintf("VERIF_MUX_TIMEOUT=%d", limit))
			wait = time.Duration(2*limit) * time.Second
		}
		cmd.Stdin = strings.NewReader(strings.Join(rest, "\n") + "\n")
		var out bytes.Buffer
		cmd.Stdout = &out
		cmd.Stderr = &out
		done := make(chan error, 1)
		cmd.Start()
		go func() { done <- cmd.Wait() }()
		select {
		case <-done:
		case <-time.After(wait):
			cmd.Process.Kill()
			<-done
		}
		sc := bufio.NewScanner(&out)
		sc.Buffer(make([]byte, 1<<20), 1<<26)
		got := 0
		for sc.Scan() && len(res) < len(reqs) {
			res = append(res, sc.Text())
			got++
		}
		if got == 0 {
			// no progress at all: the process died before answering; mark the request
			res = append(res, "crash")
		}
	}
	return res
}

// Independent in-process front end + LALR construction (public API of the internal packages),
// used as the source of the item-set certificate and of the grammar the validator talks about.
type Front struct {
	OK      bool
	Diag    string
	Grammar *lr1.Grammar
	Table   *lr1.ParserTable
	Ctx     *ast.Context
	Units   []*ast.Unit
}

func RunFront(loxText string) (fr *Front) {
	fr = &Front{}
	fset := gotoken.NewFileSet()
	var buf bytes.Buffer
	errs := errlogger.New(fset, &buf)
	defer func() {
		if e := recover(); e != nil {
			fr.OK = false
			fr.Diag = buf.String() + fmt.Sprint("PANIC ", e)
		}
	}()
	data := []byte(loxText)
	file := fset.AddFile("g.lox", -1, len(data))
	unit := parser.Parse(file, data, errs)
	if errs.HasError() {
		fr.Diag = buf.String()
		return fr
	}
	ctx := ast.NewContext(fset, errs)
	spec := &ast.Spec{Units: []*ast.Unit{unit}}
	if !ctx.Analyze(spec, ast.AllPasses) || errs.HasError() {
		fr.Diag = buf.String()
		return fr
	}
	fr.Ctx = ctx
	fr.Units = spec.Units
	fr.Grammar = ctx.Grammar
	fr.Table = lr1.ConstructLALR(ctx.Grammar)
	fr.OK = true
	fr.Diag = buf.String()
	return fr
}

func joinI64(xs []int64) string {
	var sb strings.Builder
	for i, x := range xs {
		if i > 0 {
			sb.WriteByte(' ')
		}
		sb.WriteString(strconv.FormatInt(x, 10))
	}
	return sb.String()
}

func joinInts(xs []int) string {
	var sb strings.Builder
	for i, x := range xs {
		if i > 0 {
			sb.WriteByte(' ')
		}
		sb.WriteString(strconv.Itoa(x))
	}
	return sb.String()
}

// grammarLine encodes an lr1.Grammar for the Lean driver: productions separated by ';',
// each `lhs s1 s2 …`, terminal k written k, rule A written -(A+1).
func grammarLine(g *lr1.Grammar) string {
	var parts []string
	for _, p := range g.Prods {
		xs := []int{p.Rule.Index}
		for _, t := range p.Terms {
			switch t := t.(type) {
			case *lr1.Terminal:
				xs = append(xs, t.Index)
			case *lr1.Rule:
				xs = append(xs, -(t.Index + 1))
			}
		}
		parts = append(parts, joinInts(xs))
	}
	return strings.Join(parts, " ; ")
}

// certLine encodes the item sets of every state: `p d a p d a … ; …`.
func certLine(t *lr1.ParserTable) string {
	var parts []string
	for _, st := range t.States {
		var xs []int
		for _, it := range st.Items() {
			xs = append(xs, it.Prod, it.Dot, it.Lookahead)
		}
		parts = append(parts, joinInts(xs))
	}
	return strings.Join(parts, " ; ")
}

// prodKinds classifies productions the way the _act template does (RuleGenerated + term count).
func prodKinds(g *lr1.Grammar) []int {
	ks := make([]int, len(g.Prods))
	for i, p := range g.Prods {
		one := len(p.Terms) == 1
		switch string(codegen.RuleGenerated(p.Rule)) {
		case "not_generated":
			ks[i] = 0
		case "sprime":
			ks[i] = 11
		case "one_or_more":
			ks[i] = map[bool]int{true: 1, false: 2}[one]
		case "one_or_more_f":
			ks[i] = map[bool]int{true: 3, false: 4}[one]
		case "list":
			ks[i] = map[bool]int{true: 5, false: 6}[one]
		case "zero_or_one":
			if one {
				ks[i] = 7
			} else if strings.HasPrefix(p.Rule.Name, "@list") {
				ks[i] = 12
			} else {
				ks[i] = 8
			}
		case "zero_or_more", "zero_or_more_f":
			ks[i] = map[bool]int{true: 9, false: 10}[one]
		}
	}
	return ks
}
