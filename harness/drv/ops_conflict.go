//go:build verif

package main

import (
	"fmt"
	"strconv"
	"strings"

	"github.com/dcaiafa/lox/internal/parsergen/lr1"
)

// Family conflict (C04): the output of the real ConstructLALR — item sets, transitions and the
// HasConflicts flag — for grammars lox ACCEPTS and grammars lox REFUSES alike, validated by the
// table-free validator `Lox.LR.conflictCheck` (lean/Lox/LR/ConflictCheck.lean; sound by
// Lox.Props.C04.conflict_check_sound / verdict_exact): the item sets are the LALR(1) item sets by
// definition (closed ⊇, justified ⊆, kernels distinct) and the flag is the verdict by definition
// (some cell has two candidate actions that the documented precedence rule does not settle).
//
// Protocol
//
//	lr.conflict_check <nTerms> <nRules> | <prods> | <prodinfo> | <transitions> | <cert> | <flag>
//	  prods       productions separated by ';', each `lhs s1 s2 …` (terminal k = k, rule A = -(A+1))
//	  prodinfo    `rule prec right` per production, separated by ';'
//	  transitions triples `s X t` separated by ';' (ParserTable.Transitions(s).Inputs()/Get)
//	  cert        item sets `p d a p d a …` separated by ';' (ParserTable.States order)
//	  flag        ParserTable.HasConflicts, 0 or 1
//	  ord         (optional 7th section, ignored by the validator) all symbols in the order of their names,
//	              so that a replay can rebuild a grammar whose names sort the same way
//	  answer      `ok conflicts` / `ok clean` (impl: according to the real flag); the validator
//	              answers `fail <reason>` when a check fails or its verdict differs from the flag.
//
// Replay of a case line: the grammar (with its precedences, and names that sort like `ord`) is rebuilt
// through the lr1 API, the real ConstructLALR of the CURRENT tree runs on it, and a FRESH case line is
// emitted from its output (so a replay re-validates what the current tree produces for that grammar).

func symCode(t lr1.Term) int {
	switch t := t.(type) {
	case *lr1.Terminal:
		return t.Index
	case *lr1.Rule:
		return -(t.Index + 1)
	}
	panic("symCode: unknown term")
}

func transLine(t *lr1.ParserTable) string {
	var parts []string
	for _, st := range t.States {
		tr := t.Transitions(st)
		for _, in := range tr.Inputs() {
			parts = append(parts, fmt.Sprintf("%d %d %d", st.Index, symCode(in), tr.Get(in).Index))
		}
	}
	return strings.Join(parts, " ; ")
}

func conflictCaseLine(g *lr1.Grammar, t *lr1.ParserTable) string {
	ord, _ := nameOrder(g)
	return fmt.Sprintf("lr.conflict_check %d %d | %s | %s | %s | %s | %d | %s",
		len(g.Terminals), len(g.Rules), grammarLine(g), fmtInfos(grammarInfos(g)), transLine(t), certLine(t), b2i(t.HasConflicts), joinInts(ord))
}

func conflictAnswer(t *lr1.ParserTable) string {
	if t.HasConflicts {
		return "ok conflicts"
	}
	return "ok clean"
}

// conflictRebuild rebuilds the grammar of a case line through the lr1 API (names t<i>, r<i>).
func conflictRebuild(line string) (*lr1.Grammar, error) {
	_, payload, _ := strings.Cut(line, " ")
	secs := strings.Split(payload, "|")
	if len(secs) != 6 && len(secs) != 7 {
		return nil, fmt.Errorf("expected 6 or 7 sections")
	}
	g, err := gmDecode(strings.TrimSpace(secs[0]), secs[1])
	if err != nil {
		return nil, err
	}
	if len(secs) == 7 {
		ord, err := gmInts(secs[6])
		if err != nil {
			return nil, err
		}
		if err := renameByOrder(g, ord); err != nil {
			return nil, err
		}
	}
	infos := strings.Split(secs[2], ";")
	for i, p := range g.Prods {
		if i >= len(infos) {
			break
		}
		f := strings.Fields(infos[i])
		if len(f) != 3 {
			return nil, fmt.Errorf("bad prodinfo %q", infos[i])
		}
		prec, err := strconv.Atoi(f[1])
		if err != nil {
			return nil, err
		}
		lr1.VerifSetPrec(p, prec)
		if f[2] == "1" {
			p.Associativity = lr1.Right
		}
	}
	return g, nil
}

// grammar sources shared by the families conflict and construct
type cfJob struct {
	text string // .lox text
	tag  string
}

// hand-written shapes: ambiguity, self-looping states that re-queue themselves, rule names that
// sort before token names, merges that add lookaheads late (a state reached again, with a new
// lookahead, after its successors were already built)
var conflictCurated = []string{
	"s = s s | A",
	"s = s s | A | @empty",
	"Doc = Expr; Expr = OPEN Expr CLOSE | NUM",
	"Aa = Bb ZZ | YY Bb XX; Bb = WW Bb VV | UU | @empty",
	"s = A x D | B y D | A y E | B x E; x = C; y = C",
	"s = A x D | B x E; x = C z; z = F z | G",
	"s = l EQ r | r; l = STAR r | ID; r = l",
	"s = A t B | C t D | E t; t = X u; u = Y v | @empty; v = Z u",
	"Zz = Aa LP Zz RP | Aa; Aa = ID | ID Aa",
	"s = i*; i = A s B | C",
	"e = e PLUS e | e STAR e | LP e RP | ID",
	"s = a A | b B | c; a = X; b = X; c = X C",
	"s = x Y | x; x = Y?",
}

func conflictJobs(c *Ctx) []cfJob {
	var jobs []cfJob
	for _, cl := range lalrClassics {
		jobs = append(jobs, cfJob{cl, "classic"})
	}
	for _, txt := range conflictCurated {
		jobs = append(jobs, cfJob{ParseGSpec(txt).Lox(), "curated"})
	}
	for _, txt := range curatedGrammars {
		jobs = append(jobs, cfJob{ParseGSpec(txt).Lox(), "curated"})
	}
	o := GenOpts{MaxTokens: 4, MaxRules: 4, MaxProds: 3, MaxTerms: 4, Sugar: true, Errors: true, Prec: true}
	if c.Tier == "thorough" {
		o = GenOpts{MaxTokens: 5, MaxRules: 6, MaxProds: 4, MaxTerms: 5, Sugar: true, Errors: true, Prec: true}
	}
	for i := 0; i < c.N; i++ {
		s := GenSpec(c.Rng, o)
		jobs = append(jobs, cfJob{s.Lox(), "random"})
	}
	return jobs
}

// conflictOracle is the oracle of family lalr (ops_lalr.go: independent canonical-LR(1)+merge
// reference with the documented precedence rule) applied to this very run: verdict, and the whole
// automaton item for item. "" = the reference agrees.
func conflictOracle(g *lr1.Grammar, t *lr1.ParserTable, flat string) string {
	ref := newLalrRef(g)
	a := ref.build()
	if a.tooBig {
		return ""
	}
	want, where := ref.conflict(a)
	got := t.HasConflicts
	switch {
	case got && !want:
		return "C04: lox reports conflicts for a grammar whose LALR(1) automaton has none after the documented precedence rule | grammar: " + flat
	case !got && want:
		return "C04: lox accepts a grammar whose LALR(1) automaton keeps a conflict (" + where + ") | grammar: " + flat
	}
	if diff := compareAutomata(t, a); diff != "" {
		return "C04: automaton differs from the LALR(1) automaton: " + diff + " | grammar: " + flat
	}
	return ""
}

func init() {
	register("conflict", "item sets, transitions and HasConflicts of ConstructLALR, refused and accepted grammars, vs the table-free LALR(1) validator (C04)", func(c *Ctx) {
		if c.Replay != nil {
			for _, l := range c.Replay {
				if !strings.HasPrefix(l, "lr.conflict_check ") {
					c.Emit(l, "bad-op")
					continue
				}
				g, err := conflictRebuild(l)
				if err != nil {
					c.Emit(l, "bad-op")
					continue
				}
				line, ans, orc := l, "", ""
				res := guard(func() string {
					t := lr1.ConstructLALR(g)
					line = conflictCaseLine(g, t)
					ans = conflictAnswer(t)
					orc = conflictOracle(g, t, "rebuilt from the replayed line: "+grammarLine(g))
					return ""
				})
				if res != "" {
					ans = res
				}
				c.Count("replayed")
				c.EmitO(line, ans, orc)
			}
			return
		}
		for _, j := range conflictJobs(c) {
			flat := strings.ReplaceAll(strings.TrimSpace(j.text), "\n", " ⏎ ")
			fr := RunFront(j.text)
			if !fr.OK || fr.Grammar == nil || fr.Table == nil {
				c.Count("front-end-rejected")
				continue
			}
			if len(fr.Table.States) > 400 {
				c.Count("skipped-big")
				continue
			}
			note := "# conflict " + j.tag + " " + flat
			c.Emit(note, note)
			line := conflictCaseLine(fr.Grammar, fr.Table)
			if c.Distinct(line) {
				c.Count(j.tag + "-" + strings.TrimPrefix(conflictAnswer(fr.Table), "ok "))
			}
			c.EmitO(line, conflictAnswer(fr.Table), conflictOracle(fr.Grammar, fr.Table, flat))
		}
	})
}
