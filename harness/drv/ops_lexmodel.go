//go:build verif

package main

import (
	"fmt"
	"sort"
	"strings"

	"github.com/dcaiafa/lox/internal/ast"
	"github.com/dcaiafa/lox/internal/base/array"
	"github.com/dcaiafa/lox/internal/lexergen/dfa"
	"github.com/dcaiafa/lox/internal/lexergen/mode"
	"github.com/dcaiafa/lox/internal/lexergen/nfa"
	"github.com/dcaiafa/lox/internal/lexergen/rang3"
)

// Family lexmodel (C02, C10): the lexer generator's own algorithms against their Lean model
// (lean/Lox/Lex/GenNFA.lean, GenDFA.lean, GenOpt.lean; driver lean/Lox/Lex/DrvGen.lean).
//
// Random specifications from GenLSpec go through the real front end (RunFront). For every mode the
// rules' NFACons methods are run again with a fresh state factory (the mode NFA built by the
// GenerateGrammar pass has already been relabelled by Build; the rebuilt one is checked against it:
// same B/E ids per rule, same edges up to the relabelling), and then the steps of
// ModeBuilder.Build are taken one at a time through the export files
// harness/export/internal__lexergen__{dfa,mode}/model.go:
//
//   lex.rxre <rule>                 -> the prefix code of the rule's Re used by lex.bisim (astExprCode)
//   lex.thompson <r1> ; <r2> ; …    -> the mode NFA before normalizeInputs, with the real state ids
//   lex.normalize …                 -> the same NFA after normalizeInputs
//   lex.subset …                    -> NFAToDFA without optimize (canonical renumbering)
//   lex.optimize …                  -> after optimize
//   lex.build …                     -> after splitStartState, mergeTransitions, pickAction
//                                      (this one is ALSO compared with the DFA the real Build produced)
//   lex.runs <rules> | w1 / w2 / …  -> for every word: `d` (dead) or the winning rule index or `-`
//
// Rule syntax ("rich" prefix code, keeps what NFACons looks at):
//   10 n c1…cn literal | 1 n lo hi … class | 2 x y factor | 3 x A expr, A = 11 x | 12 x A |
//   7 x `?` | 4 x `*` | 5 x `*?` | 8 x `+` | 9 x `+?`
//
// NFA dump: `n start | src dst b e  src dst b e … | q i  q i … | ng…`  (ε edge: b = e = -1; edges
// sorted). DFA dump: `count | acc ng winner : nfa ids : b e t  b e t … | …`, states renumbered
// breadth first from state 0 over transitions sorted by lower bound.
//
// Oracle column: the rule-level reference (lexoracle.go) on all words of length ≤ 3 over one
// representative per piece of the mode's alphabet, evaluated against the REAL final DFA.

func astRxCode(ctx *ast.Context, e *ast.LexerExpr) []int {
	factor := func(f *ast.LexerFactor) []int {
		var rec func(i int) []int
		rec = func(i int) []int {
			t := astRxTerm(ctx, f.Terms[i])
			if i == len(f.Terms)-1 {
				return t
			}
			return append(append([]int{2}, t...), rec(i+1)...)
		}
		return rec(0)
	}
	if len(e.Factors) == 1 {
		return factor(e.Factors[0])
	}
	var alts func(i int) []int
	alts = func(i int) []int {
		c := factor(e.Factors[i])
		if i == len(e.Factors)-1 {
			return append([]int{11}, c...)
		}
		return append(append([]int{12}, c...), alts(i+1)...)
	}
	return append(append([]int{3}, factor(e.Factors[0])...), alts(1)...)
}

func astRxTerm(ctx *ast.Context, tc *ast.LexerTermCard) []int {
	var b []int
	switch t := tc.Term.(type) {
	case *ast.LexerTermLiteral:
		rs := []rune(t.Literal)
		b = []int{10, len(rs)}
		for _, r := range rs {
			b = append(b, int(r))
		}
	case *ast.LexerTermCharClass:
		var ranges []rang3.Range = t.Expr.GetRanges()
		b = []int{1, len(ranges)}
		for _, r := range ranges {
			b = append(b, int(r.B), int(r.E))
		}
	case *ast.LexerTermRef:
		m := ctx.Lookup(t.Ref).(*ast.MacroRule)
		b = astRxCode(ctx, m.Expr)
	case *ast.LexerExpr:
		b = astRxCode(ctx, t)
	default:
		panic(fmt.Sprintf("unknown lexer term %T", tc.Term))
	}
	switch tc.Card {
	case ast.ZeroOrOne:
		return append([]int{7}, b...)
	case ast.ZeroOrMore:
		return append([]int{4}, b...)
	case ast.ZeroOrMoreNG:
		return append([]int{5}, b...)
	case ast.OneOrMore:
		return append([]int{8}, b...)
	case ast.OneOrMoreNG:
		return append([]int{9}, b...)
	}
	return b
}

// ---- dumps ----

type nfaEdge struct{ src, dst, b, e int }

type arrayOfStates = array.Array[*nfa.State]

func collectNFA(roots []*nfa.State) []*nfa.State {
	seen := map[*nfa.State]bool{}
	var out []*nfa.State
	var stack []*nfa.State
	for _, r := range roots {
		stack = append(stack, r)
	}
	for len(stack) > 0 {
		s := stack[len(stack)-1]
		stack = stack[:len(stack)-1]
		if seen[s] {
			continue
		}
		seen[s] = true
		out = append(out, s)
		s.Transitions.ForEach(func(_ any, tos *arrayOfStates) {
			for _, t := range tos.Elements() {
				stack = append(stack, t)
			}
		})
	}
	sort.Slice(out, func(i, j int) bool { return out[i].ID < out[j].ID })
	return out
}

func nfaEdges(states []*nfa.State) []nfaEdge {
	var es []nfaEdge
	for _, s := range states {
		s.Transitions.ForEach(func(in any, tos *arrayOfStates) {
			for _, t := range tos.Elements() {
				if r, ok := in.(rang3.Range); ok {
					es = append(es, nfaEdge{int(s.ID), int(t.ID), int(r.B), int(r.E)})
				} else {
					es = append(es, nfaEdge{int(s.ID), int(t.ID), -1, -1})
				}
			}
		})
	}
	sort.Slice(es, func(i, j int) bool {
		a, b := es[i], es[j]
		if a.src != b.src {
			return a.src < b.src
		}
		if a.dst != b.dst {
			return a.dst < b.dst
		}
		if a.b != b.b {
			return a.b < b.b
		}
		return a.e < b.e
	})
	return es
}

// dumpNFA: states reachable from start; rule index of an accepting state by identity of its Data.
func dumpNFA(start *nfa.State, n int, ruleOf map[*nfa.State]int) string {
	states := collectNFA([]*nfa.State{start})
	var sb strings.Builder
	fmt.Fprintf(&sb, "%d %d |", n, start.ID)
	for _, e := range nfaEdges(states) {
		fmt.Fprintf(&sb, " %d %d %d %d", e.src, e.dst, e.b, e.e)
	}
	sb.WriteString(" |")
	for _, s := range states {
		if s.Accept {
			fmt.Fprintf(&sb, " %d %d", s.ID, ruleOf[s])
		}
	}
	sb.WriteString(" |")
	for _, s := range states {
		if s.NonGreedy {
			fmt.Fprintf(&sb, " %d", s.ID)
		}
	}
	return sb.String()
}

type dTrans struct {
	b, e int
	to   *dfa.State
}

func dfaTrans(s *dfa.State) []dTrans {
	var ts []dTrans
	s.Transitions.ForEach(func(in any, to *dfa.State) {
		r := in.(rang3.Range)
		ts = append(ts, dTrans{int(r.B), int(r.E), to})
	})
	sort.Slice(ts, func(i, j int) bool {
		if ts[i].b != ts[j].b {
			return ts[i].b < ts[j].b
		}
		return ts[i].e < ts[j].e
	})
	return ts
}

// dumpDFA: canonical breadth-first renumbering from States[0]. winner(s) = rule index or -1.
func dumpDFA(d *dfa.DFA, winner func(*dfa.State) int) string {
	if len(d.States) == 0 {
		return "0 |"
	}
	id := map[*dfa.State]int{d.States[0]: 0}
	order := []*dfa.State{d.States[0]}
	for k := 0; k < len(order); k++ {
		for _, t := range dfaTrans(order[k]) {
			if _, ok := id[t.to]; !ok {
				id[t.to] = len(order)
				order = append(order, t.to)
			}
		}
	}
	var sb strings.Builder
	fmt.Fprintf(&sb, "%d", len(d.States))
	for _, s := range order {
		fmt.Fprintf(&sb, " | %d %d %d :", b2i(s.Accept), b2i(s.NonGreedy), winner(s))
		ids := map[int]bool{}
		for _, ns := range s.NFAStates {
			ids[int(ns.ID)] = true
		}
		var sorted []int
		for k := range ids {
			sorted = append(sorted, k)
		}
		sort.Ints(sorted)
		for _, k := range sorted {
			fmt.Fprintf(&sb, " %d", k)
		}
		sb.WriteString(" :")
		for _, t := range dfaTrans(s) {
			fmt.Fprintf(&sb, " %d %d %d", t.b, t.e, id[t.to])
		}
	}
	return sb.String()
}

func minRule(ruleOf map[*nfa.State]int) func(*dfa.State) int {
	return func(s *dfa.State) int {
		best := -1
		for _, ns := range s.NFAStates {
			if ns.Accept {
				if r, ok := ruleOf[ns]; ok && (best < 0 || r < best) {
					best = r
				}
			}
		}
		return best
	}
}

// runDFA runs the DFA on a word: the state reached, or nil when a transition is missing.
func runDFA(d *dfa.DFA, w []int) *dfa.State {
	s := d.States[0]
	for _, c := range w {
		var next *dfa.State
		s.Transitions.ForEach(func(in any, to *dfa.State) {
			r := in.(rang3.Range)
			if int(r.B) <= c && c <= int(r.E) && next == nil {
				next = to
			}
		})
		if next == nil {
			return nil
		}
		s = next
	}
	return s
}

func init() {
	register("lexmodel", "the generator's Thompson construction, normalizeInputs, subset construction, optimize, splitStartState, mergeTransitions against their Lean model (C02 C10)", lexmodelRun)
}

func lexmodelRun(c *Ctx) {
	if c.Replay != nil {
		// A replayed `lex.*` line carries the rules in rich code. The specification is rebuilt from
		// them (one mode, fragment rules), rendered as .lox text and sent through the same pipeline;
		// the lines of all stages are emitted again for it.
		for _, l := range c.Replay {
			op, payload, _ := strings.Cut(l, " ")
			if !strings.HasPrefix(op, "lex.") {
				c.Emit(l, l)
				continue
			}
			rulesPart, _, _ := strings.Cut(payload, "|")
			s := &LSpec{Modes: []*LMode{{Name: ""}}, BlockAt: []int{0}}
			ok := true
			for _, rc := range strings.Split(rulesPart, ";") {
				if strings.TrimSpace(rc) == "" {
					continue
				}
				var xs []int
				for _, f := range strings.Fields(rc) {
					var v int
					if _, err := fmt.Sscan(f, &v); err != nil {
						ok = false
					}
					xs = append(xs, v)
				}
				e, rest, good := richExpr(xs)
				if !good || len(rest) != 0 {
					ok = false
					break
				}
				s.Modes[0].Rules = append(s.Modes[0].Rules, &LRule{Frag: true, Expr: e})
			}
			if !ok || len(s.Modes[0].Rules) == 0 {
				c.Emit(l, "unparseable-replay-line")
				continue
			}
			lexmodelSpec(c, s, s.Lox(c.Rng))
		}
		return
	}
	for i := 0; i < c.N; i++ {
		o := LGenOpts{MaxModes: 2, MaxRules: 4, Depth: 1, Small: c.Rng.Chance(2, 3)}
		if c.Tier == "thorough" {
			o = LGenOpts{MaxModes: 3, MaxRules: 6, Depth: 2, Small: c.Rng.Chance(1, 2)}
		}
		s := GenLSpec(c.Rng, o)
		text := s.Lox(c.Rng)
		lexmodelSpec(c, s, text)
	}
}

func lexmodelSpec(c *Ctx, s *LSpec, text string) {
	specTxt := strings.ReplaceAll(strings.TrimSpace(text), "\n", " ⏎ ")
	fr := RunFront(text)
	if !fr.OK {
		c.Count("rejected")
		c.EmitO("# rejected "+specTxt, "rejected", "C17: well-formed specification rejected: "+strings.ReplaceAll(strings.TrimSpace(fr.Diag), "\n", " ⏎ ")+" | spec: "+specTxt)
		return
	}
	c.Count("accepted")
	ctx := fr.Ctx
	perMode := map[string][]*ast.LexerExpr{}
	var walk func(mode string, sts []ast.Statement)
	walk = func(mode string, sts []ast.Statement) {
		for _, st := range sts {
			switch r := st.(type) {
			case *ast.Mode:
				walk(r.Name, r.Rules)
			case *ast.TokenRule:
				perMode[mode] = append(perMode[mode], r.Expr)
			case *ast.FragRule:
				perMode[mode] = append(perMode[mode], r.Expr)
			}
		}
	}
	for _, u := range fr.Units {
		walk(ast.DefaultModeName, u.Statements)
	}
	var mnames []string
	for name := range ctx.LexerModes {
		mnames = append(mnames, name)
	}
	sort.Strings(mnames)
	for _, name := range mnames {
		res := guard(func() string { lexmodelMode(c, s, ctx, name, perMode[name], specTxt); return "" })
		if res != "" {
			c.EmitO("# lexmodel "+name+" "+specTxt, res, "C12: panic while rebuilding mode "+name+": "+res+" | spec: "+specTxt)
		}
	}
}

func lexmodelMode(c *Ctx, s *LSpec, ctx *ast.Context, name string, exprs []*ast.LexerExpr, specTxt string) {
	rb := ctx.LexerModes[name]
	realMode := ctx.LexerDFAs[name]
	if rb == nil || realMode == nil || len(rb.Rules) != len(exprs) {
		c.Emit("# export-drift "+name+": rule lists differ | "+specTxt, "export-drift")
		return
	}
	var codes []string
	for _, e := range exprs {
		code := joinInts(astRxCode(ctx, e))
		codes = append(codes, code)
		if c.Distinct("rx " + code) {
			c.Emit("lex.rxre "+code, joinInts(astExprCode(ctx, e)))
		}
	}
	rules := strings.Join(codes, " ; ")
	if !c.Distinct("mode " + rules) {
		c.Count("duplicate-mode")
		return
	}
	c.Count("modes")

	// rebuild the rules with a fresh factory (real NFACons)
	mb := mode.New(name)
	ctx.CurrentLexerMode.Push(mb)
	ruleOf := map[*nfa.State]int{}
	dataRule := map[any]int{}
	for i, e := range exprs {
		nc := e.NFACons(ctx)
		nc.E.Accept = true
		nc.E.Data = rb.Rules[i].E.Data
		mb.AddRule(*nc)
		ruleOf[nc.E] = i
		dataRule[rb.Rules[i].E.Data] = i
	}
	ctx.CurrentLexerMode.Pop()
	drift := ""
	for i := range exprs {
		if mb.Rules[i].B.ID != rb.Rules[i].B.ID || mb.Rules[i].E.ID != rb.Rules[i].E.ID {
			drift = fmt.Sprintf("rule %d: rebuilt B/E = %d/%d, built by the pass = %d/%d", i, mb.Rules[i].B.ID, mb.Rules[i].E.ID, rb.Rules[i].B.ID, rb.Rules[i].E.ID)
		}
	}
	start := mode.VerifStart(mb)
	n := int(start.ID) + 1
	c.Emit("lex.thompson "+rules, dumpNFA(start, n, ruleOf))

	mode.VerifNormalizeInputs(start)
	c.Emit("lex.normalize "+rules, dumpNFA(start, n, ruleOf))

	pre := dfa.VerifSubset(start)
	c.Emit("lex.subset "+rules, dumpDFA(pre, minRule(ruleOf)))
	c.Extra["max-dfa-states"] = maxInt(c.Extra["max-dfa-states"], len(pre.States))

	npre := len(pre.States)
	dfa.VerifOptimize(pre)
	c.Emit("lex.optimize "+rules, dumpDFA(pre, minRule(ruleOf)))
	if len(pre.States) < npre {
		c.Count("optimize-merged-states")
	}
	nopt := len(pre.States)

	mode.VerifSplitStartState(pre)
	if len(pre.States) > nopt {
		c.Count("start-state-split")
	}
	mode.VerifMergeTransitions(pre)
	pick := func(st *dfa.State) int {
		a := mode.VerifPickAction(mb, ctx.Errs, ctx.FSet, st)
		if a == nil {
			return -1
		}
		return dataRule[a]
	}
	staged := dumpDFA(pre, pick)
	// property oracle on the REAL result of Build: no transition may lead into state 0 (the
	// generated state machine reads state 0 as "nothing consumed since the last token")
	buildOracle := ""
	if w := wordBackToStart(realMode.DFA); w != nil {
		buildOracle = fmt.Sprintf("C02,C11: mode %s: after the input [%s] the DFA returned by ModeBuilder.Build is back in state 0, which the generated state machine reads as `no input consumed`: at end of input the pending text is dropped instead of being reported (splitStartState must leave no transition into state 0) | spec: %s", name, joinInts(w), specTxt)
	}
	c.EmitO("lex.build "+rules, staged, buildOracle)

	// the DFA the real Build produced for this mode
	realWinner := func(st *dfa.State) int {
		a, ok := st.Data.(*mode.Actions)
		if !ok || a == nil {
			return -1
		}
		return dataRule[a]
	}
	realDump := dumpDFA(realMode.DFA, realWinner)
	if drift == "" && realDump != staged {
		drift = "the DFA of ModeBuilder.Build differs from the DFA of the staged pipeline: " + realDump
	}
	if drift != "" {
		c.Emit("# export-drift "+name+": "+drift+" | "+specTxt, "export-drift")
		return
	}

	// ---- short words over the mode's alphabet: real DFA vs the rule-level reference ----
	var lm *LMode
	for _, m := range s.Modes {
		mn := m.Name
		if mn == "" {
			mn = ast.DefaultModeName
		}
		if mn == name {
			lm = m
		}
	}
	if lm == nil || len(lm.Rules) != len(exprs) {
		return
	}
	alpha := lexmodelAlphabet(realMode.DFA)
	ms := s.buildMode(lm)
	var words [][]int
	var gen func(w []int, depth int)
	gen = func(w []int, depth int) {
		words = append(words, append([]int(nil), w...))
		if depth == 0 {
			return
		}
		for _, a := range alpha {
			gen(append(w, a), depth-1)
		}
	}
	gen(nil, 3)
	var wstrs, answers []string
	oracle := ""
	for _, w := range words {
		wstrs = append(wstrs, joinInts(w))
		st := runDFA(realMode.DFA, w)
		ans := "d"
		if st != nil {
			if k := realWinner(st); k >= 0 {
				ans = fmt.Sprint(k)
			} else {
				ans = "-"
			}
		}
		answers = append(answers, ans)
		// reference
		sim := ms.initial()
		alive := true
		for _, ch := range w {
			sim, alive = ms.step(sim, ch)
			if !alive {
				break
			}
		}
		want := "d"
		if alive {
			if k := ms.winner(sim); k >= 0 {
				want = fmt.Sprint(k)
			} else {
				want = "-"
			}
		}
		if want != ans && oracle == "" {
			oracle = fmt.Sprintf("C02: mode %s, word [%s]: the generated DFA answers %s, the rule-level definition (longest viable match, earliest rule) says %s (d = not viable, - = viable and unlabelled, k = rule k) | spec: %s", name, joinInts(w), ans, want, specTxt)
		}
	}
	c.Count("words")
	c.Counters["words"] += len(words) - 1
	c.EmitO("lex.runs "+rules+" | "+strings.Join(wstrs, " / "), strings.Join(answers, " "), oracle)
}

func maxInt(a any, b int) int {
	if x, ok := a.(int); ok && x > b {
		return x
	}
	return b
}

// lexmodelAlphabet: the lower bound of every transition label of the final DFA, one code point
// outside all labels, capped at 6 symbols.
func lexmodelAlphabet(d *dfa.DFA) []int {
	set := map[int]bool{}
	var rs [][2]int
	for _, s := range d.States {
		for _, t := range dfaTrans(s) {
			set[t.b] = true
			set[t.e] = true
			rs = append(rs, [2]int{t.b, t.e})
		}
	}
	var out []int
	for k := range set {
		out = append(out, k)
	}
	sort.Ints(out)
	for cand := 0; cand < 0x110000; cand++ {
		in := false
		for _, r := range rs {
			if r[0] <= cand && cand <= r[1] {
				in = true
				cand = r[1]
				break
			}
		}
		if !in {
			out = append(out, cand)
			break
		}
	}
	if len(out) > 6 {
		// keep the first 5 and the outsider
		out = append(out[:5], out[len(out)-1])
	}
	return out
}

// ---- rich code -> harness AST (for replays) ----

func richTerm(xs []int) (*LTerm, []int, bool) {
	if len(xs) == 0 {
		return nil, nil, false
	}
	switch xs[0] {
	case 10:
		if len(xs) < 2 || len(xs) < 2+xs[1] {
			return nil, nil, false
		}
		n := xs[1]
		return &LTerm{Kind: LLit, Lit: append([]int(nil), xs[2:2+n]...)}, xs[2+n:], true
	case 1:
		if len(xs) < 2 || len(xs) < 2+2*xs[1] {
			return nil, nil, false
		}
		n := xs[1]
		cl := &LClassExpr{}
		for i := 0; i < n; i++ {
			cl.Items = append(cl.Items, RRange{xs[2+2*i], xs[3+2*i]})
		}
		return &LTerm{Kind: LClass, Class: cl}, xs[2+2*n:], true
	case 7, 4, 5, 8, 9:
		t, rest, ok := richTerm(xs[1:])
		if !ok {
			return nil, nil, false
		}
		if t.Card != "" {
			t = &LTerm{Kind: LGroup, Group: &LExpr{Alts: [][]*LTerm{{t}}}}
		}
		t.Card = map[int]string{7: "?", 4: "*", 5: "*?", 8: "+", 9: "+?"}[xs[0]]
		return t, rest, true
	case 2, 3:
		e, rest, ok := richExpr(xs)
		if !ok {
			return nil, nil, false
		}
		return &LTerm{Kind: LGroup, Group: e}, rest, true
	}
	return nil, nil, false
}

func richSeq(xs []int) ([]*LTerm, []int, bool) {
	if len(xs) > 0 && xs[0] == 2 {
		a, rest, ok := richSeq(xs[1:])
		if !ok {
			return nil, nil, false
		}
		b, rest2, ok := richSeq(rest)
		if !ok {
			return nil, nil, false
		}
		return append(a, b...), rest2, true
	}
	t, rest, ok := richTerm(xs)
	if !ok {
		return nil, nil, false
	}
	return []*LTerm{t}, rest, true
}

func richExpr(xs []int) (*LExpr, []int, bool) {
	if len(xs) > 0 && xs[0] == 3 {
		first, rest, ok := richSeq(xs[1:])
		if !ok {
			return nil, nil, false
		}
		e := &LExpr{Alts: [][]*LTerm{first}}
		for {
			if len(rest) == 0 {
				return nil, nil, false
			}
			code := rest[0]
			if code != 11 && code != 12 {
				return nil, nil, false
			}
			var a []*LTerm
			a, rest, ok = richSeq(rest[1:])
			if !ok {
				return nil, nil, false
			}
			e.Alts = append(e.Alts, a)
			if code == 11 {
				return e, rest, true
			}
		}
	}
	a, rest, ok := richSeq(xs)
	if !ok {
		return nil, nil, false
	}
	return &LExpr{Alts: [][]*LTerm{a}}, rest, true
}

// wordBackToStart: a shortest non-empty word that leads the DFA from state 0 back to state 0
// (nil if no transition leads into state 0 from a reachable state).
func wordBackToStart(d *dfa.DFA) []int {
	if len(d.States) == 0 {
		return nil
	}
	type item struct {
		s *dfa.State
		w []int
	}
	seen := map[*dfa.State]bool{d.States[0]: true}
	queue := []item{{d.States[0], nil}}
	for len(queue) > 0 {
		it := queue[0]
		queue = queue[1:]
		for _, t := range dfaTrans(it.s) {
			w := append(append([]int(nil), it.w...), t.b)
			if t.to == d.States[0] {
				return w
			}
			if !seen[t.to] {
				seen[t.to] = true
				queue = append(queue, item{t.to, w})
			}
		}
	}
	return nil
}
