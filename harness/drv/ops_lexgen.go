//go:build verif

package main

import (
	"fmt"
	"os"
	"sort"
	"strings"
)

// Family lexgen: random lexer specifications pushed through the REAL generator
// (codegen.Generate), mode tables read back from the emitted lexer.gen.go, generated state
// machines compiled and driven by the real simplelexer.
//
// Case lines (see lean/Lox/Lex/Drv.lean, DrvRuntime.lean):
//   lex.bisim <rules> | <mode table>      per mode; rules in declaration order; impl: ok
//   lex.wfmodes <m0> ; <m1> ; …           impl: ok
//   @let L<i> <m0> ; <m1> ; …
//   lex.run <fuel> | $L<i> | r w r w …    impl: token stream of simplelexer over the compiled machine
// Oracle column: the rule-level reference lexer (lexoracle.go) on the same bytes.

const lexPkgTemplate = `package PKG

import (
	"fmt"
	gotoken "go/token"
	"strings"

	"github.com/dcaiafa/loxlex/simplelexer"
)

type Token = simplelexer.Token

type P struct{ lox }

// Run lexes the bytes given as ints and prints the token stream.
func Run(in []int, maxToks int) string {
	input := make([]byte, len(in))
	for i, x := range in {
		input[i] = byte(x)
	}
	fset := gotoken.NewFileSet()
	file := fset.AddFile("in", -1, len(input))
	lx := simplelexer.New(simplelexer.Config{StateMachine: new(_LexerStateMachine), File: file, Input: input})
	var out []string
	for len(out) <= maxToks {
		t, ty := lx.ReadToken()
		off := file.Offset(t.Pos)
		switch ty {
		case EOF:
			out = append(out, fmt.Sprintf("EOF@%d", off))
			return strings.Join(out, " ") + " ok"
		case ERROR:
			ch := -2
			if e, ok := t.Err.(simplelexer.UnexpectedCharacterError); ok {
				ch = int(e.Char)
			}
			out = append(out, fmt.Sprintf("E@%d:%d", off, ch))
		default:
			out = append(out, fmt.Sprintf("T%d:%d-%d", ty, off, off+len(t.Str)))
		}
	}
	return "timeout"
}
`

type lexCase struct {
	spec *LSpec
	pkg  *GenPkg
}

func (s *LSpec) bisimRules(m *LMode, tokNum func(int) int) string {
	var parts []string
	for _, ru := range m.Rules {
		pairs := s.expectedPairs(ru, tokNum)
		xs := append([]int{len(pairs)}, pairs...)
		xs = append(xs, s.exprCode(ru.Expr, false)...)
		parts = append(parts, joinInts(xs))
	}
	return strings.Join(parts, " ; ")
}

func init() {
	register("lexgen", "random lexer specs through the real generator; table validator + compiled lexers vs model (C02 C07 C10 C11)", func(c *Ctx) { lexgenRun(c, "greedy") })
	register("lexng", "non-greedy rules of the C08 shape among greedy neighbours (C08)", func(c *Ctx) { lexgenRun(c, "ng") })
	register("lexngk2", "non-greedy rules with a greedy neighbour sharing their prefix (known finding K2)", func(c *Ctx) { lexgenRun(c, "k2") })
}

func lexgenRun(c *Ctx, variant string) {
	{
		root, err := os.MkdirTemp("", "verif-lexgen-")
		if err != nil {
			panic(err)
		}
		defer os.RemoveAll(root)
		WriteModule(root)
		n := c.N
		var specs []*LSpec
		var names, loxs, gos []string
		if variant == "greedy" {
			for i, s := range curatedLexSpecs() {
				name := fmt.Sprintf("k%04d", i)
				specs = append(specs, s)
				names = append(names, name)
				loxs = append(loxs, s.Lox(c.Rng))
				gos = append(gos, strings.ReplaceAll(lexPkgTemplate, "PKG", name))
			}
		}
		for i := 0; i < n; i++ {
			o := LGenOpts{MaxModes: 3, MaxRules: 4, Depth: 1, Small: c.Rng.Chance(2, 3)}
			if c.Tier == "thorough" {
				o = LGenOpts{MaxModes: 3, MaxRules: 7, Depth: 2, Small: c.Rng.Chance(1, 2)}
			}
			s := GenLSpec(c.Rng, o)
			if variant == "ng" {
				s = GenLSpecNG(c.Rng, false)
			} else if variant == "k2" {
				s = GenLSpecNG(c.Rng, true)
			}
			name := fmt.Sprintf("x%04d", i)
			specs = append(specs, s)
			names = append(names, name)
			loxs = append(loxs, s.Lox(c.Rng))
			gos = append(gos, strings.ReplaceAll(lexPkgTemplate, "PKG", name))
		}
		pkgs := GenerateAll(root, names, loxs, gos, false)
		var cases []*lexCase
		for i, p := range pkgs {
			switch {
			case p.Panic != "":
				c.Count("generator-panic")
				c.EmitO("# generator panic on "+strings.ReplaceAll(p.Lox, "\n", " ⏎ "), "panic", "C12: generator panicked: "+p.Panic+" | spec: "+strings.ReplaceAll(p.Lox, "\n", " ⏎ "))
			case !p.OK:
				// the generator of this family only writes well-formed specifications
				c.Count("rejected")
				c.EmitO("# rejected "+strings.ReplaceAll(p.Lox, "\n", " ⏎ "), "rejected", "C17: well-formed specification rejected: "+strings.ReplaceAll(strings.TrimSpace(p.Diag), "\n", " ⏎ ")+" | spec: "+strings.ReplaceAll(p.Lox, "\n", " ⏎ "))
			default:
				c.Count("accepted")
				cases = append(cases, &lexCase{specs[i], p})
			}
		}
		sort.Slice(cases, func(i, j int) bool { return cases[i].pkg.Name < cases[j].pkg.Name })
		var ok []string
		for _, cs := range cases {
			ok = append(ok, cs.pkg.Name)
		}
		bin, err := BuildMux(root, ok)
		if err != nil {
			c.EmitO("# go build of generated packages", "build-failed", "C06: generated packages do not compile: "+strings.ReplaceAll(err.Error(), "\n", " ⏎ "))
			return
		}
		maxToks := 400
		for _, cs := range cases {
			s, p := cs.spec, cs.pkg
			specTxt := strings.ReplaceAll(strings.TrimSpace(p.Lox), "\n", " ⏎ ")
			tokNum := func(i int) int { return p.Consts[s.TokenNames[i]] }
			// C19: declaration order numbering
			for i, nme := range s.TokenNames {
				if p.Consts[nme] != i+2 {
					c.EmitO("# token numbering "+p.Name, fmt.Sprint(p.ConstOrder), fmt.Sprintf("C19: token %s is numbered %d, declaration order says %d | spec: %s", nme, p.Consts[nme], i+2, specTxt))
				}
			}
			mi := s.modeIndex()
			// one table per DECLARED mode (mode numbers count the declared modes); when that fails the per-mode validators
			// cannot be addressed, the inputs still run: the token stream after a mode switch is what C07 speaks about
			modeCountOK := len(p.LexModes) == len(s.Modes)
			if !modeCountOK {
				c.EmitO("# mode count "+p.Name, fmt.Sprint(len(p.LexModes)), "C10: number of emitted mode tables differs from the number of modes | spec: "+specTxt)
			}
			var modeStrs []string
			for _, m := range p.LexModes {
				modeStrs = append(modeStrs, joinI64(m))
			}
			for k, m := range s.Modes {
				if !modeCountOK {
					break
				}
				bop := "lex.bisim "
				if variant != "greedy" {
					bop = "lex.bisimng "
				}
				c.Emit(bop+s.bisimRules(m, tokNum)+" | "+joinI64(p.LexModes[mi[k]]), "ok")
				c.Count("modes-validated")
			}
			all := strings.Join(modeStrs, " ; ")
			emptyOK := false
			for _, m := range s.Modes {
				for _, ru := range m.Rules {
					emptyOK = emptyOK || s.nullable(ru.Expr)
				}
			}
			if !modeCountOK {
				c.Count("specs-with-missing-mode-tables")
			} else if emptyOK {
				// a start state that accepts is outside the premise of the progress theorems (known finding K3 is
				// what happens without a mode action); table validator, runtime model and oracle still run
				c.Count("specs-with-empty-matchable-rule")
			} else {
				c.Emit("lex.wfmodes "+all, "ok")
			}
			c.Emit("@let "+p.Name+" "+all, "let")
			nin := 30
			if c.Tier == "thorough" {
				nin = 80
			}
			ins := s.genLexInputs(c.Rng, nin)
			var reqs []string
			for _, in := range ins {
				xs := make([]int, len(in))
				for i, b := range in {
					xs[i] = int(b)
				}
				reqs = append(reqs, fmt.Sprintf("%s %d %s", p.Name, maxToks, joinInts(xs)))
			}
			outs := RunMux(bin, reqs)
			for i, in := range ins {
				var rw []int
				for _, d := range decodeInput(in) {
					rw = append(rw, d.r, d.w)
				}
				line := fmt.Sprintf("lex.run %d | $%s | %s", 40*(len(in)+2)+100, p.Name, joinInts(rw))
				want := s.RefLex(in, tokNum, maxToks)
				or := ""
				if outs[i] != want {
					tag := "C02,C07,C11"
					if outs[i] == "timeout" || outs[i] == "crash" || outs[i] == "panic" {
						tag = "C11,C02,C07"
					}
					if variant != "greedy" {
						tag = "C08"
						if !strings.HasSuffix(outs[i], " ok") {
							// EOF not reached within the token budget, hang or crash: also a C11 input
							tag = "C08,C11"
						}
					}
					or = fmt.Sprintf("%s: token stream differs from the rule-level definition: want `%s` got `%s` | input bytes %v | spec: %s", tag, want, outs[i], in, specTxt)
				}
				c.Distinct(p.Lox + "|" + string(in))
				c.EmitO(line, outs[i], or)
				switch {
				case strings.Contains(outs[i], "E@"):
					c.Count("inputs-with-lexical-error")
				case strings.HasSuffix(outs[i], " ok"):
					c.Count("inputs-clean")
				default:
					c.Count("inputs-" + outs[i])
				}
			}
			if len(s.Modes) > 1 {
				c.Count("specs-with-modes")
			}
		}
		if len(cases) > 0 {
			c.Extra["sample_spec"] = cases[0].pkg.Lox
		}
	}
}
