//go:build verif

package main

import (
	"fmt"
	"os"
	"os/exec"
	"path/filepath"
	"sort"
	"strings"
	"sync"
	"time"
)

// Family determinism (C13): the bytes of base.gen.go, lexer.gen.go, parser.gen.go and of the
// --report text are compared between
//
//	fresh A/B/C   three fresh processes in three fresh directories (Go randomises map iteration per process)
//	cwd-dot       the process runs inside the directory, path "."
//	cwd-rel       relative path with a trailing slash from another working directory
//	other-environment  HOME, USER, locale, TZ, TMPDIR, GOMAXPROCS, unrelated variables changed (Go's own caches pinned)
//	again         a second run over the directory that already holds the output of the same specification
//	inputs-older-than-stale-output  as stale, the user's files dated two days back (no dependence on modification times)
//	stale         a run over a directory holding the generated files of a DIFFERENT grammar and package name
//	renamed       first run with the user's sources in package `oldpkg`, then the sources are renamed to
//	              the final package name and lox runs again in the same directory (D12)
//
// for random accepted specifications: parser specifications with precedence, sugar, @error and
// action methods whose types come from other packages (so that import aliases are emitted),
// lexer specifications with modes and macros, and specifications split over several files.
// Oracle column: `C13: <scenario>: <file> differs, line N: … | case: {files}`.

var detTypes = []struct{ imp, typ, zero string }{
	{"math/big", "*big.Int", "nil"},
	{"go/token", "token.Pos", "0"},
	{"go/ast", "*ast.File", "nil"},
	{"container/list", "map[string]*list.List", "nil"},
	{"time", "time.Duration", "0"},
	{"strings", "*strings.Builder", "nil"},
	{"", "int", "0"},
	{"", "[]string", "nil"},
	{"net/url", "url.Values", "nil"},
	{"text/scanner", "scanner.Position", "scanner.Position{}"},
}

func (s *GSpec) detGoType(t *GTerm, ruleType []string) string {
	switch t.Kind {
	case KTok:
		return "Token"
	case KRule:
		return ruleType[t.Rule]
	case KErr:
		return "Error"
	case KOpt:
		return s.detGoType(t.Child, ruleType)
	default:
		return "[]" + s.detGoType(t.Child, ruleType)
	}
}

// detGoSource: one action method per (rule, signature); the value type of every rule is drawn
// from detTypes, so the generated parser needs imports (aliases _i0, _i1, … in first-use order).
func (s *GSpec) detGoSource(r *Rng, pkg string) string {
	ruleType := make([]string, len(s.Rules))
	ruleZero := make([]string, len(s.Rules))
	imports := map[string]bool{}
	for i := range s.Rules {
		d := Pick(r, detTypes)
		ruleType[i], ruleZero[i] = d.typ, d.zero
		if d.imp != "" {
			imports[d.imp] = true
		}
	}
	var ms strings.Builder
	for ri, ru := range s.Rules {
		seen := map[string]bool{}
		for _, p := range ru.Prods {
			var sig []string
			for _, t := range p.Terms {
				sig = append(sig, s.detGoType(t, ruleType))
			}
			key := strings.Join(sig, ",")
			if seen[key] {
				continue
			}
			seen[key] = true
			var params []string
			for q, ty := range sig {
				params = append(params, fmt.Sprintf("a%d %s", q, ty))
			}
			fmt.Fprintf(&ms, "func (p *P) on_%s__s%d(%s) %s { return %s }\n", ru.Name, len(seen)-1, strings.Join(params, ", "), ruleType[ri], ruleZero[ri])
		}
	}
	var sb strings.Builder
	fmt.Fprintf(&sb, "package %s\n\n", pkg)
	if len(imports) > 0 {
		sb.WriteString("import (\n")
		for _, d := range detTypes {
			if d.imp != "" && imports[d.imp] {
				fmt.Fprintf(&sb, "\t%q\n", d.imp)
				imports[d.imp] = false
			}
		}
		sb.WriteString(")\n\n")
	}
	sb.WriteString("type Token struct{ N int }\n\ntype P struct {\n\tlox\n}\n\n")
	if s.WithBounds {
		sb.WriteString("func (p *P) _onBounds(r any, b, e Token) {}\n")
	}
	sb.WriteString(ms.String())
	return sb.String()
}

type detRun struct {
	scenario string
	dir      string
	args     []string
	cwd      string
	res      cliResult
	files    map[string]string
}

func (d *detRun) collect() {
	d.files = map[string]string{"--report": d.res.Stdout}
	for _, g := range genNames {
		b, err := os.ReadFile(filepath.Join(d.dir, g))
		if err != nil {
			d.files[g] = "<missing: " + err.Error() + ">"
		} else {
			d.files[g] = string(b)
		}
	}
}

func firstDiff(a, b string) string {
	la, lb := strings.Split(a, "\n"), strings.Split(b, "\n")
	for i := 0; i < len(la) || i < len(lb); i++ {
		x, y := "<end of file>", "<end of file>"
		if i < len(la) {
			x = la[i]
		}
		if i < len(lb) {
			y = lb[i]
		}
		if x != y {
			return fmt.Sprintf("line %d: `%s` vs `%s`", i+1, trunc(x, 160), trunc(y, 160))
		}
	}
	return "lengths differ"
}

type detSpec struct {
	idx   int
	kind  string
	c     *cliCase // files with package name detpkg
	old   *cliCase // the same user sources in package oldpkg
	runs  []*detRun
	base  *detRun
	stale map[string]string
}

var goEnvCache sync.Map

// goEnvValue: `go env NAME` of the harness process (so that a changed HOME does not move the module or build cache).
func goEnvValue(name string) string {
	if v, ok := goEnvCache.Load(name); ok {
		return v.(string)
	}
	cmd := exec.Command("go", "env", name)
	cmd.Env = append(os.Environ(), goEnv...)
	out, _ := cmd.Output()
	v := strings.TrimSpace(string(out))
	goEnvCache.Store(name, v)
	return v
}

func parallel(n int, jobs []func()) {
	var wg sync.WaitGroup
	sem := make(chan struct{}, n)
	for _, j := range jobs {
		wg.Add(1)
		go func(j func()) {
			defer wg.Done()
			sem <- struct{}{}
			defer func() { <-sem }()
			j()
		}(j)
	}
	wg.Wait()
}

func init() {
	register("determinism", "C13: generated files and --report compared across fresh processes, working directories, re-runs, stale output of another grammar and a package rename", func(c *Ctx) {
		root, err := os.MkdirTemp("", "verif-det-")
		if err != nil {
			panic(err)
		}
		defer os.RemoveAll(root)
		WriteModule(root)
		bin, err := buildCLI(root)
		if err != nil {
			c.EmitO("# cli build", "build-failed", "C13: the lox command does not build: "+strings.ReplaceAll(err.Error(), "\n", " ⏎ "))
			return
		}
		tmo := 240 * time.Second
		r := c.Rng
		const pkg = "detpkg"

		// specifications
		var specs, conflicting []*detSpec
		{
			// directed: rule types from four imported packages, mentioned by the productions of one rule in four different
			// orders, spread over several methods (import aliases are handed out in first-use order: any map iteration on
			// the way from the methods to the emitted casts shows between processes)
			ds := &detSpec{idx: 900, kind: "parser directed (four imported packages in differing orders)+imports", c: &cliCase{}, old: &cliCase{}}
			ds.c.put("g.lox", []byte("@lexer\nA = 'a'\nB = 'b'\nC = 'c'\nD = 'd'\n@frag [ \\n]+ @discard\n@parser\n@start top = x y z | y x w | z y x | z x | w z y\nx = A\ny = B\nz = C\nw = D | D w\n"))
			ds.c.put("p.go", []byte("package "+pkg+"\n\nimport (\n\t\"go/ast\"\n\t\"math/big\"\n\t\"net/url\"\n\t\"text/scanner\"\n\t\"time\"\n)\n\n"+
				"type Token struct{ N int }\n\ntype P struct {\n\tlox\n}\n\n"+
				"func (p *P) on_top__a(a *big.Int, b *ast.File, c time.Duration) url.Values { return nil }\n"+
				"func (p *P) on_top__b(b *ast.File, a *big.Int, d scanner.Position) url.Values { return nil }\n"+
				"func (p *P) on_top__c(c time.Duration, b *ast.File, a *big.Int) url.Values { return nil }\n"+
				"func (p *P) on_top__d(c time.Duration, a *big.Int) url.Values { return nil }\n"+
				"func (p *P) on_top__e(d scanner.Position, c time.Duration, b *ast.File) url.Values { return nil }\n"+
				"func (p *P) on_x(t Token) *big.Int { return nil }\nfunc (p *P) on_y(t Token) *ast.File { return nil }\n"+
				"func (p *P) on_z(t Token) time.Duration { return 0 }\nfunc (p *P) on_w__one(t Token) scanner.Position { return scanner.Position{} }\n"+
				"func (p *P) on_w__more(t Token, w scanner.Position) scanner.Position { return w }\n"))
			ds.old = ds.c.clone()
			src, _ := ds.old.get("p.go")
			ds.old.put("p.go", []byte(strings.Replace(string(src), "package "+pkg, "package oldpkg", 1)))
			specs = append(specs, ds)
		}
		for i, attempts := 0, 0; len(specs) < c.N+1 && attempts < c.N*60; attempts++ {
			ds := &detSpec{idx: i, c: &cliCase{}, old: &cliCase{}}
			switch i % 4 {
			case 0, 1, 3:
				o := GenOpts{MaxTokens: 5, MaxRules: 5, MaxProds: 4, MaxTerms: 4, Sugar: true, Errors: r.Chance(1, 3), Prec: i%4 != 3 || r.Bool()}
				if c.Tier == "thorough" {
					o.MaxRules, o.MaxTokens = 7, 6
				}
				s := GenSpec(r, o)
				if o.Prec && !s.UsesPrec() {
					addExprRule(r, s)
				}
				lox := s.Lox()
				// cheap in-process pre-filter: the front end accepts it and the table has no conflicts
				if fr := RunFront(lox); !fr.OK || fr.Table == nil || fr.Table.HasConflicts {
					c.Count("prefilter-rejected")
					if fr.OK && fr.Table != nil && fr.Table.HasConflicts && len(conflicting) < (c.N+1)/2 {
						// --report is what a user reads when the grammar HAS conflicts: compare it too
						cs := &detSpec{idx: 500 + len(conflicting), kind: "parser+conflicts(report only)", c: &cliCase{}}
						cs.c.put("g.lox", []byte(lox))
						cs.c.put("p.go", []byte(s.detGoSource(r, pkg)))
						conflicting = append(conflicting, cs)
					}
					continue
				}
				gosrc := s.detGoSource(r, pkg)
				ds.kind = "parser"
				if s.UsesPrec() {
					ds.kind += "+prec"
				}
				if strings.Contains(gosrc, "import (") {
					ds.kind += "+imports"
				}
				if i%4 == 3 {
					// several files: lexer and parser sections apart, plus a file with only comments
					if k := strings.Index(lox, "@parser\n"); k > 0 {
						ds.c.put("a_lexer.lox", []byte(lox[:k]))
						ds.c.put("z_parser.lox", []byte(lox[k:]))
						ds.c.put("m_empty.lox", []byte("// nothing here\n"))
						ds.kind += "+3files"
					} else {
						ds.c.put("g.lox", []byte(lox))
					}
				} else {
					ds.c.put("g.lox", []byte(lox))
				}
				ds.c.put("p.go", []byte(gosrc))
			case 2:
				o := LGenOpts{MaxModes: 4, MaxRules: 5, Depth: 2, Small: r.Bool(), NonGreedy: r.Chance(1, 3)}
				s := GenLSpec(r, o)
				ds.kind = fmt.Sprintf("lexer modes=%d macros=%d", len(s.Modes), len(s.Macros))
				if i == 2 {
					// directed: mode names that are equal ignoring case, interleaved (any order that is not the
					// byte order of the names, e.g. a case-folded sort over a map, shows between processes)
					ds.kind = "lexer modes=5 directed (names equal ignoring case)"
					ds.c.put("g.lox", []byte("@lexer\nA = 'a' @push_mode(Str)\nB = 'b' @push_mode(STR)\nC = 'c' @push_mode(aA)\nD = 'd' @push_mode(Aa)\n"+
						"@mode Str {\nS1 = 's' @pop_mode\n}\n@mode aA {\nS3 = 'u' @pop_mode\nS5 = 'w' @push_mode(STR)\n}\n@mode STR {\nS2 = 't'+ @pop_mode\n}\n@mode Aa {\nS4 = 'v' 'v' @pop_mode\n}\n"))
				} else {
					ds.c.put("g.lox", []byte(s.Lox(r)))
				}
				ds.c.put("p.go", []byte(strings.ReplaceAll(lexPkgTemplate, "PKG", pkg)))
			}
			ds.old = ds.c.clone()
			src, _ := ds.old.get("p.go")
			ds.old.put("p.go", []byte(strings.Replace(string(src), "package "+pkg, "package oldpkg", 1)))
			if i%2 == 1 {
				// the user's only Go file sorts BEFORE base.gen.go / lexer.gen.go / parser.gen.go (stale generated
				// files must never be what the package name is read from)
				for _, cc := range []*cliCase{ds.c, ds.old} {
					if b, ok := cc.get("p.go"); ok {
						cc.put("a_user.go", b)
						delete(cc.Files, "p.go")
						delete(cc.FilesB64, "p.go")
					}
				}
				ds.kind += "+gofile-sorts-first"
			}
			specs = append(specs, ds)
			i++
		}

		// phase 1: fresh A (decides acceptance)
		var jobs []func()
		for _, ds := range specs {
			ds := ds
			jobs = append(jobs, func() {
				d := &detRun{scenario: "fresh-A", dir: filepath.Join(root, fmt.Sprintf("s%03da", ds.idx))}
				ds.c.write(d.dir)
				d.res = runCLI(bin, []string{"--report", d.dir}, root, tmo)
				d.collect()
				ds.base = d
			})
		}
		parallel(16, jobs)
		var acc []*detSpec
		for _, ds := range specs {
			if ds.base.res.Exit == 0 && !ds.base.res.TimedOut {
				if len(acc) < c.N+1 {
					acc = append(acc, ds)
				}
			} else {
				c.Count("rejected-specifications")
			}
		}
		// stale output of a DIFFERENT grammar: the previous accepted specification's, else a fixed one
		fixedStale := map[string]string{}
		{
			sd := filepath.Join(root, "stale0")
			sc := &cliCase{}
			sc.put("g.lox", []byte("@lexer\nX = 'x'\nY = [0-9]+ @push_mode(Q)\n@mode Q {\nZ = 'z' @pop_mode\n}\n@parser\n@start top = X Y Z?\n"))
			sc.put("p.go", []byte("package stalepkg\n\ntype Token struct{}\n\ntype pp struct{ lox }\n\nfunc (p *pp) on_top(x, y, z Token) string { return \"\" }\n"))
			sc.write(sd)
			if res := runCLI(bin, []string{sd}, root, tmo); res.Exit == 0 {
				for _, g := range genNames {
					b, _ := os.ReadFile(filepath.Join(sd, g))
					fixedStale[g] = string(b)
				}
			}
		}
		for k, ds := range acc {
			ds.stale = map[string]string{}
			src := fixedStale
			if k > 0 && k%2 == 1 {
				src = acc[k-1].base.files
			}
			for _, g := range genNames {
				// a different package name as well
				ds.stale[g] = strings.Replace(src[g], "package "+pkg+"\n", "package stalepkg\n", 1)
			}
		}

		// phase 2: everything else
		jobs = nil
		var mu sync.Mutex
		add := func(ds *detSpec, d *detRun) {
			mu.Lock()
			ds.runs = append(ds.runs, d)
			mu.Unlock()
		}
		for _, ds := range acc {
			ds := ds
			name := func(s string) string { return filepath.Join(root, fmt.Sprintf("s%03d%s", ds.idx, s)) }
			for _, sc := range []string{"B", "C"} {
				sc := sc
				jobs = append(jobs, func() {
					d := &detRun{scenario: "fresh-" + sc, dir: name(strings.ToLower(sc))}
					ds.c.write(d.dir)
					d.res = runCLI(bin, []string{"--report", d.dir}, root, tmo)
					d.collect()
					add(ds, d)
				})
			}
			jobs = append(jobs, func() {
				d := &detRun{scenario: "cwd-dot", dir: name("d")}
				ds.c.write(d.dir)
				d.res = runCLI(bin, []string{"--report", "."}, d.dir, tmo)
				d.collect()
				add(ds, d)
			})
			jobs = append(jobs, func() {
				d := &detRun{scenario: "cwd-rel", dir: name("e")}
				ds.c.write(d.dir)
				os.MkdirAll(filepath.Join(root, "elsewhere", "deeper"), 0o755)
				d.res = runCLI(bin, []string{"--report", "../../" + filepath.Base(d.dir) + "/"}, filepath.Join(root, "elsewhere", "deeper"), tmo)
				d.collect()
				add(ds, d)
			})
			jobs = append(jobs, func() {
				// another environment: home, user, locale, time zone, temp dir, scheduler width, an unrelated variable
				d := &detRun{scenario: "other-environment", dir: name("v")}
				ds.c.write(d.dir)
				home := name("v-home")
				os.MkdirAll(filepath.Join(home, "tmp"), 0o755)
				d.res = runCLIEnv(bin, []string{"--report", d.dir}, root, tmo, []string{"HOME=" + home, "USER=someone-else", "LOGNAME=someone-else",
					"LANG=tr_TR.UTF-8", "LC_ALL=tr_TR.UTF-8", "TZ=UTC-14", "TMPDIR=" + filepath.Join(home, "tmp"), "GOMAXPROCS=1",
					"GOPATH=" + goEnvValue("GOPATH"), "GOMODCACHE=" + goEnvValue("GOMODCACHE"), "GOCACHE=" + goEnvValue("GOCACHE"), "LOX_DEBUG=1", "SOURCE_DATE_EPOCH=86400", "HOSTNAME=elsewhere", "COLUMNS=40", "NO_COLOR=1"})
				d.collect()
				add(ds, d)
			})
			jobs = append(jobs, func() {
				// over the output of the same specification (directory A), twice
				for k := 0; k < 2; k++ {
					d := &detRun{scenario: fmt.Sprintf("again-%d", k+1), dir: ds.base.dir}
					d.res = runCLI(bin, []string{"--report", d.dir}, root, tmo)
					d.collect()
					add(ds, d)
				}
			})
			jobs = append(jobs, func() {
				// the user's files carry OLD modification times, the three generated files of ANOTHER specification are newer
				// (restored from a backup or checked out after them): what is generated must not depend on timestamps
				d := &detRun{scenario: "inputs-older-than-stale-output", dir: name("m")}
				ds.c.write(d.dir)
				old := time.Now().Add(-48 * time.Hour)
				for _, n := range ds.c.names() {
					os.Chtimes(filepath.Join(d.dir, n), old, old)
				}
				for g, txt := range ds.stale {
					os.WriteFile(filepath.Join(d.dir, g), []byte(txt), 0o644)
				}
				d.res = runCLI(bin, []string{"--report", d.dir}, root, tmo)
				d.collect()
				add(ds, d)
			})
			jobs = append(jobs, func() {
				d := &detRun{scenario: "stale-other-grammar", dir: name("g")}
				ds.c.write(d.dir)
				for g, txt := range ds.stale {
					os.WriteFile(filepath.Join(d.dir, g), []byte(txt), 0o644)
				}
				d.res = runCLI(bin, []string{"--report", d.dir}, root, tmo)
				d.collect()
				add(ds, d)
			})
			jobs = append(jobs, func() {
				dir := name("h")
				ds.old.write(dir)
				first := runCLI(bin, []string{"--report", dir}, root, tmo)
				d := &detRun{scenario: "renamed-package", dir: dir}
				if first.Exit != 0 {
					d.scenario = "renamed-package(first run with the old name failed: " + firstLines(first.Stderr, 2) + ")"
				}
				ds.c.write(dir)
				d.res = runCLI(bin, []string{"--report", dir}, root, tmo)
				d.collect()
				add(ds, d)
			})
		}
		parallel(16, jobs)

		{
			var cj []func()
			for _, cs := range conflicting {
				cs := cs
				for k, sc := range []string{"fresh-A", "fresh-B", "fresh-C", "cwd-dot"} {
					k, sc := k, sc
					cj = append(cj, func() {
						d := &detRun{scenario: sc, dir: filepath.Join(root, fmt.Sprintf("k%03d%c", cs.idx, 'a'+k))}
						cs.c.write(d.dir)
						if sc == "cwd-dot" {
							d.res = runCLI(bin, []string{"--report", "."}, d.dir, tmo)
						} else {
							d.res = runCLI(bin, []string{"--report", d.dir}, root, tmo)
						}
						mu.Lock()
						cs.runs = append(cs.runs, d)
						mu.Unlock()
					})
				}
			}
			parallel(16, cj)
			for _, cs := range conflicting {
				sort.Slice(cs.runs, func(a, b int) bool { return cs.runs[a].scenario < cs.runs[b].scenario })
				c.Count("conflicting-specifications")
				c.Distinct(cs.c.json())
				for _, d := range cs.runs[1:] {
					c.Count("runs")
					why := ""
					if d.res.Exit != cs.runs[0].res.Exit {
						why = fmt.Sprintf("exit status %d vs %d", cs.runs[0].res.Exit, d.res.Exit)
					} else if d.res.Stdout != cs.runs[0].res.Stdout {
						why = "--report differs from the first fresh run, " + firstDiff(cs.runs[0].res.Stdout, d.res.Stdout)
					}
					line := fmt.Sprintf("# determinism %d %s %s", cs.idx, cs.kind, d.scenario)
					oracle := ""
					if why != "" {
						oracle = "C13: " + d.scenario + ": " + why + " | case: " + cs.c.json()
						c.Count("violations")
						line += " => DIFFERENT"
					} else {
						line += " => same bytes"
					}
					c.EmitO(line, line, oracle)
				}
			}
		}
		for _, ds := range acc {
			c.Count("specifications")
			c.Count("kind:" + strings.SplitN(ds.kind, " ", 2)[0])
			c.Distinct(ds.c.json())
			if strings.Contains(ds.base.files["parser.gen.go"], "_i1 ") {
				c.Count("with-two-or-more-import-aliases")
			} else if strings.Contains(ds.base.files["parser.gen.go"], "_i0 ") {
				c.Count("with-one-import-alias")
			}
			sort.Slice(ds.runs, func(a, b int) bool { return ds.runs[a].scenario < ds.runs[b].scenario })
			for _, d := range ds.runs {
				c.Count("runs")
				why := ""
				switch {
				case d.res.TimedOut:
					why = "no exit within the timeout"
				case d.res.Exit != 0:
					why = fmt.Sprintf("exit %d although a fresh run of the same specification succeeds: %s", d.res.Exit, firstLines(d.res.Stderr, 4))
				default:
					for _, f := range []string{"base.gen.go", "lexer.gen.go", "parser.gen.go", "--report"} {
						if d.files[f] != ds.base.files[f] {
							why = f + " differs from the first fresh run, " + firstDiff(ds.base.files[f], d.files[f])
							break
						}
					}
				}
				line := fmt.Sprintf("# determinism %d %s %s", ds.idx, ds.kind, d.scenario)
				oracle := ""
				if why != "" {
					oracle = "C13: " + d.scenario + ": " + why + " | case: " + ds.c.json()
					c.Count("violations")
				}
				if why == "" {
					line += " => same bytes"
				} else {
					line += " => DIFFERENT"
				}
				c.EmitO(line, line, oracle)
			}
		}
	})
}
