//go:build verif

package main

import (
	"bufio"
	"bytes"
	"fmt"
	"os"
	"os/exec"
	"path/filepath"
	"strconv"
	"strings"
	"time"
)

// Family concurrent (C18, dynamic support): K freshly generated packages (parsers with @error
// recovery, parsers with _onBounds, lexers with and without modes) are linked into ONE program
// built with `go build -race`. The program is first run in mode `seq` (every (package, input)
// job once, one after another: the reference outputs) and then, one fresh process per GOMAXPROCS
// value (1, 4, 16) so that every concurrent phase starts COLD (nothing has run yet that could have
// warmed a cache), in mode `conc`: the same jobs (each several times, shuffled) on N goroutines
// that all start together, for R rounds, every goroutine creating its own parser/lexer instances
// through the package's `Run`; then once more sequentially in that same process.
// The user halves of the packages (scripted lexer, action methods, the loop around
// simplelexer.ReadToken) call runtime.Gosched() at every token, so that even with one P the
// instances interleave at token granularity.
//
// Case lines are notes (impl = the same line); oracle column:
//   C18: concurrent result differs from sequential: …
//   C18: instance state leaks between runs: …   (second sequential pass differs from the first)
//   C18: data race reported: <first lines of the report>
//   C18: concurrent run crashed / did not finish: …

const c18RunnerTemplate = `package main

import (
	"bufio"
	"fmt"
	"os"
	"runtime"
	"strconv"
	"strings"
	"sync"
IMPORTS
)

var runs = map[string]func([]int, int) string{
RUNS
}

// packages whose parser value can be used for several parses in a row (one value per session)
var runners = map[string]func() func([]int, int) string{
RUNNERS
}

const sessionLen = 8

// sessions: per package with a Runner, the first sessionLen jobs of that package, in job order
func sessions(jobs []job) (names []string, idx map[string][]int) {
	idx = map[string][]int{}
	for i, j := range jobs {
		if _, ok := runners[j.pkg]; ok && len(idx[j.pkg]) < sessionLen {
			if len(idx[j.pkg]) == 0 {
				names = append(names, j.pkg)
			}
			idx[j.pkg] = append(idx[j.pkg], i)
		}
	}
	return names, idx
}

type job struct {
	pkg    string
	budget int
	in     []int
}

type rng struct{ s uint64 }

func (r *rng) next() uint64 {
	r.s += 0x9E3779B97F4A7C15
	z := r.s
	z = (z ^ (z >> 30)) * 0xBF58476D1CE4E5B9
	z = (z ^ (z >> 27)) * 0x94D049BB133111EB
	return z ^ (z >> 31)
}

func readLines(path string) []string {
	f, err := os.Open(path)
	if err != nil {
		panic(err)
	}
	defer f.Close()
	var out []string
	sc := bufio.NewScanner(f)
	sc.Buffer(make([]byte, 1<<20), 1<<26)
	for sc.Scan() {
		out = append(out, sc.Text())
	}
	return out
}

func main() {
	// usage: runner <jobs file> seq
	//        runner <jobs file> conc <reference outputs> <goroutines> <rounds> <copies> <seed> <gomaxprocs>
	// seq runs every job once, one after another, in a fresh process and prints the outputs.
	// conc starts COLD (nothing has run in this process), runs the jobs concurrently and compares
	// with the reference, then runs them once more sequentially.
	var jobs []job
	for _, l := range readLines(os.Args[1]) {
		fs := strings.Fields(l)
		if len(fs) < 2 {
			continue
		}
		j := job{pkg: fs[0]}
		j.budget, _ = strconv.Atoi(fs[1])
		for _, x := range fs[2:] {
			v, _ := strconv.Atoi(x)
			j.in = append(j.in, v)
		}
		jobs = append(jobs, j)
	}
	out := bufio.NewWriter(os.Stdout)
	defer out.Flush()

	if os.Args[2] == "seq" {
		for i, j := range jobs {
			fmt.Fprintf(out, "SEQ %d %s\n", i, runs[j.pkg](j.in, j.budget))
		}
		// reference of the sessions: one parser value per package, its jobs one after another
		names, idx := sessions(jobs)
		for _, n := range names {
			run := runners[n]()
			for k, i := range idx[n] {
				fmt.Fprintf(out, "SES %s %d %s\n", n, k, run(jobs[i].in, jobs[i].budget))
			}
		}
		fmt.Fprintf(out, "DONE %d 0\n", len(jobs))
		return
	}

	seq := make([]string, len(jobs))
	ses := map[string]string{}
	for _, l := range readLines(os.Args[3]) {
		fs := strings.SplitN(l, " ", 3)
		if len(fs) == 3 && fs[0] == "SEQ" {
			i, _ := strconv.Atoi(fs[1])
			if i < len(seq) {
				seq[i] = fs[2]
			}
		}
		if gs := strings.SplitN(l, " ", 4); len(gs) == 4 && gs[0] == "SES" {
			ses[gs[1]+" "+gs[2]] = gs[3]
		}
	}
	sesNames, sesIdx := sessions(jobs)
	nG, _ := strconv.Atoi(os.Args[4])
	rounds, _ := strconv.Atoi(os.Args[5])
	copies, _ := strconv.Atoi(os.Args[6])
	seed, _ := strconv.ParseUint(os.Args[7], 10, 64)
	np, _ := strconv.Atoi(os.Args[8])

	r := &rng{s: seed + uint64(np)*1000003}
	execs := 0
	var mu sync.Mutex
	ndiff := 0
	runtime.GOMAXPROCS(np)
	for round := 0; round < rounds; round++ {
		var order []int
		for c := 0; c < copies; c++ {
			for i := range jobs {
				order = append(order, i)
			}
		}
		for i := len(order) - 1; i > 0; i-- {
			k := int(r.next() % uint64(i+1))
			order[i], order[k] = order[k], order[i]
		}
		start := make(chan struct{})
		var wg sync.WaitGroup
		for g := 0; g < nG; g++ {
			wg.Add(1)
			go func(g int) {
				defer wg.Done()
				<-start
				for k := g; k < len(order); k += nG {
					i := order[k]
					got := runs[jobs[i].pkg](jobs[i].in, jobs[i].budget)
					runtime.Gosched()
					if got != seq[i] {
						mu.Lock()
						if ndiff < 20 {
							fmt.Fprintf(out, "DIFF %d %d %d %s\n", np, round, i, got)
						}
						ndiff++
						mu.Unlock()
					}
				}
			}(g)
		}
		// sessions: every goroutine below owns ONE parser value per package and parses that package's session with it,
		// copies times (a fresh value each time), while the goroutines above run their jobs
		for g := 0; g < nG && g < len(sesNames); g++ {
			wg.Add(1)
			go func(g int) {
				defer wg.Done()
				<-start
				for q := g; q < len(sesNames); q += nG {
					n := sesNames[q]
					for c := 0; c < copies; c++ {
						run := runners[n]()
						for k, i := range sesIdx[n] {
							got := run(jobs[i].in, jobs[i].budget)
							runtime.Gosched()
							if got != ses[fmt.Sprintf("%s %d", n, k)] {
								mu.Lock()
								if ndiff < 20 {
									fmt.Fprintf(out, "DIFFSES %d %d %d %s\n", np, round, i, got)
								}
								ndiff++
								mu.Unlock()
							}
						}
					}
				}
			}(g)
		}
		close(start)
		wg.Wait()
		execs += len(order)
	}
	runtime.GOMAXPROCS(runtime.NumCPU())

	// one after another again, in the process that ran them concurrently
	for i, j := range jobs {
		if got := runs[j.pkg](j.in, j.budget); got != seq[i] {
			fmt.Fprintf(out, "LEAK %d %s\n", i, got)
		}
	}
	fmt.Fprintf(out, "DONE %d %d\n", execs, ndiff)
}
`

// c18InjectGosched makes the hand-written half of a package yield at every token.
func c18InjectGosched(src string) (string, bool) {
	ok := false
	rep := func(old, new string) {
		if strings.Contains(src, old) {
			src = strings.Replace(src, old, new, 1)
			ok = true
		}
	}
	rep("func (l *scripted) ReadToken() (Token, int) {\n", "func (l *scripted) ReadToken() (Token, int) {\n\truntime.Gosched()\n")
	rep("func (p *P) mk(rule int, kids []string) Node {\n", "func (p *P) mk(rule int, kids []string) Node {\n\truntime.Gosched()\n")
	rep("\t\tt, ty := lx.ReadToken()\n", "\t\truntime.Gosched()\n\t\tt, ty := lx.ReadToken()\n")
	if ok {
		src = strings.Replace(src, "import (\n", "import (\n\t\"runtime\"\n", 1)
	}
	return src, ok
}

func init() {
	register("concurrent", "C18 support: generated parsers and lexers of several grammars run on many goroutines under -race, compared with sequential runs", func(c *Ctx) {
		root, err := os.MkdirTemp("", "verif-concurrent-")
		if err != nil {
			panic(err)
		}
		if os.Getenv("VERIF_KEEP") == "" {
			defer os.RemoveAll(root)
		} else {
			fmt.Fprintln(os.Stderr, "keeping", root)
		}
		t0 := time.Now()
		lap := func(what string) { c.Extra["t_"+what] = time.Since(t0).Seconds() }

		// -n K packages: two thirds parsers, one third lexers
		nL := c.N / 3
		if nL < 2 {
			nL = 2
		}
		nP := c.N - nL
		if nP < 4 {
			nP = 4
		}
		jobsPer, goroutines, rounds, copies, procs := 40, 8, 3, 2, "1,4,16"
		if c.Tier == "thorough" {
			jobsPer, goroutines, rounds, copies, procs = 120, 16, 5, 3, "1,2,4,16,64"
		}
		gens := c18GenBatch(c, root, nP, nL)
		lap("generate")
		// yield at every token (in the hand-written half only; the generated files are untouched)
		injected := 0
		for _, g := range gens {
			pth := filepath.Join(g.Pkg.Dir, "p.go")
			b, err := os.ReadFile(pth)
			if err != nil {
				continue
			}
			if s, ok := c18InjectGosched(string(b)); ok {
				os.WriteFile(pth, []byte(s), 0o644)
				injected++
			}
		}
		c.Counters["packages-yielding-at-every-token"] = injected

		// jobs
		type jobT struct {
			g     *c18Gen
			line  string
			shown string
		}
		var jobs []jobT
		for _, g := range gens {
			c.Count("packages:" + g.Kind)
			if g.GSpec != nil {
				s, p := g.GSpec, g.Pkg
				tt := []int{p.Consts["EOF"], p.Consts["ERROR"]}
				for _, name := range s.Tokens {
					tt = append(tt, p.Consts[name])
				}
				ins := genInputs(c.Rng, s, c.Tier, true)
				// prefer long inputs and inputs with ERROR tokens, keep some short ones
				picked := c18PickInputs(c.Rng, ins, jobsPer)
				for _, w := range picked {
					ty := make([]int, len(w))
					for i, x := range w {
						if x < 0 {
							ty[i] = tt[1]
						} else {
							ty[i] = tt[2+x]
						}
					}
					jobs = append(jobs, jobT{g, fmt.Sprintf("%s %d %s", g.Name, 4000, joinInts(ty)), "tokens " + joinInts(ty)})
				}
			} else {
				ins := g.LSpec.genLexInputs(c.Rng, jobsPer)
				if len(ins) > jobsPer {
					ins = ins[:jobsPer]
				}
				for _, in := range ins {
					xs := make([]int, len(in))
					for i, b := range in {
						xs[i] = int(b)
					}
					jobs = append(jobs, jobT{g, fmt.Sprintf("%s %d %s", g.Name, 400, joinInts(xs)), "bytes " + joinInts(xs)})
				}
			}
		}
		var jl strings.Builder
		for _, j := range jobs {
			jl.WriteString(j.line + "\n")
		}
		jobsFile := filepath.Join(root, "jobs.txt")
		os.WriteFile(jobsFile, []byte(jl.String()), 0o644)

		// runner
		var imps, runs, runners strings.Builder
		for _, g := range gens {
			fmt.Fprintf(&imps, "\t%s \"verifgen/%s\"\n", g.Name, g.Name)
			fmt.Fprintf(&runs, "\t%q: %s.Run,\n", g.Name, g.Name)
			if g.GSpec != nil {
				fmt.Fprintf(&runners, "\t%q: %s.Runner,\n", g.Name, g.Name)
			}
		}
		src := strings.Replace(c18RunnerTemplate, "IMPORTS", imps.String(), 1)
		src = strings.Replace(src, "RUNS", runs.String(), 1)
		src = strings.Replace(src, "RUNNERS", runners.String(), 1)
		os.WriteFile(filepath.Join(root, "main.go"), []byte(src), 0o644)
		bin := filepath.Join(root, "runner.bin")
		build := func(race bool) (string, error) {
			args := []string{"build", "-o", bin}
			if race {
				args = append(args, "-race")
			}
			args = append(args, ".")
			cmd := exec.Command("go", args...)
			cmd.Dir = root
			cmd.Env = append(os.Environ(), "GOFLAGS=-mod=mod", "GOPROXY=off", "GOSUMDB=off", "GOTOOLCHAIN=local")
			if race {
				cmd.Env = append(cmd.Env, "CGO_ENABLED=1")
			}
			outb, err := cmd.CombinedOutput()
			return string(outb), err
		}
		race := os.Getenv("VERIF_NORACE") == ""
		if race {
			if log, err := build(true); err != nil {
				race = false
				c.Extra["race_detector"] = "NOT AVAILABLE: go build -race failed, ran without it: " + trunc(strings.ReplaceAll(log, "\n", " ⏎ "), 600)
			} else {
				c.Extra["race_detector"] = "go build -race (CGO_ENABLED=1)"
			}
		} else {
			c.Extra["race_detector"] = "disabled by VERIF_NORACE"
		}
		if !race {
			if log, err := build(false); err != nil {
				c.EmitO("# C18 concurrent | go build of generated packages", "# C18 concurrent | go build of generated packages", "C06: generated packages do not compile: "+strings.ReplaceAll(log, "\n", " ⏎ "))
				return
			}
		}
		lap("build")
		c.Counters["race-detector-active"] = map[bool]int{true: 1, false: 0}[race]

		limit := 600 * time.Second
		if c.Tier == "thorough" {
			limit = 3000 * time.Second
		}
		// runProc runs the runner once; returns stdout, stderr, error text ("" = finished)
		runProc := func(args ...string) (string, string, string) {
			cmd := exec.Command(bin, args...)
			cmd.Env = append(os.Environ(), "GORACE=halt_on_error=0 exitcode=0")
			var so, se bytes.Buffer
			cmd.Stdout, cmd.Stderr = &so, &se
			done := make(chan error, 1)
			if err := cmd.Start(); err != nil {
				return "", "", "cannot start: " + err.Error()
			}
			go func() { done <- cmd.Wait() }()
			select {
			case err := <-done:
				if !strings.Contains(so.String(), "\nDONE ") && !strings.HasPrefix(so.String(), "DONE ") {
					return so.String(), se.String(), fmt.Sprintf("crashed (%v)", err)
				}
			case <-time.After(limit):
				cmd.Process.Kill()
				<-done
				return so.String(), se.String(), "did not finish within " + limit.String()
			}
			return so.String(), se.String(), ""
		}

		seq := make([]string, len(jobs))
		haveSeq := make([]bool, len(jobs))
		diffs := map[int][]string{}
		leaks := map[int]string{}
		execs := 0
		var problems []string
		var stderrAll strings.Builder
		parse := func(stdout string) {
			sc := bufio.NewScanner(strings.NewReader(stdout))
			sc.Buffer(make([]byte, 1<<20), 1<<26)
			for sc.Scan() {
				l := sc.Text()
				f := strings.SplitN(l, " ", 3)
				switch f[0] {
				case "SEQ":
					i, _ := strconv.Atoi(f[1])
					if i < len(seq) && len(f) == 3 {
						seq[i], haveSeq[i] = f[2], true
					}
				case "DIFF":
					g := strings.SplitN(l, " ", 5)
					if len(g) == 5 {
						i, _ := strconv.Atoi(g[3])
						if len(diffs[i]) < 3 {
							diffs[i] = append(diffs[i], fmt.Sprintf("GOMAXPROCS=%s round %s: `%s`", g[1], g[2], g[4]))
						}
					}
				case "DIFFSES":
					g := strings.SplitN(l, " ", 5)
					if len(g) == 5 {
						i, _ := strconv.Atoi(g[3])
						if len(diffs[i]) < 3 {
							diffs[i] = append(diffs[i], fmt.Sprintf("GOMAXPROCS=%s round %s, one parser value used for the package's session of %d inputs (this is one of them): `%s`", g[1], g[2], 8, g[4]))
						}
					}
				case "LEAK":
					i, _ := strconv.Atoi(f[1])
					if len(f) == 3 {
						leaks[i] = f[2]
					}
				case "DONE":
					if len(f) >= 2 {
						n, _ := strconv.Atoi(f[1])
						execs += n
					}
				}
			}
		}
		// reference: sequential, in its own process
		so, se, bad := runProc(jobsFile, "seq")
		refFile := filepath.Join(root, "seq.txt")
		os.WriteFile(refFile, []byte(so), 0o644)
		parse(so)
		execs = 0
		stderrAll.WriteString(se)
		if bad != "" {
			problems = append(problems, "sequential reference run "+bad+": "+trunc(strings.ReplaceAll(se, "\n", " ⏎ "), 1200))
		}
		// concurrent: one cold process per GOMAXPROCS value
		for _, np := range strings.Split(procs, ",") {
			if bad != "" {
				break
			}
			so, se, b := runProc(jobsFile, "conc", refFile, strconv.Itoa(goroutines), strconv.Itoa(rounds), strconv.Itoa(copies), strconv.FormatUint(c.Seed, 10), np)
			parse(so)
			stderrAll.WriteString(se)
			if b != "" {
				problems = append(problems, "concurrent run with GOMAXPROCS="+np+" "+b+": "+trunc(strings.ReplaceAll(se, "\n", " ⏎ "), 1500))
			}
		}
		lap("run")
		for i, j := range jobs {
			spec := ""
			note := fmt.Sprintf("# C18 concurrent %s %s | %s | sequential: %s", j.g.Name, j.g.Kind, j.shown, trunc(seq[i], 300))
			or := ""
			if d, ok := diffs[i]; ok {
				spec = strings.ReplaceAll(strings.TrimSpace(j.g.Pkg.Lox), "\n", " ⏎ ")
				or = fmt.Sprintf("C18: concurrent result differs from sequential: package %s (%s) input %s: sequential `%s`, concurrent %s | spec: %s", j.g.Name, j.g.Kind, j.shown, seq[i], strings.Join(d, "; "), spec)
			} else if l, ok := leaks[i]; ok {
				spec = strings.ReplaceAll(strings.TrimSpace(j.g.Pkg.Lox), "\n", " ⏎ ")
				or = fmt.Sprintf("C18: instance state leaks between runs: package %s (%s) input %s: first sequential run `%s`, sequential run after the concurrent rounds `%s` | spec: %s", j.g.Name, j.g.Kind, j.shown, seq[i], l, spec)
			}
			c.Distinct(j.g.Pkg.Lox + "|" + j.line)
			c.EmitO(note, note, or)
			switch {
			case !haveSeq[i]:
				c.Count("jobs-without-output")
			case strings.Contains(seq[i], "{"):
				c.Count("jobs-with-recovery")
			case strings.Contains(seq[i], " ; B "):
				c.Count("jobs-with-_onBounds")
			case strings.Contains(seq[i], "E@"):
				c.Count("jobs-with-lexical-error")
			}
			if haveSeq[i] && (seq[i] == "timeout" || seq[i] == "panic") {
				c.Count("jobs-" + seq[i])
			}
		}
		c.Counters["executions-concurrent"] = execs
		c.Counters["jobs"] = len(jobs)
		c.Extra["goroutines"] = goroutines
		c.Extra["rounds"] = rounds
		c.Extra["copies_per_round"] = copies
		c.Extra["gomaxprocs"] = procs

		stderr := stderrAll.String()
		sum := fmt.Sprintf("# C18 concurrent | %d packages, %d jobs, %d goroutines, %d rounds x GOMAXPROCS {%s} (one cold process each) x %d copies", len(gens), len(jobs), goroutines, rounds, procs, copies)
		or := ""
		if len(problems) > 0 {
			or = "C18: concurrent run crashed or did not finish: " + strings.Join(problems, " || ")
		}
		c.EmitO(sum, sum, or)
		rnote := "# C18 concurrent | race detector"
		ror := ""
		if k := strings.Index(stderr, "WARNING: DATA RACE"); k >= 0 {
			n := strings.Count(stderr, "WARNING: DATA RACE")
			rep := stderr[k:]
			if e := strings.Index(rep[1:], "=================="); e >= 0 {
				rep = rep[:e+1]
			}
			ror = fmt.Sprintf("C18: data race reported: %d report(s); first: %s", n, trunc(strings.ReplaceAll(strings.TrimSpace(rep), "\n", " ⏎ "), 2500))
			c.Counters["race-reports"] = n
		}
		c.EmitO(rnote, rnote, ror)
	})
}

// c18PickInputs keeps at most n inputs: all with ERROR tokens first (recovery), then the longest.
func c18PickInputs(r *Rng, ins [][]int, n int) [][]int {
	if len(ins) <= n {
		return ins
	}
	var withErr, long, rest [][]int
	for _, w := range ins {
		he := false
		for _, x := range w {
			if x < 0 {
				he = true
			}
		}
		switch {
		case he && len(w) >= 2:
			withErr = append(withErr, w)
		case len(w) >= 4:
			long = append(long, w)
		default:
			rest = append(rest, w)
		}
	}
	shuffle := func(v [][]int) {
		for i := len(v) - 1; i > 0; i-- {
			j := r.Intn(i + 1)
			v[i], v[j] = v[j], v[i]
		}
	}
	shuffle(withErr)
	shuffle(long)
	shuffle(rest)
	var out [][]int
	take := func(v [][]int, k int) {
		for i := 0; i < len(v) && i < k && len(out) < n; i++ {
			out = append(out, v[i])
		}
	}
	take(long, n/2)
	take(withErr, n/3)
	take(rest, n)
	take(long[minInt(len(long), n/2):], n)
	take(withErr[minInt(len(withErr), n/3):], n)
	return out
}
