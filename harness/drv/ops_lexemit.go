//go:build verif

package main

import (
	"fmt"
	"os"
	"path/filepath"
	"sort"
	"strings"

	"github.com/dcaiafa/lox/internal/ast"
	"github.com/dcaiafa/lox/internal/codegen"
	"github.com/dcaiafa/lox/internal/lexergen/dfa"
	"github.com/dcaiafa/lox/internal/lexergen/mode"
	"github.com/dcaiafa/lox/internal/lexergen/rang3"
)

// Family lexemit (C02, C10): the last step of the lexer generator — EmitLexer's `mode_table`
// (row = flags, count, (B,E,target) triples sorted by rang3.Compare, action pairs) and
// codegen/table.go (AddRow/Array) — against its Lean model lean/Lox/Lex/EmitModel.lean
// (`emitMode`, `genMode`; driver lean/Lox/Lex/DrvEmit.lean), about which
// Lox.Props.C02.generator_bisim / generator_munch and Lox.Props.C10.emit_faithful are proved.
//
// Curated and random specifications (all modes, greedy and non-greedy cardinalities) go through the
// real front end (RunFront = parser + ast.Analyze, which runs ModeBuilder.Build for every mode);
// the real (*context).EmitLexer is then run on those very mode.Mode objects
// (codegen.VerifEmitLexer, export file harness/export/internal__codegen/lexemit.go) and the
// `_lexerModeN` arrays are read back from the emitted lexer.gen.go. Per mode:
//
//   lex.emit <count> | acc ng winner : nfa ids : b e t … : ty p … | …
//       the real DFA of the mode, states in ID order with their real IDs as targets, transitions in
//       the order of Transitions.ForEach, action pairs of state.Data (push-mode parameter =
//       Mode.Index of the pushed mode). impl: the real `_lexerModeN`, element for element.
//   lex.genmode <rules in rich code> | <pairs of rule 0> ; <pairs of rule 1> ; …
//       the rules as NFACons sees them (astRxCode of ops_lexmodel.go) and the pairs of each rule's
//       actions. impl: the real `_lexerModeN` with the states renumbered breadth first from state 0
//       (the model numbers DFA states by order of creation, the real NFAToDFA by a depth-first
//       walk; both sides apply the same canonical renumbering, and the rows are stored again
//       through the real table code, codegen.VerifBuildTableUint32).
//
// Oracle column (C10, "re-decode by documented addressing"): the real array is decoded with the
// row format documented in the generated PushRune and compared with the DFA it was emitted from:
// number of states, flags, transitions sorted and equal as sets, action pairs.

func init() {
	register("lexemit", "EmitLexer's mode_table + table.go vs the Lean emission model, per mode: on the real DFA (exact) and for the whole generator (up to state numbering) (C02 C10)", lexemitRun)
}

// actionPairs is the (type, param) reading of an *mode.Actions, as documented in PushRune.
func actionPairs(a *mode.Actions, modes map[string]*mode.Mode) ([]int, bool) {
	var out []int
	if a == nil {
		return out, true
	}
	for _, act := range a.Actions {
		switch act.Type {
		case mode.ActionPushMode:
			m := modes[act.Mode]
			if m == nil {
				return nil, false
			}
			out = append(out, 1, m.Index)
		case mode.ActionPopMode:
			out = append(out, 2, 0)
		case mode.ActionAccept:
			out = append(out, 3, act.Terminal)
		case mode.ActionDiscard:
			out = append(out, 4, 0)
		case mode.ActionAccum:
			out = append(out, 5, 0)
		default:
			return nil, false
		}
	}
	return out, true
}

type emRow struct {
	flags   int64
	triples [][3]int64
	pairs   []int64
}

// decodeModeArray reads every row of a `_lexerModeN` with the addressing of PushRune.
func decodeModeArray(a []int64) ([]emRow, string) {
	if len(a) == 0 {
		return nil, "empty array"
	}
	n := int(a[0])
	if n <= 0 || n > len(a) {
		return nil, "first element is not a number of states"
	}
	rows := make([]emRow, n)
	for s := 0; s < n; s++ {
		i := int(a[s])
		if i < n || i >= len(a) {
			return nil, fmt.Sprintf("state %d: offset %d outside the row store", s, i)
		}
		count := int(a[i])
		if count < 2 || i+1+count > len(a) {
			return nil, fmt.Sprintf("state %d: row length %d does not fit", s, count)
		}
		row := a[i+1 : i+1+count]
		g := int(row[1])
		if g < 0 || 2+3*g > count || (count-2-3*g)%2 != 0 {
			return nil, fmt.Sprintf("state %d: gotoN %d inconsistent with row length %d", s, g, count)
		}
		r := emRow{flags: row[0]}
		for j := 0; j < g; j++ {
			r.triples = append(r.triples, [3]int64{row[2+3*j], row[3+3*j], row[4+3*j]})
		}
		r.pairs = append(r.pairs, row[2+3*g:]...)
		rows[s] = r
	}
	return rows, ""
}

// canonModeArray renumbers the states breadth first from state 0 (triples in row order; states not
// reachable from state 0 are dropped) and stores the rows again through the real table code.
func canonModeArray(a []int64) string {
	rows, why := decodeModeArray(a)
	if why != "" {
		return "undecodable " + why
	}
	id := map[int]int{0: 0}
	order := []int{0}
	for k := 0; k < len(order); k++ {
		for _, t := range rows[order[k]].triples {
			to := int(t[2])
			if to < 0 || to >= len(rows) {
				return fmt.Sprintf("undecodable target %d", to)
			}
			if _, ok := id[to]; !ok {
				id[to] = len(order)
				order = append(order, to)
			}
		}
	}
	var idx []int
	var out [][]uint32
	for k, s := range order {
		r := rows[s]
		row := []uint32{uint32(r.flags), uint32(len(r.triples))}
		for _, t := range r.triples {
			row = append(row, uint32(t[0]), uint32(t[1]), uint32(id[int(t[2])]))
		}
		for _, p := range r.pairs {
			row = append(row, uint32(p))
		}
		idx = append(idx, k)
		out = append(out, row)
	}
	arr, panicked := codegen.VerifBuildTableUint32(idx, out)
	if panicked != "" {
		return "panic " + panicked
	}
	xs := make([]int64, len(arr))
	for i, x := range arr {
		xs[i] = int64(x)
	}
	return joinI64(xs)
}

// emitDump: the DFA in the dump format of lex.build (ops_lexmodel.go) with real IDs, transitions in
// ForEach order, plus the pairs of every state. Also the property oracle against the decoded array.
func emitDump(d *dfa.DFA, modes map[string]*mode.Mode, real []int64) (dump string, oracle string, ok bool) {
	var sb strings.Builder
	fmt.Fprintf(&sb, "%d", len(d.States))
	rows, why := decodeModeArray(real)
	if why != "" {
		oracle = "the emitted array does not decode: " + why
	} else if len(rows) != len(d.States) {
		oracle = fmt.Sprintf("the emitted array has %d states, the DFA %d", len(rows), len(d.States))
	}
	for k, st := range d.States {
		if int(st.ID) != k {
			return "", "", false
		}
		acts, _ := st.Data.(*mode.Actions)
		pairs, good := actionPairs(acts, modes)
		if !good {
			return "", "", false
		}
		fmt.Fprintf(&sb, " | %d %d -1 :", b2i(st.Accept), b2i(st.NonGreedy))
		ids := []int{}
		for _, ns := range st.NFAStates {
			ids = append(ids, int(ns.ID))
		}
		sort.Ints(ids)
		for _, x := range ids {
			fmt.Fprintf(&sb, " %d", x)
		}
		sb.WriteString(" :")
		type tr struct{ b, e, to int64 }
		var trs []tr
		st.Transitions.ForEach(func(in any, to *dfa.State) {
			r := in.(rang3.Range)
			fmt.Fprintf(&sb, " %d %d %d", int(r.B), int(r.E), to.ID)
			trs = append(trs, tr{int64(r.B), int64(r.E), int64(to.ID)})
		})
		sb.WriteString(" :")
		for _, p := range pairs {
			fmt.Fprintf(&sb, " %d", p)
		}
		if oracle == "" {
			row := rows[k]
			wantFlags := int64(0)
			if st.Accept && st.NonGreedy {
				wantFlags = 1
			}
			sort.Slice(trs, func(i, j int) bool {
				if trs[i].b != trs[j].b {
					return trs[i].b < trs[j].b
				}
				return trs[i].e < trs[j].e
			})
			bad := row.flags != wantFlags || len(row.triples) != len(trs) || len(row.pairs) != len(pairs)
			for j := 0; !bad && j < len(trs); j++ {
				bad = row.triples[j] != [3]int64{trs[j].b, trs[j].e, trs[j].to}
				if j > 0 && !bad {
					bad = row.triples[j-1][1] >= row.triples[j][0]
				}
			}
			for j := 0; !bad && j < len(pairs); j++ {
				bad = row.pairs[j] != int64(pairs[j])
			}
			if bad {
				oracle = fmt.Sprintf("the row of state %d, decoded by the documented format, is not the state's flags / sorted transitions / action pairs", k)
			}
		}
	}
	return sb.String(), oracle, true
}

func lexemitRun(c *Ctx) {
	if c.Replay != nil {
		// A replayed `lex.genmode` / `lex.emit` line: only the rules of a lex.genmode line can be
		// rebuilt (one mode, token rules in rule order); the lines are derived again from that
		// specification. Other lines are passed through.
		for _, l := range c.Replay {
			op, payload, _ := strings.Cut(l, " ")
			if op != "lex.genmode" && op != "lex.genmoderaw" {
				c.Emit(l, l)
				continue
			}
			rulesPart, _, _ := strings.Cut(payload, "|")
			s := &LSpec{Modes: []*LMode{{Name: ""}}, BlockAt: []int{0}}
			ok := true
			for _, rc := range strings.Split(rulesPart, ";") {
				if strings.TrimSpace(rc) == "" {
					continue
				}
				var xs []int
				for _, f := range strings.Fields(rc) {
					var v int
					if _, err := fmt.Sscan(f, &v); err != nil {
						ok = false
					}
					xs = append(xs, v)
				}
				e, rest, good := richExpr(xs)
				if !good || len(rest) != 0 {
					ok = false
					break
				}
				s.Modes[0].Rules = append(s.Modes[0].Rules, &LRule{Expr: e})
			}
			if !ok || len(s.Modes[0].Rules) == 0 {
				c.Emit(l, "unparseable-replay-line")
				continue
			}
			lexemitSpec(c, finishSpec(s.Modes...))
		}
		return
	}
	for _, s := range curatedLexSpecs() {
		lexemitSpec(c, s)
	}
	for i := 0; i < c.N; i++ {
		o := LGenOpts{MaxModes: 3, MaxRules: 4, Depth: 1, Small: c.Rng.Chance(2, 3)}
		if c.Tier == "thorough" {
			o = LGenOpts{MaxModes: 3, MaxRules: 7, Depth: 2, Small: c.Rng.Chance(1, 2)}
		}
		var s *LSpec
		switch c.Rng.Intn(8) {
		case 0:
			s = GenLSpecNG(c.Rng, false)
		case 1:
			s = GenLSpecNG(c.Rng, true)
		default:
			s = GenLSpec(c.Rng, o)
		}
		lexemitSpec(c, s)
	}
}

func lexemitSpec(c *Ctx, s *LSpec) {
	text := s.Lox(c.Rng)
	specTxt := strings.ReplaceAll(strings.TrimSpace(text), "\n", " ⏎ ")
	fr := RunFront(text)
	if !fr.OK {
		c.Count("rejected")
		c.EmitO("# rejected "+specTxt, "rejected", "C17: well-formed specification rejected: "+strings.ReplaceAll(strings.TrimSpace(fr.Diag), "\n", " ⏎ ")+" | spec: "+specTxt)
		return
	}
	c.Count("accepted")
	ctx := fr.Ctx
	dir, err := os.MkdirTemp("", "verif-lexemit-")
	if err != nil {
		panic(err)
	}
	defer os.RemoveAll(dir)
	res := guard(func() string {
		if !codegen.VerifEmitLexer(ctx.FSet, ctx.Errs, dir, ctx.LexerDFAs) {
			return "EmitLexer returned false"
		}
		return ""
	})
	if res != "" {
		c.EmitO("# lexemit "+specTxt, res, "C12: EmitLexer failed on an accepted specification: "+res+" | spec: "+specTxt)
		return
	}
	arrs, err := readIntArrays(filepath.Join(dir, "lexer.gen.go"))
	if err != nil {
		c.Emit("# lexemit readback "+specTxt, "readback-failed "+err.Error())
		return
	}
	perMode := map[string][]*ast.LexerExpr{}
	var walk func(mode string, sts []ast.Statement)
	walk = func(mode string, sts []ast.Statement) {
		for _, st := range sts {
			switch r := st.(type) {
			case *ast.Mode:
				walk(r.Name, r.Rules)
			case *ast.TokenRule:
				perMode[mode] = append(perMode[mode], r.Expr)
			case *ast.FragRule:
				perMode[mode] = append(perMode[mode], r.Expr)
			}
		}
	}
	for _, u := range fr.Units {
		walk(ast.DefaultModeName, u.Statements)
	}
	var mnames []string
	for name := range ctx.LexerDFAs {
		mnames = append(mnames, name)
	}
	sort.Strings(mnames)
	if len(mnames) > 1 {
		c.Count("specs-with-modes")
	}
	for _, name := range mnames {
		md := ctx.LexerDFAs[name]
		real, ok := arrs[fmt.Sprintf("_lexerMode%d", md.Index)]
		if !ok {
			c.EmitO("# lexemit "+name+" "+specTxt, "no-array", fmt.Sprintf("C10: no _lexerMode%d emitted for mode %s | spec: %s", md.Index, name, specTxt))
			continue
		}
		realStr := joinI64(real)
		// ---- mode_table on the real DFA, array for array ----
		dump, oracle, good := emitDump(md.DFA, ctx.LexerDFAs, real)
		if !good {
			c.Emit("# export-drift "+name+": state IDs are not the indices / unknown action | "+specTxt, "export-drift")
			continue
		}
		if oracle != "" {
			oracle = "C10: mode " + name + ": " + oracle + " | array: " + realStr + " | spec: " + specTxt
		}
		if c.Distinct("emit " + dump) {
			c.EmitO("lex.emit "+dump, realStr, oracle)
			c.Count("modes-emitted")
			c.Extra["max-states"] = maxInt(c.Extra["max-states"], len(md.DFA.States))
			nStates := len(md.DFA.States)
			if int(real[0]) == nStates && len(real) > nStates {
				seen := map[int64]bool{}
				for _, off := range real[:nStates] {
					if seen[off] {
						c.Count("modes-with-shared-rows")
						break
					}
					seen[off] = true
				}
			}
			for _, st := range md.DFA.States {
				if st.Accept && st.NonGreedy {
					c.Count("modes-with-nongreedy-flag")
					break
				}
			}
		}
		// ---- the whole generator on the rules of the mode, up to state numbering ----
		rb := ctx.LexerModes[name]
		exprs := perMode[name]
		if rb == nil || len(rb.Rules) != len(exprs) {
			c.Emit("# export-drift "+name+": rule lists differ | "+specTxt, "export-drift")
			continue
		}
		var codes, pairStrs []string
		good = true
		for i, e := range exprs {
			codes = append(codes, joinInts(astRxCode(ctx, e)))
			acts, _ := rb.Rules[i].E.Data.(*mode.Actions)
			ps, okp := actionPairs(acts, ctx.LexerDFAs)
			good = good && okp && acts != nil
			pairStrs = append(pairStrs, joinInts(ps))
		}
		if !good {
			c.Emit("# export-drift "+name+": rule without actions | "+specTxt, "export-drift")
			continue
		}
		line := "lex.genmode " + strings.Join(codes, " ; ") + " | " + strings.Join(pairStrs, " ; ")
		if c.Distinct(line) {
			c.Emit(line, canonModeArray(real))
			c.Count("modes-generated")
		}
	}
}
