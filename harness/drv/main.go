//go:build verif

// Command verifdrv is the implementation side of the correspondence check.
// It lives in /verif/harness/drv and is injected into /repo as cmd/verifdrv with
// `go build -overlay` (see /verif/bin/build-harness), so it is compiled from
// /repo's current working tree and can import internal/... packages.
//
// Usage: verifdrv <family> [-seed N] [-n N] [-tier quick|thorough] [-out DIR] [-replay FILE]
//
// A family generates cases from one PRNG stream and, for each, writes
//
//	DIR/cases.txt  one protocol line per case (the input of the Lean driver)
//	DIR/impl.txt   the implementation's canonical answer, line-aligned with cases.txt
//	DIR/meta.json  distribution counters, samples
//
// With -replay FILE the case lines are read from FILE instead of being generated.
package main

import (
	"bufio"
	"encoding/json"
	"flag"
	"fmt"
	"os"
	"path/filepath"
	"sort"
	"strings"
)

// Rng is splitmix64; every random choice of a run derives from one state.
type Rng struct{ s uint64 }

func NewRng(seed uint64) *Rng { return &Rng{s: seed*0x9E3779B97F4A7C15 + 0x1234567} }
func (r *Rng) Next() uint64 {
	r.s += 0x9E3779B97F4A7C15
	z := r.s
	z = (z ^ (z >> 30)) * 0xBF58476D1CE4E5B9
	z = (z ^ (z >> 27)) * 0x94D049BB133111EB
	return z ^ (z >> 31)
}
func (r *Rng) Intn(n int) int {
	if n <= 0 {
		return 0
	}
	return int(r.Next() % uint64(n))
}
func (r *Rng) Bool() bool          { return r.Next()&1 == 1 }
func (r *Rng) Chance(p, q int) bool { return r.Intn(q) < p }
func Pick[T any](r *Rng, xs []T) T { return xs[r.Intn(len(xs))] }

// Ctx is handed to a family.
type Ctx struct {
	Rng      *Rng
	Seed     uint64
	N        int
	Tier     string
	Out      string
	Replay   []string // non-nil: replay these case lines instead of generating
	Args     []string // positional arguments after the flags
	cases    *bufio.Writer
	impl     *bufio.Writer
	oracle   *bufio.Writer
	count    int
	Counters map[string]int
	Samples  []string
	distinct map[string]bool
	Extra    map[string]any
}

// Emit records one case line and the implementation's answer for it.
// Neither may contain a newline.
func (c *Ctx) Emit(caseLine, implLine string) { c.EmitO(caseLine, implLine, "") }

// EmitO additionally records the verdict of the property's own oracle on the implementation's
// answer for this case: "" = holds / not applicable, otherwise a one-line description of the
// violation (written to oracle.txt, line-aligned).
func (c *Ctx) EmitO(caseLine, implLine, oracle string) {
	if strings.ContainsAny(caseLine, "\n\r") || strings.ContainsAny(implLine, "\n\r") {
		panic("newline in protocol line")
	}
	fmt.Fprintln(c.cases, caseLine)
	fmt.Fprintln(c.impl, implLine)
	fmt.Fprintln(c.oracle, strings.ReplaceAll(oracle, "\n", " "))
	c.count++
	if len(c.Samples) < 5 || (c.count%97 == 0 && len(c.Samples) < 12) {
		s := caseLine
		if len(s) > 400 {
			s = s[:400] + "…"
		}
		c.Samples = append(c.Samples, s+"  =>  "+trunc(implLine, 200))
	}
}

func trunc(s string, n int) string {
	if len(s) > n {
		return s[:n] + "…"
	}
	return s
}

// Count bumps a distribution counter reported in meta.json.
func (c *Ctx) Count(key string) { c.Counters[key]++ }

// Distinct registers a canonical case key; returns true when new.
func (c *Ctx) Distinct(key string) bool {
	if c.distinct[key] {
		return false
	}
	c.distinct[key] = true
	return true
}

type family struct {
	name string
	doc  string
	run  func(c *Ctx)
}

var families = map[string]family{}

func register(name, doc string, run func(c *Ctx)) { families[name] = family{name, doc, run} }

// guard runs f and converts a panic into a string, so one crashing case does not kill the run.
func guard(f func() string) (res string) {
	defer func() {
		if r := recover(); r != nil {
			res = fmt.Sprintf("PANIC %v", r)
			res = strings.ReplaceAll(res, "\n", " ")
		}
	}()
	return f()
}

func main() {
	if len(os.Args) < 2 {
		names := []string{}
		for n := range families {
			names = append(names, n)
		}
		sort.Strings(names)
		for _, n := range names {
			fmt.Printf("%-16s %s\n", n, families[n].doc)
		}
		os.Exit(2)
	}
	fam, ok := families[os.Args[1]]
	if !ok {
		fmt.Fprintf(os.Stderr, "unknown family %q\n", os.Args[1])
		os.Exit(2)
	}
	fs := flag.NewFlagSet(fam.name, flag.ExitOnError)
	seed := fs.Uint64("seed", 1, "")
	n := fs.Int("n", 100, "")
	tier := fs.String("tier", "quick", "")
	out := fs.String("out", ".", "")
	replay := fs.String("replay", "", "")
	fs.Parse(os.Args[2:])

	os.MkdirAll(*out, 0o755)
	cf, err := os.Create(filepath.Join(*out, "cases.txt"))
	if err != nil {
		panic(err)
	}
	imf, err := os.Create(filepath.Join(*out, "impl.txt"))
	if err != nil {
		panic(err)
	}
	of, err := os.Create(filepath.Join(*out, "oracle.txt"))
	if err != nil {
		panic(err)
	}
	c := &Ctx{
		Rng: NewRng(*seed), Seed: *seed, N: *n, Tier: *tier, Out: *out,
		cases: bufio.NewWriterSize(cf, 1<<20), impl: bufio.NewWriterSize(imf, 1<<20), oracle: bufio.NewWriterSize(of, 1<<20),
		Counters: map[string]int{}, distinct: map[string]bool{}, Extra: map[string]any{},
		Args: fs.Args(),
	}
	if *replay != "" {
		data, err := os.ReadFile(*replay)
		if err != nil {
			panic(err)
		}
		c.Replay = []string{}
		for _, l := range strings.Split(string(data), "\n") {
			l = strings.TrimRight(l, "\r")
			if strings.TrimSpace(l) == "" || strings.HasPrefix(l, "#") {
				continue
			}
			c.Replay = append(c.Replay, l)
		}
	}
	fam.run(c)
	c.cases.Flush()
	c.impl.Flush()
	c.oracle.Flush()
	of.Close()
	cf.Close()
	imf.Close()
	meta := map[string]any{
		"family": fam.name, "seed": *seed, "tier": *tier, "cases": c.count,
		"distinct": len(c.distinct), "counters": c.Counters, "samples": c.Samples, "extra": c.Extra,
	}
	mb, _ := json.MarshalIndent(meta, "", " ")
	os.WriteFile(filepath.Join(*out, "meta.json"), mb, 0o644)
}
