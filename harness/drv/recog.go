//go:build verif

package main

// Membership in L(G) for the harness' sugar grammars, reading ?, *, +, *!, @list as documented.
// Independent of the LR machinery: a least-fixed-point span recogniser. @error matches nothing
// (it is a terminal only the parser itself can supply).

type recog struct {
	s *GSpec
	w []int // token indices into s.Tokens
	n int
	R [][][]bool // R[rule][i][j]: rule derives w[i:j]
}

func newRecog(s *GSpec, w []int) *recog {
	rc := &recog{s: s, w: w, n: len(w)}
	rc.R = make([][][]bool, len(s.Rules))
	for r := range rc.R {
		rc.R[r] = make([][]bool, rc.n+1)
		for i := range rc.R[r] {
			rc.R[r][i] = make([]bool, rc.n+1)
		}
	}
	return rc
}

// ends returns the set of j such that term derives w[i:j], under the current R.
func (rc *recog) ends(t *GTerm, i int) []bool {
	out := make([]bool, rc.n+1)
	switch t.Kind {
	case KTok:
		if i < rc.n && rc.w[i] == t.Tok {
			out[i+1] = true
		}
	case KErr:
	case KRule:
		copy(out, rc.R[t.Rule][i])
	case KOpt:
		copy(out, rc.ends(t.Child, i))
		out[i] = true
	case KPlus, KStar, KStarF:
		// closure of "one more element"
		reach := make([]bool, rc.n+1)
		front := []int{i}
		started := map[int]bool{i: true}
		for len(front) > 0 {
			m := front[0]
			front = front[1:]
			e := rc.ends(t.Child, m)
			for j, ok := range e {
				if ok {
					reach[j] = true
					if !started[j] {
						started[j] = true
						front = append(front, j)
					}
				}
			}
		}
		copy(out, reach)
		if t.Kind != KPlus {
			out[i] = true
		}
	case KList, KListOpt:
		// x (sep x)*
		reach := make([]bool, rc.n+1)
		startedX := map[int]bool{}
		front := []int{i}
		startedX[i] = true
		for len(front) > 0 {
			m := front[0]
			front = front[1:]
			e := rc.ends(t.Child, m)
			for j, ok := range e {
				if !ok {
					continue
				}
				reach[j] = true
				se := rc.ends(t.Sep, j)
				for k, ok2 := range se {
					if ok2 && !startedX[k] {
						startedX[k] = true
						front = append(front, k)
					}
				}
			}
		}
		copy(out, reach)
		if t.Kind == KListOpt {
			out[i] = true
		}
	}
	return out
}

func (rc *recog) seqEnds(terms []*GTerm, i int) []bool {
	cur := make([]bool, rc.n+1)
	cur[i] = true
	for _, t := range terms {
		next := make([]bool, rc.n+1)
		for m, ok := range cur {
			if !ok {
				continue
			}
			for j, ok2 := range rc.ends(t, m) {
				if ok2 {
					next[j] = true
				}
			}
		}
		cur = next
	}
	return cur
}

// Member reports whether the start rule derives the whole of w.
func Member(s *GSpec, w []int) bool {
	rc := newRecog(s, w)
	for changed := true; changed; {
		changed = false
		for ri, r := range s.Rules {
			for _, p := range r.Prods {
				for i := 0; i <= rc.n; i++ {
					e := rc.seqEnds(p.Terms, i)
					for j, ok := range e {
						if ok && !rc.R[ri][i][j] {
							rc.R[ri][i][j] = true
							changed = true
						}
					}
				}
			}
		}
	}
	return rc.R[0][0][rc.n]
}

// RandomSentence tries to derive a sentence by random expansion with a depth budget.
func RandomSentence(r *Rng, s *GSpec, budget int) ([]int, bool) {
	var out []int
	ok := true
	var expTerm func(t *GTerm, d int)
	var expRule func(ri int, d int)
	expRule = func(ri int, d int) {
		if d <= 0 || len(out) > 40 {
			ok = false
			return
		}
		ps := s.Rules[ri].Prods
		p := ps[r.Intn(len(ps))]
		if d < 4 { // prefer short productions when running out of budget
			best := p
			for _, q := range ps {
				if len(q.Terms) < len(best.Terms) {
					best = q
				}
			}
			p = best
		}
		for _, t := range p.Terms {
			expTerm(t, d-1)
			if !ok {
				return
			}
		}
	}
	expTerm = func(t *GTerm, d int) {
		switch t.Kind {
		case KTok:
			out = append(out, t.Tok)
		case KErr:
			ok = false
		case KRule:
			expRule(t.Rule, d)
		case KOpt:
			if r.Bool() {
				expTerm(t.Child, d)
			}
		case KStar, KStarF, KPlus:
			n := r.Intn(3)
			if t.Kind == KPlus {
				n++
			}
			for k := 0; k < n && ok; k++ {
				expTerm(t.Child, d)
			}
		case KList, KListOpt:
			n := r.Intn(3)
			if t.Kind == KList {
				n++
			}
			for k := 0; k < n && ok; k++ {
				if k > 0 {
					expTerm(t.Sep, d)
				}
				expTerm(t.Child, d)
			}
		}
	}
	expRule(0, budget)
	return out, ok
}
