//go:build verif

package main

import (
	"fmt"
	"os"
	"path/filepath"
	"regexp"
	"sort"
	"strings"
)

// Family lrgen: random sugar grammars pushed through the REAL generator (codegen.Generate),
// tables read back from the emitted parser.gen.go, generated parsers compiled and run.
//
// Case lines (see lean/Lox/LR/Drv.lean):
//   @let G<i> <rules> | <termCounts> | <actions> | <goto>          (answer: let)
//   lr.validate <nTerms> <nRules> | <prods> | $G<i> | <cert>       (impl: ok)
//   lr.parse <wb> <fuel> | $G<i> | <kinds> | <tokens>              (impl: output of the compiled parser)
//
// Oracle column (oracle.txt): property statements evaluated directly on the compiled parser:
//   C01 membership (independent span recogniser over the sugar grammar) vs clean acceptance,
//   C03 yield of the tree rebuilt from the action calls, C16 bounds of every reduction.

type lrCase struct {
	spec  *GSpec
	pkg   *GenPkg
	front *Front
}

var reTok = regexp.MustCompile(`t(\d+)`)
var reErrTok = regexp.MustCompile(`E\d+\{`)
var reErrVal = regexp.MustCompile(`E\d+\{[^}]*\}`)
var reEdgeAtom = regexp.MustCompile(`\bt\d+\b|\bE\b`)

// leaves returns the token indices mentioned in a rendered value, in order.
func leaves(v string) []int {
	var out []int
	for _, m := range reTok.FindAllStringSubmatch(reErrTok.ReplaceAllString(v, "{"), -1) {
		var k int
		fmt.Sscan(m[1], &k)
		out = append(out, k)
	}
	return out
}

func hasStarF(s *GSpec) bool { return hasKind(s, KStarF) }

func hasList(s *GSpec) bool { return hasKind(s, KList) || hasKind(s, KListOpt) }

func hasKind(s *GSpec, k TK) bool {
	var has func(t *GTerm) bool
	has = func(t *GTerm) bool {
		if t == nil {
			return false
		}
		return t.Kind == k || has(t.Child) || has(t.Sep)
	}
	for _, r := range s.Rules {
		for _, p := range r.Prods {
			for _, t := range p.Terms {
				if has(t) {
					return true
				}
			}
		}
	}
	return false
}

// parseOracle evaluates C01/C03/C16 on one observed run. w = token indices into spec.Tokens
// (-1 = lexer ERROR token).
func parseOracle(s *GSpec, w []int, out string) string {
	if out == "panic" || out == "crash" {
		return "C09: parse() panicked"
	}
	if out == "timeout" {
		return "C09: parse() did not terminate within the budget"
	}
	evs := strings.Split(out, " ; ")
	acc := strings.HasPrefix(evs[0], "acc")
	hasErrTok := false
	for _, x := range w {
		if x < 0 {
			hasErrTok = true
		}
	}
	errorDelivered := false
	for _, e := range evs[1:] {
		if strings.HasPrefix(e, "A ") && reErrTok.MatchString(e) {
			errorDelivered = true
		}
	}
	clean := acc && !errorDelivered
	if !s.UsesPrec() && !hasErrTok {
		m := Member(s, w)
		if m && !clean {
			return "C01: sentence not accepted cleanly"
		}
		if !m && clean {
			return "C01: non-sentence accepted without any @error action"
		}
		if !m && acc && !errorDelivered {
			return "C09: non-sentence accepted silently"
		}
	}
	if clean && !hasStarF(s) && len(evs) > 1 {
		// C03: the start rule's action ran last and its tree yields w
		last := ""
		for _, e := range evs[1:] {
			if strings.HasPrefix(e, "A ") {
				last = e[2:]
			}
		}
		lv := leaves(last)
		if !hasList(s) && len(lv) != len(w) {
			// (@list drops its separators by design)
			return fmt.Sprintf("C03: tree rebuilt from the actions yields %d tokens, input has %d", len(lv), len(w))
		}
		for i, k := range lv {
			if (!hasList(s) && k != i) || (i > 0 && k <= lv[i-1]) || k >= len(w) {
				return "C03: tree rebuilt from the actions does not yield the input in order"
			}
		}
	}
	if s.WithBounds {
		// every reported bound is a token of the input, begin not after end (also on recovery paths)
		for _, e := range evs[1:] {
			if strings.HasPrefix(e, "B ") {
				f := strings.Fields(e)
				var b, en int
				fmt.Sscan(f[len(f)-2], &b)
				fmt.Sscan(f[len(f)-1], &en)
				if b < 0 || en < 0 || b > en || en > len(w) {
					return "C16: _onBounds called with bounds that are not tokens of the input: " + e
				}
			}
		}
	}
	if s.WithBounds && !hasStarF(s) && errorDelivered {
		// recovery paths: the value handed to _onBounds still shows its outermost tokens; when the first (last) atom of
		// the tree is a token of the input (not an Error), that token is the first (last) token of the span
		for _, e := range evs[1:] {
			if !strings.HasPrefix(e, "B ") {
				continue
			}
			f := strings.Fields(e)
			if len(f) < 4 {
				continue
			}
			var b, en int
			fmt.Sscan(f[len(f)-2], &b)
			fmt.Sscan(f[len(f)-1], &en)
			val := strings.Join(f[1:len(f)-2], " ")
			if strings.HasPrefix(val, "[") {
				continue
			}
			atoms := reEdgeAtom.FindAllString(reErrVal.ReplaceAllString(val, "E"), -1)
			if len(atoms) == 0 {
				continue
			}
			var k int
			if a := atoms[0]; a != "E" {
				fmt.Sscan(a[1:], &k)
				if k != b {
					return "C16: (recovery path) the first token of the reduced value is not the begin bound: " + e
				}
			}
			if a := atoms[len(atoms)-1]; a != "E" {
				fmt.Sscan(a[1:], &k)
				if k != en {
					return "C16: (recovery path) the last token of the reduced value is not the end bound: " + e
				}
			}
		}
	}
	if s.WithBounds && !hasStarF(s) && !errorDelivered {
		// C16: every user action with a non-empty span is followed by exactly one B with its first/last token
		for i := 1; i < len(evs); i++ {
			e := evs[i]
			if strings.HasPrefix(e, "A ") {
				lv := leaves(e[2:])
				next := ""
				if i+1 < len(evs) {
					next = evs[i+1]
				}
				if len(lv) == 0 {
					if strings.HasPrefix(next, "B "+e[2:]+" ") {
						return "C16: _onBounds called for a reduction that derives nothing"
					}
				} else {
					want := fmt.Sprintf("B %s %d %d", e[2:], lv[0], lv[len(lv)-1])
					if next != want {
						return "C16: expected `" + want + "` right after the action, got `" + next + "`"
					}
				}
			} else if strings.HasPrefix(e, "B ") {
				// value, begin, end
				f := strings.Fields(e)
				var b, en int
				fmt.Sscan(f[len(f)-2], &b)
				fmt.Sscan(f[len(f)-1], &en)
				val := strings.Join(f[1:len(f)-2], " ")
				lv := leaves(val)
				if len(lv) > 0 && !strings.HasPrefix(val, "[") && (lv[0] != b || lv[len(lv)-1] != en) {
					return "C16: bounds do not match the first/last token of the value: " + e
				}
			}
		}
	}
	return ""
}

// boundsProjection keeps of a run's output what does not depend on the values actions return:
// the verdict, the order of action calls, and the two token indices of every _onBounds call.
func boundsProjection(out string) string {
	parts := strings.Split(out, " ; ")
	for i, e := range parts {
		switch {
		case strings.HasPrefix(e, "A "):
			parts[i] = "A"
		case strings.HasPrefix(e, "B "):
			f := strings.Fields(e)
			if len(f) >= 3 {
				parts[i] = "B " + f[len(f)-2] + " " + f[len(f)-1]
			}
		}
	}
	return strings.Join(parts, ";")
}

func genInputs(r *Rng, s *GSpec, tier string, withErrors bool) [][]int {
	var ins [][]int
	seen := map[string]bool{}
	add := func(w []int) {
		k := fmt.Sprint(w)
		if !seen[k] && len(w) <= 40 {
			seen[k] = true
			ins = append(ins, append([]int(nil), w...))
		}
	}
	nt := len(s.Tokens)
	maxLen := 3
	if tier == "thorough" {
		maxLen = 4
	}
	if nt <= 3 {
		maxLen++
	}
	if nt > 5 {
		maxLen = 2
	}
	if nt > 12 {
		maxLen = 1
	}
	lo := 0
	if withErrors {
		lo = -1
	}
	var rec func(cur []int)
	rec = func(cur []int) {
		add(cur)
		if len(cur) == maxLen {
			return
		}
		for t := lo; t < nt; t++ {
			rec(append(cur, t))
		}
	}
	rec(nil)
	// sentences by random derivation, and mutants of them
	tries := 12
	if tier == "thorough" {
		tries = 40
	}
	for k := 0; k < tries; k++ {
		w, ok := RandomSentence(r, s, 8+r.Intn(8))
		if !ok {
			continue
		}
		add(w)
		for m := 0; m < 3 && len(w) > 0; m++ {
			v := append([]int(nil), w...)
			switch r.Intn(5) {
			case 0:
				i := r.Intn(len(v))
				v = append(v[:i], v[i+1:]...)
			case 1:
				i := r.Intn(len(v) + 1)
				v = append(v[:i], append([]int{r.Intn(nt)}, v[i:]...)...)
			case 2:
				i := r.Intn(len(v))
				v[i] = r.Intn(nt)
			case 3:
				v = v[:r.Intn(len(v))]
			case 4:
				if withErrors {
					i := r.Intn(len(v))
					v[i] = -1
				} else if len(v) > 1 {
					i := r.Intn(len(v) - 1)
					v[i], v[i+1] = v[i+1], v[i]
				}
			}
			add(v)
		}
	}
	return ins
}

func init() {
	register("lrgen", "random grammars through the real generator; validator + compiled parsers vs model (C01 C03 C09 C16)", func(c *Ctx) {
		root, err := os.MkdirTemp("", "verif-lrgen-")
		if err != nil {
			panic(err)
		}
		defer os.RemoveAll(root)
		WriteModule(root)

		want := c.N // number of accepted grammars wanted
		opts := GenOpts{MaxTokens: 4, MaxRules: 4, MaxProds: 3, MaxTerms: 4, Sugar: true, Errors: true, Prec: false}
		if c.Tier == "thorough" {
			opts = GenOpts{MaxTokens: 5, MaxRules: 6, MaxProds: 4, MaxTerms: 5, Sugar: true, Errors: true, Prec: false}
		}
		if os.Getenv("VERIF_LRGEN_PREC") == "1" {
			opts.Prec = true
		}
		var cases []*lrCase
		attempt := 0
		if os.Getenv("VERIF_LRGEN_NOCURATED") == "" {
			// curated grammars first (shapes that exposed defects before)
			var specs []*GSpec
			var names, loxs, gos []string
			for i, txt := range curatedGrammars {
				for wb := 0; wb < 2; wb++ {
					if c.Tier != "thorough" && (i+wb+int(c.Seed))%2 == 1 {
						continue // quick tier: each grammar in one of the two variants, alternating with the seed
					}
					s := ParseGSpec(txt)
					s.WithBounds = wb == 1
					name := fmt.Sprintf("c%03d_%d", i, wb)
					specs = append(specs, s)
					names = append(names, name)
					loxs = append(loxs, s.Lox())
					gos = append(gos, s.GoSource(name))
				}
			}
			for i, txt := range shareErrGrammars {
				for wb := 0; wb < 2; wb++ {
					s := ParseGSpec(txt)
					s.WithBounds, s.ShareErr = wb == 1, true
					name := fmt.Sprintf("h%03d_%d", i, wb)
					specs = append(specs, s)
					names = append(names, name)
					loxs = append(loxs, s.Lox())
					gos = append(gos, s.GoSource(name))
				}
			}
			for i, txt := range reinjectGrammars {
				for wb := 0; wb < 2; wb++ {
					s := ParseGSpec(txt)
					s.WithBounds, s.Reinject = wb == 1, true
					name := fmt.Sprintf("j%03d_%d", i, wb)
					specs = append(specs, s)
					names = append(names, name)
					loxs = append(loxs, s.Lox())
					gos = append(gos, s.GoSource(name))
				}
			}
			pkgs := GenerateAll(root, names, loxs, gos, false)
			for i, p := range pkgs {
				if p.OK {
					c.Count("curated-accepted")
					cases = append(cases, &lrCase{spec: specs[i], pkg: p})
				} else {
					c.Count("curated-rejected")
					flat := strings.ReplaceAll(strings.TrimSpace(p.Lox), "\n", " ⏎ ")
					if p.Panic != "" {
						c.EmitO("# curated grammar "+flat, "panic", "C12: generator panicked: "+p.Panic)
					} else if !strings.Contains(p.Diag, "grammar has conflicts") {
						c.EmitO("# curated grammar "+flat, "rejected", "C04,C01: conflict-free curated grammar rejected: "+strings.ReplaceAll(strings.TrimSpace(p.Diag), "\n", " ⏎ ")+" | grammar: "+flat)
					}
					os.RemoveAll(p.Dir)
				}
			}
			want += len(cases)
		}
		for len(cases) < want && attempt < want*12 {
			batch := want * 2
			var specs []*GSpec
			var names, loxs, gos []string
			for i := 0; i < batch; i++ {
				s := GenSpec(c.Rng, opts)
				name := fmt.Sprintf("g%04d", attempt+i)
				specs = append(specs, s)
				names = append(names, name)
				loxs = append(loxs, s.Lox())
				gos = append(gos, s.GoSource(name))
			}
			attempt += batch
			pkgs := GenerateAll(root, names, loxs, gos, false)
			for i, p := range pkgs {
				switch {
				case p.Panic != "":
					c.Count("generator-panic")
					c.EmitO("# generator panic on "+strings.ReplaceAll(p.Lox, "\n", " ⏎ "), "panic", "C12: generator panicked: "+p.Panic)
				case p.OK:
					c.Count("accepted")
					if len(cases) < want {
						cases = append(cases, &lrCase{spec: specs[i], pkg: p})
						continue
					}
				case strings.Contains(p.Diag, "grammar has conflicts"):
					c.Count("conflicts")
				default:
					c.Count("rejected-other")
					if len(c.Samples) < 20 {
						c.Extra["rejected:"+p.Name] = strings.TrimSpace(p.Diag)
					}
				}
				os.RemoveAll(p.Dir)
			}
		}
		sort.Slice(cases, func(i, j int) bool { return cases[i].pkg.Name < cases[j].pkg.Name })
		var names []string
		for _, cs := range cases {
			names = append(names, cs.pkg.Name)
		}
		// twins for C16: the same grammar with _onBounds, where Node is an interface type and some actions of
		// non-empty productions return nil; the _onBounds calls must not depend on the values (erasure)
		twins := map[string]string{}
		{
			var tn, tl, tg []string
			for _, cs := range cases {
				if cs.spec.WithBounds && !hasStarF(cs.spec) && !cs.spec.Reinject {
					t := *cs.spec
					t.NilTwin = true
					tn = append(tn, cs.pkg.Name+"n")
					tl = append(tl, t.Lox())
					tg = append(tg, t.GoSource(cs.pkg.Name+"n"))
				}
			}
			for i, p := range GenerateAll(root, tn, tl, tg, false) {
				if p.OK {
					twins[strings.TrimSuffix(tn[i], "n")] = tn[i]
					names = append(names, tn[i])
					c.Count("nil-twins")
				} else {
					c.EmitO("# nil twin of "+tn[i], "rejected", "C06,C16: the grammar is accepted with struct-typed rules but not with interface-typed rules: "+strings.ReplaceAll(strings.TrimSpace(p.Diag+p.Panic), "\n", " ⏎ "))
				}
			}
		}
		bin, err := BuildMux(root, names)
		if err != nil {
			// generated code does not compile: that is itself an observation (C06/C12)
			c.EmitO("# go build of generated packages", "build-failed", "C06: generated packages do not compile: "+strings.ReplaceAll(err.Error(), "\n", " ⏎ "))
			return
		}
		budget := 4000
		for _, cs := range cases {
			s, p := cs.spec, cs.pkg
			fr := RunFront(p.Lox)
			cs.front = fr
			if !fr.OK || fr.Table.HasConflicts {
				c.EmitO("# front end disagrees with generator on "+p.Name, "accepted", "C04: codegen.Generate accepted a grammar that parse+analyze+ConstructLALR rejects: "+fr.Diag)
				continue
			}
			g := fr.Grammar
			tables := joinI64(p.Rules) + " | " + joinI64(p.TermCounts) + " | " + joinI64(p.Actions) + " | " + joinI64(p.Goto)
			c.Emit("@let "+p.Name+" "+tables, "let")
			c.Emit(fmt.Sprintf("lr.validate %d %d | %s | $%s | %s", len(g.Terminals), len(g.Rules), grammarLine(g), p.Name, certLine(fr.Table)), "ok")
			c.Count("validated")
			// premises of the termination theorem for runs with recovery
			c.Emit(fmt.Sprintf("lr.recovery_ok %d | $%s", len(fr.Table.States), p.Name), "ok")
			// exactness: every item/lookahead of the generator's item sets is justified by the LALR(1) definition
			c.Emit(fmt.Sprintf("lr.justify %d %d | %s | $%s | %s", len(g.Terminals), len(g.Rules), grammarLine(g), p.Name, certLine(fr.Table)), "ok")
			if s.UsesError() {
				c.Count("grammars-with-@error")
			}
			if hasStarF(s) {
				c.Count("grammars-with-*!")
			}
			kinds := joinInts(prodKinds(g))
			// token numbers as the generated constants say
			tt := []int{p.Consts["EOF"], p.Consts["ERROR"]}
			for _, name := range s.Tokens {
				tt = append(tt, p.Consts[name])
			}
			ins := genInputs(c.Rng, s, c.Tier, true)
			var reqs []string
			var typed [][]int
			for _, w := range ins {
				ty := make([]int, len(w))
				for i, x := range w {
					if x < 0 {
						ty[i] = tt[1]
					} else {
						ty[i] = tt[2+x]
					}
				}
				typed = append(typed, ty)
				reqs = append(reqs, fmt.Sprintf("%s %d %s", p.Name, budget, joinInts(ty)))
			}
			outs := RunMux(bin, reqs)
			if tw := twins[p.Name]; tw != "" {
				var treqs []string
				for _, rq := range reqs {
					treqs = append(treqs, tw+strings.TrimPrefix(rq, p.Name))
				}
				touts := RunMux(bin, treqs)
				for i := range ins {
					if a, b := boundsProjection(outs[i]), boundsProjection(touts[i]); a != b {
						c.EmitO(fmt.Sprintf("# nil twin %s input %v", tw, ins[i]), "differs",
							"C16: the _onBounds calls change when actions return nil interface values: with values `"+a+"`, with nil results `"+b+"` | grammar: "+
								strings.ReplaceAll(strings.TrimSpace(p.Lox), "\n", " ⏎ ")+" | input: "+fmt.Sprint(ins[i]))
					}
					c.Count("nil-twin-runs")
				}
			}
			wb := 0
			if s.WithBounds {
				wb = 1
			}
			for i, w := range ins {
				line := fmt.Sprintf("lr.parse %d %d | $%s | %s | %s", wb, 4*budget, p.Name, kinds, joinInts(typed[i]))
				if s.Reinject {
					// no model of recoverLookahead: a note line (echoed by the driver), judged by the oracle only
					line = fmt.Sprintf("# reinject %s wb=%d input %s => %s", p.Name, wb, joinInts(typed[i]), outs[i])
					c.Count("reinject-runs")
				}
				or := parseOracle(s, w, outs[i])
				if or != "" {
					or += " | grammar: " + strings.ReplaceAll(strings.TrimSpace(p.Lox), "\n", " ⏎ ") + " | input: " + fmt.Sprint(w)
				}
				c.Distinct(p.Lox + "|" + fmt.Sprint(w))
				if s.Reinject {
					c.EmitO(line, line, or)
				} else {
					c.EmitO(line, outs[i], or)
				}
				switch {
				case strings.HasPrefix(outs[i], "acc"):
					c.Count("inputs-accepted")
				case strings.HasPrefix(outs[i], "rej"):
					c.Count("inputs-rejected")
				default:
					c.Count("inputs-" + outs[i])
				}
				if strings.Contains(outs[i], "{") {
					c.Count("inputs-with-recovery")
				}
			}
		}
		c.Extra["attempts"] = attempt
		if len(cases) > 0 {
			c.Extra["sample_grammar"] = cases[0].pkg.Lox
		}
		_ = filepath.Join
	})
}
