//go:build verif

package main

import (
	"fmt"
	"strings"

	"github.com/dcaiafa/lox/internal/parser"
)

// Family fronttext (C12): the real text -> value helpers of internal/parser/parser.go
// (unescape, hexToRune, fixLiteral, checkEscapes, the precedence conversion of
// on_parser_qualif; reached through harness/export/internal__parser/fronttext.go) against
// the Lean model Lox/Dec/FrontText.lean.
//
//	dec.unescape <bytes>      -> ok <bytes> | panic
//	dec.hextorune <bytes>     -> ok <int32> | panic
//	dec.fixliteral <bytes>    -> ok <bytes> | panic
//	dec.checkescapes <bytes>  -> ok <offsets> | panic
//	dec.qualif <bytes>        -> prec <n> | diag | panic
//
// Inputs: every string of length ≤ 4 over a small alphabet that contains the escape letters, a
// hex digit, a non-hex letter and the quote (exhaustive: all well- and ill-escaped shapes), then
// random well-escaped unit sequences (the theorems' domain: both sides must return the same
// value) and random mutations of them (mostly ill-escaped: both sides must panic alike).

func bytesLine(b []byte) string {
	xs := make([]int, len(b))
	for i, x := range b {
		xs[i] = int(x)
	}
	return joinInts(xs)
}

func okBytes(s string, panicked bool) string {
	if panicked {
		return "panic"
	}
	if s == "" {
		return "ok"
	}
	return "ok " + bytesLine([]byte(s))
}

// ftEmitCap: the same helpers on a slice whose capacity reaches beyond its length (token texts
// are sub-slices of the file buffer).
func ftEmitCap(c *Ctx, op string, b, cap []byte) {
	line := strings.TrimRight(op+" "+bytesLine(b), " ") + " | " + bytesLine(cap)
	line = strings.TrimRight(line, " ")
	if !c.Distinct(line) {
		return
	}
	var impl string
	switch op {
	case "dec.unescapecap":
		impl = okBytes(parser.VerifUnescapeCap(b, cap))
	case "dec.fixliteralcap":
		impl = okBytes(parser.VerifFixLiteralCap(b, cap))
	case "dec.checkescapescap":
		offs, p := parser.VerifCheckEscapesCap(b, cap)
		switch {
		case p:
			impl = "panic"
		case len(offs) == 0:
			impl = "ok"
		default:
			impl = "ok " + joinInts(offs)
		}
	}
	c.Emit(line, impl)
	c.Count(op)
	if impl == "panic" {
		c.Count(op + ":panic")
	}
}

func ftEmit(c *Ctx, op string, b []byte) {
	line := op + " " + bytesLine(b)
	line = strings.TrimRight(line, " ")
	if !c.Distinct(line) {
		return
	}
	var impl string
	switch op {
	case "dec.unescape":
		impl = okBytes(parser.VerifUnescape(b))
	case "dec.fixliteral":
		impl = okBytes(parser.VerifFixLiteral(b))
	case "dec.hextorune":
		r, p := parser.VerifHexToRune(string(b))
		if p {
			impl = "panic"
		} else {
			impl = fmt.Sprintf("ok %d", r)
		}
	case "dec.checkescapes":
		offs, p := parser.VerifCheckEscapes(b)
		switch {
		case p:
			impl = "panic"
		case len(offs) == 0:
			impl = "ok"
		default:
			impl = "ok " + joinInts(offs)
		}
	case "dec.qualif":
		n, d, p := parser.VerifQualif(b)
		switch {
		case p:
			impl = "panic"
		case d:
			impl = "diag"
		default:
			impl = fmt.Sprintf("prec %d", n)
		}
	}
	c.Emit(line, impl)
	c.Count(op)
	if impl == "panic" {
		c.Count(op + ":panic")
	}
}

const hexDigits = "0123456789abcdefABCDEF"

func ftUnit(r *Rng, classMode bool) []byte {
	hex := func(n int) []byte {
		out := make([]byte, n)
		for i := range out {
			out[i] = hexDigits[r.Intn(len(hexDigits))]
		}
		return out
	}
	switch r.Intn(9) {
	case 0:
		if classMode {
			return []byte{'\\', Pick(r, []byte{'\\', 'n', 'r', 't', '-'})}
		}
		return []byte{'\\', Pick(r, []byte{'\\', '\'', 'n', 'r', 't'})}
	case 1:
		return append([]byte(`\x`), hex(2)...)
	case 2:
		return append([]byte(`\u`), hex(4)...)
	case 3:
		// boundary code points: surrogates, max rune, above
		return []byte(Pick(r, []string{`퟿`, `\uD800`, `\uDFFF`, ``, `￿`, `\u0000`, `\u007f`, `\u0080`, `߿`, `ࠀ`}))
	case 4:
		return append([]byte(`\U`), hex(8)...)
	case 5:
		return []byte(Pick(r, []string{`\U0010FFFF`, `\U00110000`, `\U00010000`, `\U0000FFFF`, `\U7FFFFFFF`, `\U80000000`, `\UFFFFFFFF`, `\U00000000`, `\U0000D800`}))
	case 6:
		return []byte(string(rune(Pick(r, []int{0xe9, 0x7ff, 0x800, 0xffff, 0x10000, 0x10ffff, 0x20ac}))))
	default:
		for {
			b := byte(r.Intn(256))
			if b != '\\' && b != '\n' && !(classMode && b == '-') {
				return []byte{b}
			}
		}
	}
}

func init() {
	register("fronttext", "C12: unescape/hexToRune/fixLiteral/checkEscapes/precedence conversion of internal/parser vs the Lean model", func(c *Ctx) {
		if c.Replay != nil {
			for _, l := range c.Replay {
				if op, rest, ok := strings.Cut(l, " "); ok && strings.HasSuffix(op, "cap") {
					a, b, _ := strings.Cut(rest, "|")
					parse := func(s string) []byte {
						var out []byte
						for _, x := range strings.Fields(s) {
							var v int
							fmt.Sscan(x, &v)
							out = append(out, byte(v))
						}
						return out
					}
					ftEmitCap(c, op, parse(a), parse(b))
					continue
				}
				f := strings.Fields(l)
				if len(f) == 0 {
					continue
				}
				b := make([]byte, 0, len(f)-1)
				for _, x := range f[1:] {
					var v int
					fmt.Sscan(x, &v)
					b = append(b, byte(v))
				}
				ftEmit(c, f[0], b)
			}
			return
		}
		r := c.Rng
		// 1. exhaustive small alphabet
		alpha := []byte{'\\', 'n', 'x', 'u', 'U', '4', 'q', '\'', '-'}
		maxLen := 4
		if c.Tier == "thorough" {
			maxLen = 5
		}
		var rec func(cur []byte)
		rec = func(cur []byte) {
			ftEmit(c, "dec.unescape", cur)
			ftEmit(c, "dec.checkescapes", cur)
			if len(cur) <= 3 {
				ftEmitCap(c, "dec.unescapecap", cur, []byte("41'"))
				ftEmitCap(c, "dec.checkescapescap", cur, []byte("0041'"))
			}
			if len(cur) <= 3 {
				ftEmit(c, "dec.fixliteral", cur)
			}
			if len(cur) == maxLen {
				return
			}
			for _, a := range alpha {
				rec(append(append([]byte(nil), cur...), a))
			}
		}
		rec(nil)
		// 2. hexToRune: all lengths 0..10 of hex digits, boundaries, non-hex
		for n := 0; n <= 10; n++ {
			for k := 0; k < 12; k++ {
				b := make([]byte, n)
				for i := range b {
					b[i] = hexDigits[r.Intn(len(hexDigits))]
				}
				if k == 0 {
					for i := range b {
						b[i] = 'f'
					}
				}
				if k == 1 {
					for i := range b {
						b[i] = '0'
					}
				}
				ftEmit(c, "dec.hextorune", b)
				if n > 0 && k%4 == 3 {
					b[r.Intn(n)] = Pick(r, []byte{'g', 'G', ' ', '_', '+', '-', 'x', 0, 0xff, '/', ':', '@', '`'})
					ftEmit(c, "dec.hextorune", b)
				}
			}
		}
		for _, s := range []string{"FFFFFFFF", "100000000", "0FFFFFFFF", "00000000000000000001", "7FFFFFFF", "80000000", "0x10", "+1", "-1", "1_0", " 1", "1 "} {
			ftEmit(c, "dec.hextorune", []byte(s))
		}
		// 3. precedence numbers
		for _, s := range []string{"", "0", "00", "000000000000000000000", "1", "01", "42", "2147483647", "2147483648", "4294967296",
			"9223372036854775806", "9223372036854775807", "9223372036854775808", "9223372036854775809", "18446744073709551615", "18446744073709551616",
			"99999999999999999999", "00000000000000000000000009223372036854775807", "00000000000000000000000009223372036854775808", "+1", "-1", "1_0", "1a", " 1", "٣"} {
			ftEmit(c, "dec.qualif", []byte(s))
		}
		for k := 0; k < c.N; k++ {
			n := 1 + r.Intn(24)
			b := make([]byte, n)
			for i := range b {
				b[i] = byte('0' + r.Intn(10))
			}
			if r.Chance(1, 3) {
				b = append([]byte("922337203685477580"), byte('0'+r.Intn(10)))
			}
			ftEmit(c, "dec.qualif", b)
		}
		// 4. random well-escaped sequences and their mutations
		for k := 0; k < c.N*3; k++ {
			classMode := r.Chance(1, 3)
			var body []byte
			nu := 1 + r.Intn(6)
			if classMode {
				nu = 1
			}
			for i := 0; i < nu; i++ {
				body = append(body, ftUnit(r, classMode)...)
			}
			ftEmit(c, "dec.unescape", body)
			c.Count("well-escaped")
			if classMode {
				ftEmit(c, "dec.checkescapes", body)
			} else {
				tok := append(append([]byte{'\''}, body...), '\'')
				ftEmit(c, "dec.fixliteral", tok)
				ftEmit(c, "dec.checkescapes", tok)
			}
			// mutate: delete / insert / replace one byte, truncate
			m := append([]byte(nil), body...)
			switch r.Intn(4) {
			case 0:
				if len(m) > 0 {
					i := r.Intn(len(m))
					m = append(m[:i:i], m[i+1:]...)
				}
			case 1:
				i := r.Intn(len(m) + 1)
				m = append(m[:i:i], append([]byte{Pick(r, []byte{'\\', 'x', 'u', 'U', 'q', 'g', '0', '\n'})}, m[i:]...)...)
			case 2:
				if len(m) > 0 {
					m[r.Intn(len(m))] = Pick(r, []byte{'\\', 'x', 'u', 'U', 'q', 'g', 'z', 0xff})
				}
			case 3:
				if len(m) > 0 {
					m = m[:r.Intn(len(m))]
				}
			}
			ftEmit(c, "dec.unescape", m)
			ftEmit(c, "dec.checkescapes", m)
			ftEmit(c, "dec.fixliteral", m)
			// the same texts inside a larger buffer
			cp := []byte(Pick(r, []string{"'", "4", "41", "0041", "0010FFFF'", "g", "\n", "' 'x'\n"}))
			ftEmitCap(c, "dec.unescapecap", m, cp)
			ftEmitCap(c, "dec.checkescapescap", m, cp)
			ftEmitCap(c, "dec.fixliteralcap", m, cp)
			ftEmitCap(c, "dec.unescapecap", body, cp)
		}
	})
}
