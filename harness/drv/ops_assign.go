//go:build verif

package main

import (
	"bytes"
	"fmt"
	gotoken "go/token"
	gotypes "go/types"
	"os"
	"os/exec"
	"path/filepath"
	"regexp"
	"sort"
	"strconv"
	"strings"
	"sync"
	"time"

	"github.com/dcaiafa/lox/internal/base/errlogger"
	"github.com/dcaiafa/lox/internal/codegen"
	"github.com/dcaiafa/lox/internal/parsergen/lr1"
)

// Family assign (property C06): binding of action methods to productions.
//
// Every case is a small Go package written into a scratch module: a random sugar grammar (GenSpec),
// a Go type for every rule drawn from a catalogue of type shapes (named / unnamed structs, slices,
// maps, funcs, channels, pointers, interfaces with method sets, generic instantiations, aliases,
// types imported from a helper package of the scratch module and from the standard library), and a
// LAYOUT of action methods (one per signature, shared, interface-typed parameters, and the faults:
// missing, ambiguous, orphaned, wrong arity, differing return types, two results, no result,
// variadic, a method for a rule that does not exist; `_onBounds` present or absent).
//
// For every package:
//   * the package is type-checked exactly as lox does it (codegen.VerifAssignView, the stages of
//     codegen.Generate that precede AssignActions) and the relations gotypes.AssignableTo /
//     gotypes.Identical are tabulated over all types that occur (Token, Error, every parameter and
//     result type occurrence, their slice types);
//   * the REAL codegen.Generate runs on the package; its verdict and diagnostics are reduced to
//     `kind:subject`; on success the binding (production -> method, rule -> type) is added;
//   * case line `dec.assign …` = matrices + grammar (as lr1.Grammar, helper rules included) +
//     methods in ParserType.Method(i) order; the Lean model (lean/Lox/Dec/Assign.lean) answers it;
//     a second line `dec.assignwf …` asks the driver to decide the hypotheses of the theorems
//     (WF: helper-rule shapes; IdentEquiv: Identical is an equivalence) on the same case;
//   * oracle column (independent of the Lean model): the property statement evaluated with go/types
//     on the SUGAR grammar (x? has the type of x; x*, x+, @list have type []x): verdict expected vs
//     lox's; after exit 0 the package must compile (go build) and, when run on sentences, every
//     action parameter must carry the id of the value that was produced for its term (every token
//     and every action result carries a unique id; 0 = a zero value).
//
// Protocol: see lean/Lox/Dec/DrvAssign.lean.
//
// Environment: VERIF_C06_DEGENERATE=1 adds methods named `on_`, `on___x` (lox ignores them, the
// property text does not); VERIF_C06_PROMOTED=1 moves an action method to an embedded struct (lox
// does not see promoted methods); VERIF_C06_TIMING=1 prints phase timings.

// ---------------------------------------------------------------------------------------------
// catalogue of type shapes

type ashape struct {
	Expr  string   // type expression inside the generated package
	Mk    string   // expression building the value that carries `id`; "" for interface types
	Body  string   // statements of `case <Expr>:` in ids(), using x; "" = no case (interfaces, aliases)
	Impls []string // interface types: expressions of shapes whose values can be returned
	Alts  []string // types the shape is assignable to (besides itself and `any`)
}

var acatalog = []ashape{
	{Expr: "N1", Mk: "N1{ID: id}", Body: "return itoa(x.ID)", Alts: []string{"I1", "fmt.Stringer", "helper.Tagger"}},
	{Expr: "*N1", Mk: "&N1{ID: id}", Body: "if x == nil { return \"0\" }; return itoa(x.ID)", Alts: []string{"I1", "fmt.Stringer", "helper.Tagger", "P1"}},
	{Expr: "N2", Mk: "N2{ID: id}", Body: "return itoa(x.ID)"},
	{Expr: "*N2", Mk: "&N2{ID: id}", Body: "if x == nil { return \"0\" }; return itoa(x.ID)", Alts: []string{"I1", "I2", "error", "helper.Tagger"}},
	{Expr: "N3", Mk: "N3{ID: id}", Body: "return itoa(x.ID)", Alts: []string{"struct{ ID int }"}},
	{Expr: "struct{ ID int }", Mk: "struct{ ID int }{ID: id}", Body: "return itoa(x.ID)", Alts: []string{"N3"}},
	{Expr: "L1", Mk: "L1{int32(id)}", Body: "if len(x) == 0 { return \"0\" }; return itoa(int(x[0]))", Alts: []string{"[]int32", "AL"}},
	{Expr: "[]int32", Mk: "[]int32{int32(id)}", Body: "if len(x) == 0 { return \"0\" }; return itoa(int(x[0]))", Alts: []string{"L1", "AL", "helper.List"}},
	{Expr: "AL", Mk: "AL{int32(id)}", Alts: []string{"L1", "[]int32", "helper.List"}},
	{Expr: "M1", Mk: "M1{\"id\": id}", Body: "return itoa(x[\"id\"])", Alts: []string{"map[string]int"}},
	{Expr: "map[string]int", Mk: "map[string]int{\"id\": id}", Body: "return itoa(x[\"id\"])", Alts: []string{"M1"}},
	{Expr: "F1", Mk: "F1(func() int { return id })", Body: "if x == nil { return \"0\" }; return itoa(x())", Alts: []string{"func() int"}},
	{Expr: "func() int", Mk: "func() int { return id }", Body: "if x == nil { return \"0\" }; return itoa(x())", Alts: []string{"F1", "helper.Fn"}},
	{Expr: "C1", Mk: "make(C1, id)", Body: "return itoa(cap(x))", Alts: []string{"chan int", "<-chan int"}},
	{Expr: "chan int", Mk: "make(chan int, id)", Body: "return itoa(cap(x))", Alts: []string{"C1", "<-chan int"}},
	{Expr: "<-chan int", Mk: "(<-chan int)(make(chan int, id))", Body: "return itoa(cap(x))"},
	{Expr: "K1", Mk: "K1(id)", Body: "return itoa(int(x))"},
	{Expr: "int", Mk: "id", Body: "return itoa(x)"},
	{Expr: "string", Mk: "itoa(id)", Body: "return itoa(atoi(x))"},
	{Expr: "[2]int", Mk: "[2]int{id, 0}", Body: "return itoa(x[0])"},
	{Expr: "Box[int]", Mk: "Box[int]{ID: id}", Body: "return itoa(x.ID)"},
	{Expr: "Box[string]", Mk: "Box[string]{ID: id}", Body: "return itoa(x.ID)"},
	{Expr: "*Box[int]", Mk: "&Box[int]{ID: id}", Body: "if x == nil { return \"0\" }; return itoa(x.ID)"},
	{Expr: "P1", Mk: "P1(&N1{ID: id})", Body: "if x == nil { return \"0\" }; return itoa(x.ID)", Alts: []string{"*N1"}},
	{Expr: "helper.Item", Mk: "helper.Item{ID: id}", Body: "return itoa(x.ID)", Alts: []string{"I1", "helper.Tagger"}},
	{Expr: "*helper.Item", Mk: "&helper.Item{ID: id}", Body: "if x == nil { return \"0\" }; return itoa(x.ID)", Alts: []string{"I1", "helper.Tagger"}},
	{Expr: "helper.List", Mk: "helper.List{int32(id)}", Body: "if len(x) == 0 { return \"0\" }; return itoa(int(x[0]))", Alts: []string{"[]int32", "AL"}},
	{Expr: "helper.Box[helper.Item]", Mk: "helper.Box[helper.Item]{ID: id}", Body: "return itoa(x.ID)"},
	{Expr: "helper.Pub", Mk: "helper.NewPub(id)", Body: "return itoa(x.ID)"},
	{Expr: "helper.Fn", Mk: "helper.Fn(func() int { return id })", Body: "if x == nil { return \"0\" }; return itoa(x())", Alts: []string{"func() int"}},
	{Expr: "*strings.Builder", Mk: "mkBuilder(id)", Body: "if x == nil { return \"0\" }; return itoa(atoi(x.String()))", Alts: []string{"fmt.Stringer"}},
	{Expr: "time.Duration", Mk: "time.Duration(id)", Body: "return itoa(int(x))", Alts: []string{"fmt.Stringer"}},
	{Expr: "[]byte", Mk: "[]byte(itoa(id))", Body: "return itoa(atoi(string(x)))"},
	// interface types
	{Expr: "I1", Impls: []string{"N1", "*N1", "*N2", "helper.Item"}, Alts: []string{"helper.Tagger"}},
	{Expr: "I2", Impls: []string{"*N2"}, Alts: []string{"I1", "helper.Tagger"}},
	{Expr: "any", Impls: []string{"N1", "K1", "L1", "[]int32", "*N2", "Box[int]", "string"}},
	{Expr: "error", Impls: []string{"*N2"}},
	{Expr: "fmt.Stringer", Impls: []string{"N1", "*N1", "time.Duration", "*strings.Builder"}},
	{Expr: "helper.Tagger", Impls: []string{"N1", "*N2", "helper.Item"}, Alts: []string{"I1"}},
}

func ashapeOf(expr string) *ashape {
	for i := range acatalog {
		if acatalog[i].Expr == expr {
			return &acatalog[i]
		}
	}
	panic("no shape " + expr)
}

const assignHelperSrc = `package helper

type Item struct{ ID int }

func (i Item) Tag() int { return i.ID }

type List []int32

type Tagger interface{ Tag() int }

type Box[T any] struct {
	V  T
	ID int
}

type priv struct{ ID int }

// Pub is an exported alias of an unexported type.
type Pub = priv

func NewPub(id int) Pub { return priv{ID: id} }

type Fn func() int
`

type atokVariant struct{ Decl, Mk, Case string }

var atokVariants = []atokVariant{
	{"type Token struct{ N, Typ int }", "Token{N: n, Typ: typ}", "case Token:\n\t\treturn itoa(x.N)"},
	{"type Token = *tokS", "&tokS{N: n, Typ: typ}", "case *tokS:\n\t\treturn itoa(x.TokID())"},
	{"type Token interface{ TokID() int }", "&tokS{N: n, Typ: typ}", "case *tokS:\n\t\treturn itoa(x.TokID())"},
	{"type Token int", "Token(n)", "case Token:\n\t\treturn itoa(int(x))"},
}

const assignPrelude = `package PKG

import (
	"fmt"
	"strconv"
	"strings"
	"time"

	helper "verifgen/helper"
)

type tokS struct{ N, Typ int }

func (t *tokS) TokID() int {
	if t == nil {
		return 0
	}
	return t.N
}

TOKENDECL

func mkTok(n, typ int) Token { _ = typ; return MKTOK }

type N1 struct{ ID int }

func (n N1) Tag() int       { return n.ID }
func (n N1) String() string { return strconv.Itoa(n.ID) }

type N2 struct{ ID int }

func (n *N2) Tag() int      { return n.ID }
func (n *N2) Extra()        {}
func (n *N2) Error() string { return strconv.Itoa(n.ID) }

type N3 struct{ ID int }
type L1 []int32
type Toks []Token
type AL = []int32
type M1 map[string]int
type F1 func() int
type C1 chan int
type K1 int
type P1 *N1
type I1 interface{ Tag() int }
type I2 interface {
	Tag() int
	Extra()
}
type Box[T any] struct {
	V  T
	ID int
}

var (
	_ time.Duration
	_ fmt.Stringer
	_ helper.Item
)

func itoa(n int) string { return strconv.Itoa(n) }
func atoi(s string) int { n, _ := strconv.Atoi(s); return n }
func mkBuilder(id int) *strings.Builder {
	b := &strings.Builder{}
	b.WriteString(strconv.Itoa(id))
	return b
}

func sl[T any](xs []T) string {
	ss := make([]string, len(xs))
	for i, e := range xs {
		ss[i] = ids(e)
	}
	return "[" + strings.Join(ss, ",") + "]"
}

// ids renders the id(s) carried by a value: "0" for a zero value, "E<id>" for an Error,
// "[a,b,…]" for the slice built by a helper rule.
func ids(v any) string {
	switch x := v.(type) {
	case nil:
		return "0"
	TOKCASE
	case Error:
		return "E" + ids(x.Token)
IDCASES
	}
	return fmt.Sprintf("?%T", v)
}

type budgetExceeded struct{}

type P struct {
	lox
	MIXIN
}

type runState struct {
	log    []string
	n      int
	steps  int
	budget int
}

var cur *runState

// rec logs one action call and hands out the id of its result.
func rec(m string, kids ...string) int {
	cur.steps++
	if cur.steps > cur.budget {
		panic(budgetExceeded{})
	}
	cur.n++
	id := 1000 + cur.n
	cur.log = append(cur.log, "A "+m+" "+itoa(id)+" "+strings.Join(kids, " "))
	return id
}

type scripted struct {
	toks   []int
	i      int
	reads  int
	budget int
}

func (l *scripted) ReadToken() (Token, int) {
	l.reads++
	if l.reads > l.budget {
		panic(budgetExceeded{})
	}
	if l.i < len(l.toks) {
		typ := l.toks[l.i]
		l.i++
		return mkTok(l.i, typ), typ
	}
	return mkTok(len(l.toks)+1, EOF), EOF
}

// Run parses a sequence of token TYPE NUMBERS and reports the action calls.
func Run(toks []int, budget int) (res string) {
	lex := &scripted{toks: toks, budget: budget}
	cur = &runState{budget: budget}
	p := &P{}
	defer func() {
		if e := recover(); e != nil {
			if _, ok := e.(budgetExceeded); ok {
				res = "timeout"
			} else {
				res = "panic " + strings.ReplaceAll(fmt.Sprint(e), "\n", " ")
			}
		}
	}()
	ok := p.parse(lex)
	head := "rej"
	if ok {
		head = "acc"
	}
	return strings.Join(append([]string{head}, cur.log...), " ; ")
}
`

func assignPreludeFor(pkg string, tv atokVariant, mixin bool) string {
	var cases strings.Builder
	for _, sh := range acatalog {
		if sh.Body != "" {
			fmt.Fprintf(&cases, "\tcase %s:\n\t\t%s\n", sh.Expr, sh.Body)
		}
	}
	// slices built by helper rules: []T for every catalogue type, Token and Error
	seen := map[string]bool{}
	for _, sh := range acatalog {
		if sh.Expr == "AL" {
			continue // identical to []int32
		}
		e := "[]" + sh.Expr
		if !seen[e] {
			seen[e] = true
			fmt.Fprintf(&cases, "\tcase %s:\n\t\treturn sl(x)\n", e)
		}
	}
	cases.WriteString("\tcase []Token:\n\t\treturn sl(x)\n\tcase []Error:\n\t\treturn sl(x)\n\tcase Toks:\n\t\treturn sl([]Token(x))\n")
	src := assignPrelude
	src = strings.ReplaceAll(src, "PKG", pkg)
	src = strings.ReplaceAll(src, "TOKENDECL", tv.Decl)
	src = strings.ReplaceAll(src, "MKTOK", tv.Mk)
	src = strings.ReplaceAll(src, "TOKCASE", tv.Case)
	src = strings.ReplaceAll(src, "IDCASES", cases.String())
	if mixin {
		src = strings.ReplaceAll(src, "MIXIN", "mix")
	} else {
		src = strings.ReplaceAll(src, "MIXIN", "")
	}
	return src
}

// ---------------------------------------------------------------------------------------------
// layout of action methods

type amethod struct {
	Name     string
	Recv     string   // receiver declaration, e.g. "p *P"
	Params   []string // parameter type expressions
	Variadic bool     // the last parameter is written ...T (Params[last] is then T)
	Results  []string // result type expressions
	MkExpr   string   // expression of the first result, uses id
	File     int      // 0 = m.go, 1 = a.go (sorts before m.go)
	Note     string
}

func (m *amethod) text() string {
	var ps, args []string
	for i, t := range m.Params {
		if m.Variadic && i == len(m.Params)-1 {
			ps = append(ps, fmt.Sprintf("a%d ...%s", i, t))
		} else {
			ps = append(ps, fmt.Sprintf("a%d %s", i, t))
		}
		args = append(args, fmt.Sprintf("ids(a%d)", i))
	}
	call := fmt.Sprintf("rec(%q", m.Name)
	if len(args) > 0 {
		call += ", " + strings.Join(args, ", ")
	}
	call += ")"
	var sb strings.Builder
	switch len(m.Results) {
	case 0:
		fmt.Fprintf(&sb, "func (%s) %s(%s) { _ = %s }\n", m.Recv, m.Name, strings.Join(ps, ", "), call)
	case 1:
		fmt.Fprintf(&sb, "func (%s) %s(%s) %s { id := %s; _ = id; return %s }\n", m.Recv, m.Name, strings.Join(ps, ", "), m.Results[0], call, m.MkExpr)
	default:
		fmt.Fprintf(&sb, "func (%s) %s(%s) (%s) { id := %s; _ = id; return %s, nil }\n", m.Recv, m.Name, strings.Join(ps, ", "), strings.Join(m.Results, ", "), call, m.MkExpr)
	}
	return sb.String()
}

type apkg struct {
	Name    string
	GoPkg   string // package clause when it differs from the directory name
	Spec    *GSpec
	Lox     string
	RuleTy  []string // type expression per rule of Spec
	RuleMk  []string // constructor expression per rule (concrete implementor for interface types)
	Tok     int      // token variant
	Methods []*amethod
	Mixin   bool
	Faults  []string
	Files   map[string]string
	Extra   [][]int // additional inputs (indices into Spec.Tokens, -1 = the lexer's ERROR token)

	// results
	dir      string
	viewFset *gotoken.FileSet
	view     *codegen.VerifAssignState
	viewErr  string
	ok       bool
	diag     string
	panicS   string

	caseLine, implLine string
	expectOK           bool
	expectWhy          string
	uniq               []string          // per user production of the sugar grammar: its unique matching method
	optional           map[string][]bool // method -> parameter may legitimately be the zero value
	oracle             []string
	compiled           bool
}

func mkFor(r *Rng, expr string) string {
	sh := ashapeOf(expr)
	if sh.Mk != "" {
		return sh.Mk
	}
	return ashapeOf(Pick(r, sh.Impls)).Mk
}

func (a *apkg) termExpr(t *GTerm) string {
	switch t.Kind {
	case KTok:
		return "Token"
	case KRule:
		return a.RuleTy[t.Rule]
	case KErr:
		return "Error"
	case KOpt:
		return a.termExpr(t.Child)
	default:
		return "[]" + a.termExpr(t.Child)
	}
}

// generalise picks a parameter type for a term of type expression e.
func generalise(r *Rng, e string, wild bool) string {
	x := r.Intn(100)
	switch {
	case x < 55:
		return e
	case x < 70:
		return "any"
	case x < 92:
		for i := range acatalog {
			if acatalog[i].Expr == e && len(acatalog[i].Alts) > 0 {
				return Pick(r, acatalog[i].Alts)
			}
		}
		if strings.HasPrefix(e, "[]") && r.Bool() {
			// element-wise generalisation is NOT assignable in Go ([]N1 to []I1): lox must refuse it
			return "[]" + generalise(r, e[2:], false)
		}
		return e
	default:
		if wild {
			return Pick(r, acatalog).Expr
		}
		return e
	}
}

func stripStarF(s *GSpec) {
	var fix func(t *GTerm)
	fix = func(t *GTerm) {
		if t == nil {
			return
		}
		if t.Kind == KStarF {
			t.Kind = KStar // `*!` needs a Discard method on the element type; C03 covers it
		}
		fix(t.Child)
		fix(t.Sep)
	}
	for _, r := range s.Rules {
		for _, p := range r.Prods {
			for _, t := range p.Terms {
				fix(t)
			}
		}
	}
}

func genAssignPkg(r *Rng, name string, s *GSpec) *apkg {
	a := &apkg{Name: name, Spec: s, Lox: s.Lox(), Tok: r.Intn(len(atokVariants))}
	// a small universe per package, so that rules share types and assignable pairs are frequent
	var uni []string
	nu := 2 + r.Intn(4)
	for len(uni) < nu {
		e := Pick(r, acatalog).Expr
		uni = append(uni, e)
		if sh := ashapeOf(e); len(sh.Alts) > 0 && r.Bool() {
			uni = append(uni, Pick(r, sh.Alts))
		}
	}
	for range s.Rules {
		e := Pick(r, uni)
		a.RuleTy = append(a.RuleTy, e)
		a.RuleMk = append(a.RuleMk, mkFor(r, e))
	}
	wild := r.Chance(1, 3)
	general := r.Chance(2, 3)
	for ri, rule := range s.Rules {
		seen := map[string]bool{}
		for _, p := range rule.Prods {
			var sig []string
			for _, t := range p.Terms {
				e := a.termExpr(t)
				if general {
					e = generalise(r, e, wild)
				}
				sig = append(sig, e)
			}
			key := strings.Join(sig, ",")
			if seen[key] {
				continue
			}
			seen[key] = true
			ret := a.RuleTy[ri]
			if ret == "[]int32" && r.Bool() {
				ret = "AL" // identical type, written differently
			}
			a.Methods = append(a.Methods, &amethod{
				// the rule name ends at the FIRST "__"; the rest is free-form and may itself contain "__"
				Name: fmt.Sprintf("on_%s__s%d%s", rule.Name, len(seen)-1, Pick(r, []string{"", "", "__x", "__a__b", "_y__z"})), Recv: "p *P",
				Params: sig, Results: []string{ret}, MkExpr: a.RuleMk[ri],
			})
		}
	}
	// faults
	nf := 0
	switch x := r.Intn(100); {
	case x < 45:
		nf = 0
	case x < 85:
		nf = 1
	default:
		nf = 2
	}
	maxTerms := 0
	for _, rule := range s.Rules {
		for _, p := range rule.Prods {
			if len(p.Terms) > maxTerms {
				maxTerms = len(p.Terms)
			}
		}
	}
	for k := 0; k < nf; k++ {
		if len(a.Methods) == 0 {
			break
		}
		mi := r.Intn(len(a.Methods))
		m := a.Methods[mi]
		ri := r.Intn(len(s.Rules))
		switch f := r.Intn(13); f {
		case 0:
			a.Faults = append(a.Faults, "missing")
			a.Methods = append(a.Methods[:mi:mi], a.Methods[mi+1:]...)
		case 1:
			a.Faults = append(a.Faults, "ambiguous-copy")
			c := *m
			c.Name = fmt.Sprintf("%sdup%d", m.Name, len(a.Methods))
			a.Methods = append(a.Methods, &c)
		case 2:
			a.Faults = append(a.Faults, "ambiguous-any")
			c := *m
			c.Name = fmt.Sprintf("%sgen%d", m.Name, len(a.Methods))
			c.Params = make([]string, len(m.Params))
			for i := range c.Params {
				c.Params[i] = "any"
			}
			a.Methods = append(a.Methods, &c)
		case 3:
			a.Faults = append(a.Faults, "orphan")
			var ps []string
			for i := 0; i < maxTerms+1+r.Intn(2); i++ {
				ps = append(ps, "Token")
			}
			a.Methods = append(a.Methods, &amethod{Name: fmt.Sprintf("on_%s__orphan%d", s.Rules[ri].Name, len(a.Methods)), Recv: "p *P",
				Params: ps, Results: []string{a.RuleTy[ri]}, MkExpr: a.RuleMk[ri]})
		case 4:
			a.Faults = append(a.Faults, "arity+1")
			m.Params = append(append([]string{}, m.Params...), Pick(r, []string{"Token", "any", "int"}))
		case 5:
			if len(m.Params) > 0 {
				a.Faults = append(a.Faults, "arity-1")
				m.Params = append([]string{}, m.Params[:len(m.Params)-1]...)
			}
		case 6:
			a.Faults = append(a.Faults, "return-differs")
			e := Pick(r, acatalog).Expr
			m.Results = []string{e}
			m.MkExpr = mkFor(r, e)
		case 7:
			if len(m.Results) == 1 {
				a.Faults = append(a.Faults, "two-results")
				m.Results = []string{m.Results[0], "error"}
			}
		case 8:
			a.Faults = append(a.Faults, "no-result")
			m.Results = nil
		case 9:
			if n := len(m.Params); n > 0 && strings.HasPrefix(m.Params[n-1], "[]") {
				a.Faults = append(a.Faults, "variadic-last")
				m.Params = append([]string{}, m.Params...)
				m.Params[n-1] = m.Params[n-1][2:]
				m.Variadic = true
			} else if !m.Variadic {
				a.Faults = append(a.Faults, "variadic-extra")
				m.Params = append(append([]string{}, m.Params...), "int")
				m.Variadic = true
			}
		case 10:
			a.Faults = append(a.Faults, "no-such-rule")
			a.Methods = append(a.Methods, &amethod{Name: Pick(r, []string{"on_nosuch", "on_nosuch__x", "on_TA", "on_R0"}), Recv: "p *P",
				Params: []string{"Token"}, Results: []string{"int"}, MkExpr: "id"})
		case 11:
			a.Faults = append(a.Faults, "other-file")
			m.File = 1
		case 12:
			a.Faults = append(a.Faults, "value-receiver")
			m.Recv = "p P"
		}
	}
	// methods that are not action methods must be ignored
	if r.Bool() {
		a.Methods = append(a.Methods, &amethod{Name: Pick(r, []string{"helper", "onx", "On_r0", "on", "_on_r0"}), Recv: "p *P",
			Params: []string{"int"}, Variadic: r.Bool(), Results: Pick(r, [][]string{nil, {"int"}, {"int", "error"}}), MkExpr: "id", Note: "non-action"})
	}
	if os.Getenv("VERIF_C06_DEGENERATE") == "1" && r.Chance(1, 3) {
		a.Faults = append(a.Faults, "degenerate-name")
		a.Methods = append(a.Methods, &amethod{Name: Pick(r, []string{"on_", "on___x", "on___"}), Recv: "p *P",
			Params: []string{"Token"}, Results: []string{"int"}, MkExpr: "id"})
	}
	if os.Getenv("VERIF_C06_PROMOTED") == "1" && r.Chance(1, 3) && len(a.Methods) > 0 {
		a.Faults = append(a.Faults, "promoted")
		a.Mixin = true
		a.Methods[r.Intn(len(a.Methods))].Recv = "m mix"
	}
	s.WithBounds = r.Bool()
	// shuffle the declaration order (ParserType.Method(i) is source order)
	for i := len(a.Methods) - 1; i > 0; i-- {
		j := r.Intn(i + 1)
		a.Methods[i], a.Methods[j] = a.Methods[j], a.Methods[i]
	}
	a.buildFiles()
	return a
}


// buildFiles renders the package: p.go (fixed prelude), m.go / a.go (the action methods), g.lox.
func (a *apkg) buildFiles() {
	name, s := a.Name, a.Spec
	if a.GoPkg != "" {
		name = a.GoPkg
	}
	var f0, f1 strings.Builder
	hdr := "package " + name + "\n\nimport (\n\t\"fmt\"\n\t\"strings\"\n\t\"time\"\n\n\thelper \"verifgen/helper\"\n)\n\nvar (\n\t_ fmt.Stringer\n\t_ strings.Builder\n\t_ time.Duration\n\t_ helper.Item\n)\n\n"
	f0.WriteString(hdr)
	f1.WriteString(hdr)
	if a.Mixin {
		f0.WriteString("type mix struct{}\n\n")
	}
	for _, m := range a.Methods {
		if m.File == 1 {
			f1.WriteString(m.text())
		} else {
			f0.WriteString(m.text())
		}
	}
	if s.WithBounds {
		f0.WriteString("func (p *P) _onBounds(r any, b, e Token) {}\n")
	}
	var tt strings.Builder
	tt.WriteString("var TokTypes = []int{EOF, ERROR")
	for _, t := range s.Tokens {
		tt.WriteString(", " + t)
	}
	tt.WriteString("}\n")
	a.Files = map[string]string{
		"g.lox": a.Lox,
		"p.go":  assignPreludeFor(name, atokVariants[a.Tok], a.Mixin) + "\n" + tt.String(),
		"m.go":  f0.String(),
	}
	if strings.Contains(f1.String(), "func (") {
		a.Files["a.go"] = f1.String()
	}
}

// directedAssignPkgs are hand-written layouts that every run starts with: the witnesses of the
// repaired defects D4 (assignable but not identical parameter types), D15 (helper rules over
// @error), D16 (variadic action method) and a few corner cases of the type catalogue.
func directedAssignPkgs() []*apkg {
	tok := func(i int) *GTerm { return &GTerm{Kind: KTok, Tok: i} }
	rule := func(i int) *GTerm { return &GTerm{Kind: KRule, Rule: i} }
	wrap := func(k TK, t *GTerm) *GTerm { return &GTerm{Kind: k, Child: t} }
	list := func(k TK, t, sep *GTerm) *GTerm { return &GTerm{Kind: k, Child: t, Sep: sep} }
	errT := &GTerm{Kind: KErr}
	mk := func(name, note string, tokv int, s *GSpec, ruleTy []string, ms []*amethod, extra [][]int) *apkg {
		a := &apkg{Name: name, Spec: s, Lox: s.Lox(), Tok: tokv, RuleTy: ruleTy, Methods: ms, Faults: []string{"directed:" + note}, Extra: extra}
		for _, m := range ms {
			if m.Recv == "" {
				m.Recv = "p *P"
			}
		}
		a.buildFiles()
		return a
	}
	var out []*apkg
	// D4: s = A* n ; n = B.  on_s(a Toks, n []int32) with `type Toks []Token`, rule n of type L1 (named []int32)
	out = append(out, mk("d0000", "D4-assignable-not-identical", 0,
		&GSpec{Tokens: []string{"TA", "TB"}, Rules: []*GRule{
			{Name: "s", Prods: []*GProd{{Terms: []*GTerm{wrap(KStar, tok(0)), rule(1)}}}},
			{Name: "n", Prods: []*GProd{{Terms: []*GTerm{tok(1)}}}}}},
		[]string{"N1", "L1"},
		[]*amethod{
			{Name: "on_s", Params: []string{"Toks", "[]int32"}, Results: []string{"N1"}, MkExpr: "N1{ID: id}"},
			{Name: "on_n", Params: []string{"Token"}, Results: []string{"L1"}, MkExpr: "L1{int32(id)}"}},
		[][]int{{0, 0, 1}, {1}}))
	// D4 with every other assignable-not-identical pair of the catalogue in one production
	out = append(out, mk("d0001", "D4-many-pairs", 2,
		&GSpec{Tokens: []string{"TA", "TB"}, WithBounds: true, Rules: []*GRule{
			{Name: "s", Prods: []*GProd{{Terms: []*GTerm{rule(1), rule(2), rule(3), rule(4), rule(5), wrap(KOpt, rule(6)), wrap(KPlus, rule(1))}}}},
			{Name: "a", Prods: []*GProd{{Terms: []*GTerm{tok(0)}}}},
			{Name: "b", Prods: []*GProd{{Terms: []*GTerm{tok(0)}}}},
			{Name: "c", Prods: []*GProd{{Terms: []*GTerm{tok(0)}}}},
			{Name: "d", Prods: []*GProd{{Terms: []*GTerm{tok(0)}}}},
			{Name: "e", Prods: []*GProd{{Terms: []*GTerm{tok(0)}}}},
			{Name: "f", Prods: []*GProd{{Terms: []*GTerm{tok(1)}}}}}},
		[]string{"int", "M1", "func() int", "*N1", "chan int", "struct{ ID int }", "helper.List"},
		[]*amethod{
			{Name: "on_s", Params: []string{"map[string]int", "helper.Fn", "P1", "<-chan int", "N3", "[]int32", "any"}, Results: []string{"int"}, MkExpr: "id"},
			{Name: "on_a", Params: []string{"Token"}, Results: []string{"M1"}, MkExpr: "M1{\"id\": id}"},
			{Name: "on_b", Params: []string{"Token"}, Results: []string{"func() int"}, MkExpr: "func() int { return id }"},
			{Name: "on_c", Params: []string{"Token"}, Results: []string{"*N1"}, MkExpr: "&N1{ID: id}"},
			{Name: "on_d", Params: []string{"Token"}, Results: []string{"chan int"}, MkExpr: "make(chan int, id)"},
			{Name: "on_e", Params: []string{"Token"}, Results: []string{"struct{ ID int }"}, MkExpr: "struct{ ID int }{ID: id}"},
			{Name: "on_f", Params: []string{"Token"}, Results: []string{"helper.List"}, MkExpr: "helper.List{int32(id)}"}},
		[][]int{{0, 0, 0, 0, 0, 1, 0}, {0, 0, 0, 0, 0, 0, 0, 0}}))
	// convertible but NOT assignable parameter types must not match: two named types with one underlying type
	// (K1/int as named int vs int is assignable only one way: K1 term to int parameter is not), named slices of
	// different names, named func types of different names
	out = append(out, mk("d0090", "convertible-not-assignable-reject", 0,
		&GSpec{Tokens: []string{"TA", "TB"}, Rules: []*GRule{
			{Name: "s", Prods: []*GProd{{Terms: []*GTerm{rule(1), rule(2), rule(3)}}}},
			{Name: "a", Prods: []*GProd{{Terms: []*GTerm{tok(0)}}}},
			{Name: "b", Prods: []*GProd{{Terms: []*GTerm{tok(0)}}}},
			{Name: "c", Prods: []*GProd{{Terms: []*GTerm{tok(1)}}}}}},
		[]string{"int", "K1", "L1", "F1"},
		[]*amethod{
			{Name: "on_s", Params: []string{"int", "helper.List", "F1"}, Results: []string{"int"}, MkExpr: "id"},
			{Name: "on_a", Params: []string{"Token"}, Results: []string{"K1"}, MkExpr: "K1(id)"},
			{Name: "on_b", Params: []string{"Token"}, Results: []string{"L1"}, MkExpr: "L1{int32(id)}"},
			{Name: "on_c", Params: []string{"Token"}, Results: []string{"F1"}, MkExpr: "F1(func() int { return id })"}},
		nil))
	// two methods distinguished only by mutually CONVERTIBLE parameter types: exactly one is assignable, so the
	// package is valid (a matcher based on convertibility would call it ambiguous)
	out = append(out, mk("d0091", "convertible-alternatives-accept", 0,
		&GSpec{Tokens: []string{"TA", "TB"}, Rules: []*GRule{
			{Name: "s", Prods: []*GProd{{Terms: []*GTerm{rule(1)}}, {Terms: []*GTerm{rule(2)}}}},
			{Name: "a", Prods: []*GProd{{Terms: []*GTerm{tok(0)}}}},
			{Name: "b", Prods: []*GProd{{Terms: []*GTerm{tok(1)}}}}}},
		[]string{"int", "K1", "string"},
		[]*amethod{
			{Name: "on_s__k", Params: []string{"K1"}, Results: []string{"int"}, MkExpr: "id"},
			{Name: "on_s__s", Params: []string{"string"}, Results: []string{"int"}, MkExpr: "id"},
			{Name: "on_a", Params: []string{"Token"}, Results: []string{"K1"}, MkExpr: "K1(id)"},
			{Name: "on_b", Params: []string{"Token"}, Results: []string{"string"}, MkExpr: "itoa(id)"}},
		[][]int{{0}, {1}}))
	// the grammar package has the SAME NAME as an imported package whose types the rules use (the generated
	// code must still qualify those types with the import alias)
	{
		a := mk("d0092", "same-name-as-imported-package", 0,
			&GSpec{Tokens: []string{"TA", "TB"}, Rules: []*GRule{
				{Name: "s", Prods: []*GProd{{Terms: []*GTerm{rule(1), wrap(KStar, rule(1))}}}},
				{Name: "a", Prods: []*GProd{{Terms: []*GTerm{tok(0)}}, {Terms: []*GTerm{tok(1)}}}}}},
			[]string{"int", "helper.Item"},
			[]*amethod{
				{Name: "on_s", Params: []string{"helper.Tagger", "[]helper.Item"}, Results: []string{"int"}, MkExpr: "id"},
				{Name: "on_a", Params: []string{"Token"}, Results: []string{"helper.Item"}, MkExpr: "helper.Item{ID: id}"}},
			[][]int{{0}, {0, 1, 0}})
		a.GoPkg = "helper"
		a.buildFiles()
		out = append(out, a)
	}
	// rule types from THREE imported packages, first mentioned in the generated code in an order that is not the
	// sorted order of their import paths (strings < time < verifgen/helper), and in the sorted order
	for k, ord := range [][]int{{3, 2, 1}, {1, 2, 3}, {2, 3, 1}} {
		tys := []string{"int", "*strings.Builder", "time.Duration", "helper.Item"}
		mks := []string{"id", "mkBuilder(id)", "time.Duration(id)", "helper.Item{ID: id}"}
		names := []string{"s", "a", "b", "c"}
		ruleTy := []string{"int", tys[ord[0]], tys[ord[1]], tys[ord[2]]}
		out = append(out, mk(fmt.Sprintf("d009%d", 3+k), "three-imported-packages-order", 0,
			&GSpec{Tokens: []string{"TA", "TB"}, Rules: []*GRule{
				{Name: "s", Prods: []*GProd{{Terms: []*GTerm{rule(1), rule(2), rule(3)}}}},
				{Name: "a", Prods: []*GProd{{Terms: []*GTerm{tok(0)}}}},
				{Name: "b", Prods: []*GProd{{Terms: []*GTerm{tok(0)}}}},
				{Name: "c", Prods: []*GProd{{Terms: []*GTerm{tok(1)}}}}}},
			ruleTy,
			[]*amethod{
				{Name: "on_s", Params: []string{ruleTy[1], ruleTy[2], ruleTy[3]}, Results: []string{"int"}, MkExpr: "id"},
				{Name: "on_" + names[1], Params: []string{"Token"}, Results: []string{ruleTy[1]}, MkExpr: mks[ord[0]]},
				{Name: "on_" + names[2], Params: []string{"Token"}, Results: []string{ruleTy[2]}, MkExpr: mks[ord[1]]},
				{Name: "on_" + names[3], Params: []string{"Token"}, Results: []string{ruleTy[3]}, MkExpr: mks[ord[2]]}},
			[][]int{{0, 0, 1}}))
	}
	// D16: variadic action method: s = A* n ; on_s(a []Token, n ...int32) must be refused
	out = append(out, mk("d0002", "D16-variadic", 0,
		&GSpec{Tokens: []string{"TA", "TB"}, Rules: []*GRule{
			{Name: "s", Prods: []*GProd{{Terms: []*GTerm{wrap(KStar, tok(0)), rule(1)}}}},
			{Name: "n", Prods: []*GProd{{Terms: []*GTerm{tok(1)}}}}}},
		[]string{"N1", "[]int32"},
		[]*amethod{
			{Name: "on_s", Params: []string{"[]Token", "int32"}, Variadic: true, Results: []string{"N1"}, MkExpr: "N1{ID: id}"},
			{Name: "on_n", Params: []string{"Token"}, Results: []string{"[]int32"}, MkExpr: "[]int32{int32(id)}"}},
		nil))
	// D15: helper rules over @error are typed Error / []Error: s = A @error? B | C @error* B | B @error+ A
	// (@list(@error, …) is refused by the front end)
	out = append(out, mk("d0003", "D15-error-helpers", 0,
		&GSpec{Tokens: []string{"TA", "TB", "TC"}, Rules: []*GRule{
			{Name: "s", Prods: []*GProd{
				{Terms: []*GTerm{tok(0), wrap(KOpt, errT), tok(1)}},
				{Terms: []*GTerm{tok(2), wrap(KStar, errT), tok(1)}},
				{Terms: []*GTerm{tok(1), wrap(KPlus, errT), tok(0)}}}}}},
		[]string{"N1"},
		[]*amethod{
			{Name: "on_s__opt", Params: []string{"Token", "Error", "Token"}, Results: []string{"N1"}, MkExpr: "N1{ID: id}"},
			{Name: "on_s__many", Params: []string{"Token", "[]Error", "Token"}, Results: []string{"N1"}, MkExpr: "N1{ID: id}"}},
		[][]int{{0, 1}, {0, 2, 1}, {0, -1, 1}, {2, 0, 1}, {2, 1}, {1, 0, 0}, {1, -1, 2, 0, 0}, {1, 1, 0}}))
	// interface-typed rule whose values have different dynamic types, shared method with `any`
	out = append(out, mk("d0004", "interfaces-shared", 1,
		&GSpec{Tokens: []string{"TA", "TB", "TC", "TD"}, Rules: []*GRule{
			{Name: "s", Prods: []*GProd{{Terms: []*GTerm{wrap(KPlus, rule(1))}}, {Terms: []*GTerm{tok(1), wrap(KOpt, rule(1)), tok(3), list(KListOpt, rule(1), tok(1))}}}},
			{Name: "v", Prods: []*GProd{{Terms: []*GTerm{tok(0)}}, {Terms: []*GTerm{tok(2), tok(0)}}}}}},
		[]string{"any", "I1"},
		[]*amethod{
			{Name: "on_s", Params: []string{"[]I1"}, Results: []string{"any"}, MkExpr: "K1(id)"},
			{Name: "on_s__b", Params: []string{"any", "helper.Tagger", "Token", "[]I1"}, Results: []string{"any"}, MkExpr: "&N2{ID: id}"},
			{Name: "on_v", Params: []string{"Token"}, Results: []string{"I1"}, MkExpr: "N1{ID: id}"},
			{Name: "on_v__two", Params: []string{"Token", "any"}, Results: []string{"I1"}, MkExpr: "&N2{ID: id}"}},
		[][]int{{0, 0, 2, 0}, {1, 3}, {1, 0, 3}, {1, 2, 0, 3, 0, 1, 2, 0}}))
	return out
}

// ---------------------------------------------------------------------------------------------
// diagnostics of the real generator -> kind:subject

var (
	reDiagPos      = regexp.MustCompile(`^(?:.*?):(\d+):(\d+): (.*)$`)
	reDiagResults  = regexp.MustCompile(`^(\S+): action method must return a single value$`)
	reDiagVariadic = regexp.MustCompile(`^(\S+): action method cannot be variadic$`)
	reDiagConflict = regexp.MustCompile(`^action return type conflict: (\S+) returns `)
	reDiagNoRule   = regexp.MustCompile(`^action method (\S+): no rule named (\S+)$`)
	reDiagUntyped  = regexp.MustCompile(`^rule missing action method: (.+)$`)
	reDiagOrphan   = regexp.MustCompile(`^could not match action method (\S+) to a production$`)
)

func (a *apkg) canonDiags(diag string) []string {
	g := a.view.Grammar
	fset := a.viewFset
	prodAt := map[[2]int]int{}
	for i, p := range g.Prods {
		if p.Position.IsValid() {
			pos := fset.Position(p.Position)
			prodAt[[2]int{pos.Line, pos.Column}] = i
		}
	}
	var out []string
	for _, line := range strings.Split(diag, "\n") {
		line = strings.TrimRight(line, "\r ")
		if line == "" {
			continue
		}
		msg := line
		ln, col := 0, 0
		if m := reDiagPos.FindStringSubmatch(line); m != nil {
			ln, _ = strconv.Atoi(m[1])
			col, _ = strconv.Atoi(m[2])
			msg = m[3]
		}
		switch {
		case strings.HasSuffix(msg, "is defined here"), strings.HasPrefix(msg, "possible match: "):
			continue
		case reDiagResults.MatchString(msg):
			out = append(out, "results:"+reDiagResults.FindStringSubmatch(msg)[1])
		case reDiagVariadic.MatchString(msg):
			out = append(out, "variadic:"+reDiagVariadic.FindStringSubmatch(msg)[1])
		case reDiagConflict.MatchString(msg):
			out = append(out, "retconflict:"+reDiagConflict.FindStringSubmatch(msg)[1])
		case reDiagNoRule.MatchString(msg):
			out = append(out, "norule:"+reDiagNoRule.FindStringSubmatch(msg)[1])
		case reDiagOrphan.MatchString(msg):
			out = append(out, "orphan:"+reDiagOrphan.FindStringSubmatch(msg)[1])
		case reDiagUntyped.MatchString(msg):
			name := reDiagUntyped.FindStringSubmatch(msg)[1]
			idx := -1
			for _, r := range g.Rules {
				if r.Name == name {
					idx = r.Index
				}
			}
			out = append(out, fmt.Sprintf("untyped:r%d", idx))
		case msg == "production has no matching action method", msg == "multiple action methods matching production":
			kind := "nomatch"
			if strings.HasPrefix(msg, "multiple") {
				kind = "ambiguous"
			}
			if pi, ok := prodAt[[2]int{ln, col}]; ok {
				out = append(out, fmt.Sprintf("%s:p%d", kind, pi))
			} else {
				out = append(out, fmt.Sprintf("%s:@%d:%d", kind, ln, col))
			}
		default:
			out = append(out, "other:"+strings.ReplaceAll(msg, " ", "_"))
		}
	}
	sort.Strings(out)
	return out
}

// ---------------------------------------------------------------------------------------------
// the case line and the implementation's answer

type atyReg struct {
	list []gotypes.Type
	idx  map[gotypes.Type]int
}

func (r *atyReg) add(t gotypes.Type) int {
	if i, ok := r.idx[t]; ok {
		return i
	}
	r.idx[t] = len(r.list)
	r.list = append(r.list, t)
	return len(r.list) - 1
}

// canon is the least index of a type identical to t, -2 if there is none.
func (r *atyReg) canon(t gotypes.Type) int {
	if t == nil {
		return -1
	}
	for i, u := range r.list {
		if gotypes.Identical(u, t) {
			return i
		}
	}
	return -2
}

func genCode(r *lr1.Rule) int {
	switch string(codegen.RuleGenerated(r)) {
	case "not_generated":
		return 0
	case "sprime":
		return 1
	case "zero_or_more":
		return 2
	case "zero_or_more_f":
		return 3
	case "one_or_more":
		return 4
	case "one_or_more_f":
		return 5
	case "zero_or_one":
		return 6
	case "list":
		return 7
	}
	return 9
}

func (a *apkg) buildLines() {
	v := a.view
	g := v.Grammar
	reg := &atyReg{idx: map[gotypes.Type]int{}}
	tok := reg.add(v.TokenType)
	errT := reg.add(v.ErrorType)
	type mrow struct {
		name     string
		nres     int
		ret      int
		variadic int
		params   []int
	}
	var rows []mrow
	elem := map[int]bool{tok: true, errT: true}
	methodIdx := map[*gotypes.Func]int{}
	for i := 0; i < v.ParserType.NumMethods(); i++ {
		f := v.ParserType.Method(i)
		methodIdx[f] = i
		sig := f.Type().(*gotypes.Signature)
		row := mrow{name: f.Name(), nres: sig.Results().Len(), ret: -1}
		for k := 0; k < sig.Params().Len(); k++ {
			row.params = append(row.params, reg.add(sig.Params().At(k).Type()))
		}
		if row.nres > 0 {
			row.ret = reg.add(sig.Results().At(0).Type())
			elem[row.ret] = true
		}
		if sig.Variadic() {
			row.variadic = 1
		}
		rows = append(rows, row)
	}
	var slicePairs []int
	var elems []int
	for e := range elem {
		elems = append(elems, e)
	}
	sort.Ints(elems)
	for _, e := range elems {
		s := reg.add(gotypes.NewSlice(reg.list[e]))
		slicePairs = append(slicePairs, e, s)
	}
	n := len(reg.list)
	var am, im []string
	for i := 0; i < n; i++ {
		ra := make([]byte, n)
		ri := make([]byte, n)
		for j := 0; j < n; j++ {
			ra[j], ri[j] = '0', '0'
			if gotypes.AssignableTo(reg.list[i], reg.list[j]) {
				ra[j] = '1'
			}
			if gotypes.Identical(reg.list[i], reg.list[j]) {
				ri[j] = '1'
			}
		}
		am = append(am, string(ra))
		im = append(im, string(ri))
	}
	var rules []string
	for _, r := range g.Rules {
		rules = append(rules, fmt.Sprintf("%d:%s", genCode(r), r.Name))
	}
	var prods []string
	for _, p := range g.Prods {
		xs := []int{p.Rule.Index}
		for _, t := range p.Terms {
			switch t := t.(type) {
			case *lr1.Terminal:
				if t == g.ErrorTerminal {
					xs = append(xs, -2)
				} else {
					xs = append(xs, -1)
				}
			case *lr1.Rule:
				xs = append(xs, t.Index)
			}
		}
		prods = append(prods, joinInts(xs))
	}
	var ms []string
	for _, row := range rows {
		ms = append(ms, strings.TrimSpace(fmt.Sprintf("%s %d %d %d %s", row.name, row.nres, row.ret, row.variadic, joinInts(row.params))))
	}
	a.caseLine = fmt.Sprintf("dec.assign %d %d %d | %s | %s | %s | %s | %s | %s", n, tok, errT,
		strings.Join(am, " "), strings.Join(im, " "), joinInts(slicePairs),
		strings.Join(rules, " "), strings.Join(prods, " ; "), strings.Join(ms, " ; "))

	// the implementation's answer: verdict and diagnostics of the real codegen.Generate
	switch {
	case a.panicS != "":
		a.implLine = "panic " + strings.ReplaceAll(a.panicS, "\n", " ")
	case a.ok:
		eb := 0
		if v.EmitBounds {
			eb = 1
		}
		var bm, rt []int
		for _, p := range g.Prods {
			if f, ok := v.ActionMethods[p]; ok {
				bm = append(bm, methodIdx[f])
			} else {
				bm = append(bm, -1)
			}
		}
		for _, r := range g.Rules {
			rt = append(rt, reg.canon(v.RuleGoTypes[r]))
		}
		a.implLine = fmt.Sprintf("ok %d | %s | %s", eb, joinInts(bm), joinInts(rt))
		// the binding of the view must be the binding the real run emitted
		if why := a.checkEmitted(); why != "" {
			a.oracle = append(a.oracle, "C06: "+why)
		}
	default:
		a.implLine = strings.TrimSpace("fail " + strings.Join(a.canonDiags(a.diag), " "))
	}
}

// `case 3:` or a merged `case 3, 4, 5:` (a harmless merge of identical cases must not raise an alarm)
var reActCase = regexp.MustCompile(`case ((?:\d+\s*,\s*)*\d+):\s*return p\.(\w+)\(`)

// checkEmitted compares parser.gen.go written by the real run with the view's binding.
func (a *apkg) checkEmitted() string {
	data, err := os.ReadFile(filepath.Join(a.dir, "parser.gen.go"))
	if err != nil {
		return "lox exit 0 but parser.gen.go is missing"
	}
	got := map[int]string{}
	for _, m := range reActCase.FindAllStringSubmatch(string(data), -1) {
		for _, ks := range strings.Split(m[1], ",") {
			k, _ := strconv.Atoi(strings.TrimSpace(ks))
			got[k] = m[2]
		}
	}
	for i, p := range a.view.Grammar.Prods {
		if f, ok := a.view.ActionMethods[p]; ok {
			if got[i] != f.Name() {
				return fmt.Sprintf("emitted _act binds production %d to %q, AssignActions chose %q", i, got[i], f.Name())
			}
		}
	}
	if a.view.EmitBounds != strings.Contains(string(data), "Bounds _Bounds") {
		return "emitted parser and EmitBounds disagree"
	}
	if !a.view.AssignOK {
		return "codegen.Generate succeeded but AssignActions on the same package failed"
	}
	return ""
}

// ---------------------------------------------------------------------------------------------
// the property statement, evaluated with go/types on the sugar grammar

func (a *apkg) expect() {
	v := a.view
	s := a.Spec
	type om struct {
		f    *gotypes.Func
		sig  *gotypes.Signature
		rule int
	}
	ruleIdx := map[string]int{}
	for i, r := range s.Rules {
		ruleIdx[r.Name] = i
	}
	var oms []*om
	reject := func(format string, args ...any) {
		if a.expectWhy == "" {
			a.expectWhy = fmt.Sprintf(format, args...)
		}
	}
	var all []*gotypes.Func
	if os.Getenv("VERIF_C06_PROMOTED") == "1" {
		// the method set of *P, promoted methods included
		mset := gotypes.NewMethodSet(gotypes.NewPointer(v.ParserType))
		for i := 0; i < mset.Len(); i++ {
			if f, ok := mset.At(i).Obj().(*gotypes.Func); ok {
				all = append(all, f)
			}
		}
	} else {
		for i := 0; i < v.ParserType.NumMethods(); i++ {
			all = append(all, v.ParserType.Method(i))
		}
	}
	for _, f := range all {
		name := f.Name()
		if !strings.HasPrefix(name, "on_") {
			continue
		}
		sig := f.Type().(*gotypes.Signature)
		rn := name[3:]
		if k := strings.Index(rn, "__"); k >= 0 {
			rn = rn[:k]
		}
		if sig.Results().Len() != 1 {
			reject("method %s returns %d values", name, sig.Results().Len())
			continue
		}
		if sig.Variadic() {
			reject("method %s is variadic", name)
			continue
		}
		ri, ok := ruleIdx[rn]
		if !ok {
			reject("method %s names no rule", name)
			continue
		}
		oms = append(oms, &om{f, sig, ri})
	}
	ruleTy := make([]gotypes.Type, len(s.Rules))
	for _, m := range oms {
		t := m.sig.Results().At(0).Type()
		if ruleTy[m.rule] == nil {
			ruleTy[m.rule] = t
		} else if !gotypes.Identical(ruleTy[m.rule], t) {
			reject("methods of rule %s return different types", s.Rules[m.rule].Name)
		}
	}
	for ri, t := range ruleTy {
		if t == nil {
			reject("rule %s has no action method", s.Rules[ri].Name)
		}
	}
	a.optional = map[string][]bool{}
	if a.expectWhy != "" {
		return
	}
	var termTy func(t *GTerm) gotypes.Type
	termTy = func(t *GTerm) gotypes.Type {
		switch t.Kind {
		case KTok:
			return v.TokenType
		case KErr:
			return v.ErrorType
		case KRule:
			return ruleTy[t.Rule]
		case KOpt:
			return termTy(t.Child)
		default:
			return gotypes.NewSlice(termTy(t.Child))
		}
	}
	used := map[*om]bool{}
	a.uniq = nil
	for ri, r := range s.Rules {
		for pi, p := range r.Prods {
			var hit []*om
			for _, m := range oms {
				if m.rule != ri || m.sig.Params().Len() != len(p.Terms) {
					continue
				}
				good := true
				for k, t := range p.Terms {
					if !gotypes.AssignableTo(termTy(t), m.sig.Params().At(k).Type()) {
						good = false
					}
				}
				if good {
					hit = append(hit, m)
				}
			}
			switch len(hit) {
			case 0:
				reject("production %d of rule %s has no matching method", pi, r.Name)
				a.uniq = append(a.uniq, "")
			case 1:
				used[hit[0]] = true
				a.uniq = append(a.uniq, hit[0].f.Name())
				opt := a.optional[hit[0].f.Name()]
				if opt == nil {
					opt = make([]bool, len(p.Terms))
				}
				for k, t := range p.Terms {
					if t.Kind == KOpt {
						opt[k] = true
					}
				}
				a.optional[hit[0].f.Name()] = opt
			default:
				reject("production %d of rule %s has %d matching methods", pi, r.Name, len(hit))
				a.uniq = append(a.uniq, "")
			}
		}
	}
	for _, m := range oms {
		if !used[m] {
			reject("method %s matches no production", m.f.Name())
		}
	}
	a.expectOK = a.expectWhy == ""
}

// ---------------------------------------------------------------------------------------------
// runs of the compiled parser

// checkRun replays the log of one run: every id handed to an action must be the id of a value
// that was produced (by the lexer or by an action) and not yet consumed; 0 is a zero value.
func (a *apkg) checkRun(w []int, out string, clean bool) string {
	if strings.HasPrefix(out, "panic") || out == "crash" {
		return "generated parser panicked: " + out
	}
	if out == "timeout" {
		return ""
	}
	evs := strings.Split(out, " ; ")
	acc := evs[0] == "acc"
	n := len(w)
	live := map[int]bool{}
	for i := 1; i <= n; i++ {
		live[i] = true
	}
	sepTok := map[int]bool{}
	var walk func(t *GTerm)
	walk = func(t *GTerm) {
		if t == nil {
			return
		}
		if (t.Kind == KList || t.Kind == KListOpt) && t.Sep.Kind == KTok {
			sepTok[t.Sep.Tok] = true
		}
		walk(t.Child)
	}
	for _, r := range a.Spec.Rules {
		for _, p := range r.Prods {
			for _, t := range p.Terms {
				walk(t)
			}
		}
	}
	last := 0
	sawErr := false
	for _, e := range evs[1:] {
		f := strings.Fields(e)
		if len(f) < 3 || f[0] != "A" {
			return "harness: unreadable event " + e
		}
		m := f[1]
		id, _ := strconv.Atoi(f[2])
		opt := a.optional[m]
		for k, kid := range f[3:] {
			if strings.HasPrefix(kid, "?") {
				return "harness: value of unknown dynamic type " + kid + " in " + e
			}
			isList := strings.HasPrefix(kid, "[")
			body := strings.Trim(kid, "[]")
			var parts []string
			if body != "" {
				parts = strings.Split(body, ",")
			}
			for _, part := range parts {
				if strings.HasPrefix(part, "E") {
					sawErr = true
					x, _ := strconv.Atoi(part[1:])
					if x == 0 && !(!isList && k < len(opt) && opt[k]) { // (an absent @error? is a zero Error)
						return fmt.Sprintf("parameter %d of %s received a zero Error (%s)", k, m, e)
					}
					continue
				}
				x, err := strconv.Atoi(part)
				if err != nil {
					return "harness: unreadable id " + part
				}
				if x == 0 {
					if !isList && k < len(opt) && opt[k] {
						continue // absent x?
					}
					return fmt.Sprintf("parameter %d of %s received a substituted zero value (%s)", k, m, e)
				}
				if !live[x] {
					return fmt.Sprintf("parameter %d of %s received id %d, which is not the value produced for its term (%s)", k, m, x, e)
				}
				delete(live, x)
			}
		}
		live[id] = true
		last = id
	}
	if acc && clean && !sawErr {
		delete(live, last)
		for x := range live {
			if x >= 1 && x <= n && sepTok[w[x-1]] {
				continue
			}
			return fmt.Sprintf("value %d was produced but never delivered to an action (a parameter was replaced by a zero value?)", x)
		}
	}
	return ""
}

// ---------------------------------------------------------------------------------------------

func init() {
	register("assign", "Go packages with random type shapes and action-method layouts through the real generator (C06)", func(c *Ctx) {
		if c.Replay != nil {
			for _, l := range c.Replay {
				c.Emit(l, "replay-needs-the-package: re-run the family with the recorded seed")
			}
			return
		}
		root, err := os.MkdirTemp("", "verif-assign-")
		if err != nil {
			panic(err)
		}
		defer os.RemoveAll(root)
		WriteModule(root)
		os.MkdirAll(filepath.Join(root, "helper"), 0o755)
		os.WriteFile(filepath.Join(root, "helper", "helper.go"), []byte(assignHelperSrc), 0o644)
		t0 := time.Now()
		lap := func(what string) {
			if os.Getenv("VERIF_C06_TIMING") == "1" {
				fmt.Fprintf(os.Stderr, "assign: %-32s %6.1fs\n", what, time.Since(t0).Seconds())
			}
		}

		opts := GenOpts{MaxTokens: 4, MaxRules: 4, MaxProds: 3, MaxTerms: 3, Sugar: true, Errors: true}
		if c.Tier == "thorough" {
			opts = GenOpts{MaxTokens: 5, MaxRules: 6, MaxProds: 4, MaxTerms: 4, Sugar: true, Errors: true}
		}
		pkgs := directedAssignPkgs()
		nd := len(pkgs)
		for tries := 0; len(pkgs) < c.N+nd && tries < c.N*30; tries++ {
			s := GenSpec(c.Rng, opts)
			stripStarF(s)
			fr := RunFront(s.Lox())
			if !fr.OK || fr.Table.HasConflicts {
				c.Count("grammar-rejected-or-conflicts")
				continue
			}
			pkgs = append(pkgs, genAssignPkg(c.Rng, fmt.Sprintf("g%04d", len(pkgs)-nd), s))
		}
		lap("packages generated")
		// run lox on every package, 16 at a time
		var wg sync.WaitGroup
		sem := make(chan struct{}, 16)
		for _, a := range pkgs {
			wg.Add(1)
			go func(a *apkg) {
				defer wg.Done()
				sem <- struct{}{}
				defer func() { <-sem }()
				a.dir = filepath.Join(root, a.Name)
				os.MkdirAll(a.dir, 0o755)
				for f, txt := range a.Files {
					os.WriteFile(filepath.Join(a.dir, f), []byte(txt), 0o644)
				}
				a.viewFset = gotoken.NewFileSet()
				var vbuf bytes.Buffer
				a.view = codegen.VerifAssignView(&codegen.Config{Fset: a.viewFset, Errs: errlogger.New(a.viewFset, &vbuf), Dir: a.dir})
				a.viewErr = vbuf.String()
				a.ok, a.diag, _, a.panicS = runGenerate(a.dir, false)
			}(a)
		}
		wg.Wait()
		lap("lox ran on every package")

		var good []*apkg
		for _, a := range pkgs {
			c.Extra["src:"+a.Name] = map[string]any{"faults": a.Faults, "ruleTypes": a.RuleTy, "token": atokVariants[a.Tok].Decl,
				"g.lox": a.Files["g.lox"], "m.go": a.Files["m.go"], "a.go": a.Files["a.go"]}
			if a.view.Stage != "" || a.view.ParserType == nil {
				// the package is outside the property's precondition (does not type-check …): a defect of
				// this generator, not of lox
				c.Count("skipped:" + a.view.Stage)
				c.Extra["skipped:"+a.Name] = trunc(a.viewErr+a.view.Panic, 600)
				continue
			}
			if a.view.Panic != "" && a.panicS == "" {
				a.oracle = append(a.oracle, "C06: AssignActions panicked in the view but not in codegen.Generate: "+a.view.Panic)
			}
			a.expect()
			a.buildLines()
			good = append(good, a)
			for _, f := range a.Faults {
				c.Count("fault:" + f)
			}
			if len(a.Faults) == 0 {
				c.Count("fault:none")
			}
			c.Count("token-variant-" + strconv.Itoa(a.Tok))
			switch {
			case a.panicS != "":
				c.Count("lox-panic")
				a.oracle = append(a.oracle, "C12: generator panicked: "+a.panicS)
			case a.ok:
				c.Count("lox-accepts")
			default:
				c.Count("lox-rejects")
				for _, d := range a.canonDiags(a.diag) {
					c.Count("diag:" + strings.SplitN(d, ":", 2)[0])
				}
			}
			if a.panicS == "" && a.ok != a.expectOK {
				if a.expectOK {
					a.oracle = append(a.oracle, "C06: verdict differs from the property statement (expected accept: every clause holds; lox rejected: "+
						strings.Join(a.canonDiags(a.diag), " ")+")")
				} else {
					a.oracle = append(a.oracle, "C06: verdict differs from the property statement (expected reject because "+a.expectWhy+"; lox accepted)")
				}
			}
			if a.ok && a.expectOK {
				// the binding must be the unique matching method of every production
				k := 0
				for _, p := range a.view.Grammar.Prods {
					if string(codegen.RuleGenerated(p.Rule)) != "not_generated" {
						continue
					}
					if k < len(a.uniq) {
						if f := a.view.ActionMethods[p]; f == nil || f.Name() != a.uniq[k] {
							a.oracle = append(a.oracle, fmt.Sprintf("C06: production %d is bound to a method other than its unique match %s", p.Index, a.uniq[k]))
						}
					}
					k++
				}
				if k != len(a.uniq) {
					a.oracle = append(a.oracle, "harness: user productions of the lr1 grammar and of the sugar grammar do not line up")
				}
			}
		}

		// compile what lox accepted
		var accepted []*apkg
		for _, a := range good {
			if a.ok {
				accepted = append(accepted, a)
			}
		}
		if len(accepted) > 0 {
			args := []string{"build"}
			for _, a := range accepted {
				args = append(args, "./"+a.Name)
			}
			cmd := exec.Command("go", args...)
			cmd.Dir = root
			cmd.Env = append(os.Environ(), "GOFLAGS=-mod=mod", "GOPROXY=off", "GOSUMDB=off", "GOTOOLCHAIN=local")
			outb, _ := cmd.CombinedOutput()
			lap("go build of accepted packages")
			failed := map[string][]string{}
			curp := ""
			for _, l := range strings.Split(string(outb), "\n") {
				if strings.HasPrefix(l, "# verifgen/") {
					curp = strings.Fields(strings.TrimPrefix(l, "# verifgen/"))[0]
					continue
				}
				if curp != "" && strings.TrimSpace(l) != "" {
					failed[curp] = append(failed[curp], strings.TrimSpace(l))
				}
			}
			var runnable []*apkg
			for _, a := range accepted {
				if msgs, bad := failed[a.Name]; bad {
					c.Count("compile-failed")
					if len(msgs) > 4 {
						msgs = msgs[:4]
					}
					a.oracle = append(a.oracle, "C06: lox exit 0 but package does not compile: "+strings.Join(msgs, " ⏎ "))
				} else {
					a.compiled = true
					runnable = append(runnable, a)
				}
			}
			if len(failed) == 0 && bytes.Contains(outb, []byte("rror")) {
				c.Extra["go-build-output"] = trunc(string(outb), 2000)
			}
			c.Counters["compiled"] += len(runnable)
			if len(runnable) > 0 {
				var names []string
				for _, a := range runnable {
					names = append(names, a.Name)
				}
				bin, err := BuildMux(root, names)
				lap("multiplexer built")
				if err != nil {
					c.Extra["mux-build-error"] = trunc(err.Error(), 2000)
					for _, a := range runnable {
						a.oracle = append(a.oracle, "harness: multiplexer build failed")
					}
				} else {
					type rq struct {
						a     *apkg
						w     []int
						clean bool
					}
					var reqs []string
					var meta []rq
					for _, a := range runnable {
						consts, _, _ := readConsts(filepath.Join(a.dir, "base.gen.go"))
						tt := []int{}
						for _, name := range a.Spec.Tokens {
							tt = append(tt, consts[name])
						}
						seen := map[string]bool{}
						add := func(w []int, clean bool) {
							k := fmt.Sprint(w)
							if seen[k] || len(w) > 40 {
								return
							}
							seen[k] = true
							xs := make([]string, len(w))
							for i, t := range w {
								if t < 0 {
									xs[i] = strconv.Itoa(consts["ERROR"])
								} else {
									xs[i] = strconv.Itoa(tt[t])
								}
							}
							reqs = append(reqs, strings.TrimSpace(fmt.Sprintf("%s 4000 %s", a.Name, strings.Join(xs, " "))))
							meta = append(meta, rq{a, append([]int(nil), w...), clean})
						}
						ns := 10
						if c.Tier == "thorough" {
							ns = 30
						}
						for k := 0; k < ns; k++ {
							if w, ok := RandomSentence(c.Rng, a.Spec, 6+c.Rng.Intn(10)); ok {
								add(w, !a.Spec.UsesPrec())
								if len(w) > 0 && k%3 == 0 {
									v := append([]int(nil), w...)
									i := c.Rng.Intn(len(v))
									switch c.Rng.Intn(3) {
									case 0:
										v[i] = c.Rng.Intn(len(a.Spec.Tokens))
									case 1:
										v[i] = -1
									default:
										v = append(v[:i], v[i+1:]...)
									}
									add(v, false)
								}
							}
						}
						add(nil, false)
						for _, w := range a.Extra {
							add(w, true)
						}
					}
					outs := RunMux(bin, reqs)
					lap("runs done")
					for i, o := range outs {
						a := meta[i].a
						c.Counters["runs"]++
						clean := meta[i].clean && Member(a.Spec, meta[i].w)
						if strings.HasPrefix(o, "acc") {
							c.Counters["runs-accepted"]++
						}
						if why := a.checkRun(meta[i].w, o, clean); why != "" && len(a.oracle) < 3 {
							tag := "C06: parameter received a substituted zero value"
							if strings.HasPrefix(why, "harness") {
								tag = "harness"
							}
							a.oracle = append(a.oracle, fmt.Sprintf("%s: %s; input %v; run %s", tag, why, meta[i].w, trunc(o, 400)))
						}
					}
				}
			}
		}

		for _, a := range good {
			head := fmt.Sprintf("# pkg %s faults=%v expect=%v", a.Name, a.Faults, a.expectOK)
			c.Emit(head, head)
			c.EmitO(a.caseLine, a.implLine, strings.Join(a.oracle, " ;; "))
			// the hypotheses (WF, IdentEquiv) under which the theorems of Lox.Props.C06 speak about this case
			c.Emit("dec.assignwf "+strings.TrimPrefix(a.caseLine, "dec.assign "), "wf=1 ident=1")
			c.Distinct(a.caseLine)
			if len(a.oracle) > 0 {
				c.Count("oracle-hits")
			}
		}
		lap("done")
	})
}
