//go:build verif

package main

import (
	"fmt"
	"os"
	"strings"

	"github.com/dcaiafa/lox/internal/parsergen/lr1"
)

// Family emit (C01, C10): the arrays `_rules`, `_termCounts`, `_actions`, `_goto` the REAL generator
// (codegen.Generate: front end, ConstructLALR, EmitParser, table.AddRow/Array, WriteArray) writes
// into parser.gen.go, against the Lean model `Lox.LR.Emit.generateP` = `Cons.construct` then
// `Emit.emitParserP` (lean/Lox/LR/EmitModel.lean; theorems Lox.Props.C01.generator_valid,
// generator_safe, emit_find_actions, emit_find_goto in lean/Lox/Props/C01_e2e.lean): number for
// number.
//
// Protocol
//
//	lr.emit <nTerms> <nRules> | <prods> | <ord> [| <prodinfo>]
//	  prods     productions separated by ';', each `lhs s1 s2 …` (terminal k = k, rule A = -(A+1))
//	  ord       all terminals and rules in the order of their names (ActionMap.Terminals sorts by
//	            Terminal.Name, TransitionMap.Inputs and Next by TermName())
//	  prodinfo  `rule prec right` per production, separated by ';'; the section is omitted when no
//	            production carries a precedence (the model then runs `emitParser` = no resolution)
//	  answer    `<rules> | <termCounts> | <actions> | <goto>` read back from the emitted parser.gen.go;
//	            `conflicts` for a grammar lox refuses with "grammar has conflicts" (the model answers
//	            the same from its own HasConflicts); `panic` if the generator panicked.
//
// Sources: the curated grammars of the families lrgen and conflict (conflict-free ones are emitted,
// refused ones give `conflicts`), expression grammars over random operator tables (every conflict
// resolved by precedence: the emitted action is the first action of the cell AFTER
// resolveConflicts), random sugar grammars with and without precedences.
//
// Oracle column: emitOracle, the documented _Find addressing on the arrays read back, against the
// action cells and transitions of the real ParserTable of the same grammar (C10 stated directly).
//
// Replay of a case line: a plain (sugar-free) .lox text with names that sort like `ord` is rebuilt
// from the line and pushed through the real generator; the line is answered only if the front end
// reproduces exactly the grammar, name order and precedences of the line (otherwise
// `replay-unsupported`: the numbering of a desugared grammar cannot always be reproduced from a
// plain one).

func emitInfosUsed(g *lr1.Grammar) bool {
	for _, p := range g.Prods {
		if p.Precedence != 0 || p.Associativity == lr1.Right {
			return true
		}
	}
	return false
}

func emitCaseLine(g *lr1.Grammar, ord []int) string {
	line := fmt.Sprintf("lr.emit %d %d | %s | %s", len(g.Terminals), len(g.Rules), grammarLine(g), joinInts(ord))
	if emitInfosUsed(g) {
		line += " | " + fmtInfos(grammarInfos(g))
	}
	return line
}

func emitAnswer(p *GenPkg) string {
	return joinI64(p.Rules) + " | " + joinI64(p.TermCounts) + " | " + joinI64(p.Actions) + " | " + joinI64(p.Goto)
}

// hand-written precedence grammars: conflicts settled by @left/@right (one-rule S/R pairs), mixed
// with conflict-free parts; dangling else settled by precedence on both productions
var emitPrecCurated = []func() *GSpec{
	func() *GSpec { // e = e PLUS e @left(1) | e STAR e @left(2) | NUM
		s := ParseGSpec("e = e PLUS e | e STAR e | NUM")
		s.Rules[0].Prods[0].Prec, s.Rules[0].Prods[1].Prec = 1, 2
		return s
	},
	func() *GSpec { // e = e POW e @right(3) | e MINUS e @left(1) | LP e RP | NUM
		s := ParseGSpec("e = e POW e | e MINUS e | LP e RP | NUM")
		s.Rules[0].Prods[0].Prec, s.Rules[0].Prods[0].Right = 3, true
		s.Rules[0].Prods[1].Prec = 1
		return s
	},
	func() *GSpec { // s = IF s @left(1) | IF s ELSE s @left(2) | X
		s := ParseGSpec("s = IF s | IF s ELSE s | X")
		s.Rules[0].Prods[0].Prec, s.Rules[0].Prods[1].Prec = 1, 2
		return s
	},
	func() *GSpec { // statements around an expression rule
		s := ParseGSpec("prog = stmt* ; stmt = ID EQ e SEMI | e SEMI ; e = e PLUS e | e STAR e | ID | NUM | LP e RP")
		s.Rules[2].Prods[0].Prec, s.Rules[2].Prods[1].Prec = 1, 2
		return s
	},
	func() *GSpec { // unary minus with the highest level
		s := ParseGSpec("e = e MINUS e | MINUS e | e STAR e | NUM")
		s.Rules[0].Prods[0].Prec, s.Rules[0].Prods[1].Prec, s.Rules[0].Prods[2].Prec = 1, 3, 2
		return s
	},
}

// emitRebuild turns a case line back into a plain GSpec whose names sort like `ord`.
func emitRebuild(line string) (s *GSpec, want string, err error) {
	_, payload, _ := strings.Cut(line, " ")
	secs := strings.Split(payload, "|")
	if len(secs) != 3 && len(secs) != 4 {
		return nil, "", fmt.Errorf("expected 3 or 4 sections")
	}
	g, err := gmDecode(strings.TrimSpace(secs[0]), secs[1])
	if err != nil {
		return nil, "", err
	}
	ord, err := gmInts(secs[2])
	if err != nil {
		return nil, "", err
	}
	if len(ord) != len(g.Terminals)+len(g.Rules) || len(g.Prods) == 0 || len(g.Prods[0].Terms) != 1 {
		return nil, "", fmt.Errorf("ord / production 0 malformed")
	}
	// names: EOF, ERROR and S' are fixed by the front end; every other symbol gets an (all
	// uppercase: token names must be) name that falls into the right gap between them
	fixed := map[int]string{0: "EOF", 1: "ERROR", -1: "S'"}
	names := map[int]string{}
	between := func(lo, hi string) (string, bool) {
		for _, p := range []string{"A", "EOG", "EP", "ES", "F", "SZ", "T", "TA"} {
			if (lo == "" || lo < p) && (hi == "" || p+"~" < hi) {
				return p, true
			}
		}
		return "", false
	}
	lastFixed := ""
	for k, code := range ord {
		if f, ok := fixed[code]; ok {
			if f < lastFixed {
				return nil, "", fmt.Errorf("EOF/ERROR/S' not in name order")
			}
			lastFixed = f
			continue
		}
		hi := ""
		for _, c2 := range ord[k+1:] {
			if f, ok := fixed[c2]; ok {
				hi = f
				break
			}
		}
		p, ok := between(lastFixed, hi)
		if !ok {
			return nil, "", fmt.Errorf("no name fits between %q and %q", lastFixed, hi)
		}
		names[code] = fmt.Sprintf("%s%04d", p, k)
	}
	startRule, ok := g.Prods[0].Terms[0].(*lr1.Rule)
	if !ok || startRule.Index != 1 {
		return nil, "", fmt.Errorf("start rule is not rule 1")
	}
	s = &GSpec{}
	for i := 2; i < len(g.Terminals); i++ {
		s.Tokens = append(s.Tokens, names[i])
	}
	var infos []string
	if len(secs) == 4 {
		infos = strings.Split(secs[3], ";")
	}
	for ri := 1; ri < len(g.Rules); ri++ {
		gr := &GRule{Name: names[-(ri + 1)]}
		for _, p := range g.Rules[ri].Prods {
			gp := &GProd{}
			for _, t := range p.Terms {
				switch t := t.(type) {
				case *lr1.Terminal:
					switch {
					case t.Index == 1:
						gp.Terms = append(gp.Terms, &GTerm{Kind: KErr})
					case t.Index >= 2:
						gp.Terms = append(gp.Terms, &GTerm{Kind: KTok, Tok: t.Index - 2})
					default:
						return nil, "", fmt.Errorf("EOF on a right-hand side")
					}
				case *lr1.Rule:
					if t.Index == 0 {
						return nil, "", fmt.Errorf("S' on a right-hand side")
					}
					gp.Terms = append(gp.Terms, &GTerm{Kind: KRule, Rule: t.Index - 1})
				}
			}
			if p.Index < len(infos) {
				f := strings.Fields(infos[p.Index])
				if len(f) == 3 {
					fmt.Sscan(f[1], &gp.Prec)
					gp.Right = f[2] == "1"
				}
			}
			gr.Prods = append(gr.Prods, gp)
		}
		if len(gr.Prods) == 0 {
			return nil, "", fmt.Errorf("rule without productions")
		}
		s.Rules = append(s.Rules, gr)
	}
	if len(s.Rules) == 0 || len(s.Tokens) == 0 {
		return nil, "", fmt.Errorf("no rules / tokens")
	}
	return s, strings.TrimSpace(line), nil
}

// emitFind is the generated _Find on an array read back from parser.gen.go; oob = it would index
// out of range (a Go panic in the generated parser).
func emitFind(table []int64, y, x int) (v int64, ok bool, oob bool) {
	if y < 0 || y >= len(table) {
		return 0, false, true
	}
	i := int(table[y])
	if i < 0 || i >= len(table) {
		return 0, false, true
	}
	count := int(table[i])
	i++
	end := i + count
	for ; i < end; i += 2 {
		if i+1 >= len(table) || i < 0 {
			return 0, false, true
		}
		if table[i] == int64(x) {
			return table[i+1], true, false
		}
	}
	return 0, false, false
}

// emitOracle is the property's own reading of the emitted arrays (C10: the tables are faithful to
// the automaton they encode; C01 rests on it): for every state and every terminal, _Find(_actions)
// returns the code of the action the real ParserTable holds for that cell (its only action, or the
// first one) and misses where the table has no cell; for every rule, _Find(_goto) returns the
// transition; _rules/_termCounts are the left-hand sides / lengths. "" = holds.
func emitOracle(g *lr1.Grammar, t *lr1.ParserTable, p *GenPkg) string {
	const accept = 2147483647
	if len(p.Rules) != len(g.Prods) || len(p.TermCounts) != len(g.Prods) {
		return fmt.Sprintf("C10: _rules/_termCounts have %d/%d entries for %d productions", len(p.Rules), len(p.TermCounts), len(g.Prods))
	}
	for i, pr := range g.Prods {
		if p.Rules[i] != int64(pr.Rule.Index) || p.TermCounts[i] != int64(len(pr.Terms)) {
			return fmt.Sprintf("C10: production %d: _rules=%d _termCounts=%d, grammar says rule %d with %d terms", i, p.Rules[i], p.TermCounts[i], pr.Rule.Index, len(pr.Terms))
		}
	}
	for _, st := range t.States {
		am := t.Actions(st)
		for _, term := range g.Terminals {
			got, ok, oob := emitFind(p.Actions, st.Index, term.Index)
			if oob {
				return fmt.Sprintf("C10: _Find(_actions, %d, %d) indexes out of range", st.Index, term.Index)
			}
			cell := am.Get(term)
			if cell.Len() == 0 {
				if ok {
					return fmt.Sprintf("C10: _actions has the entry %d for state %d on terminal %s, the parser table has no action there", got, st.Index, term.Name)
				}
				continue
			}
			a := cell.Get(0)
			var want int64
			switch a.Type {
			case lr1.ActionShift:
				want = int64(a.ShiftState.Index)
			case lr1.ActionReduce:
				want = -int64(a.Prods[0].Index)
			case lr1.ActionAccept:
				want = accept
			}
			if !ok || got != want {
				return fmt.Sprintf("C10: state %d on terminal %s: the parser table says %s (code %d), _Find(_actions) returns (%d, %v)", st.Index, term.Name, a.ToString(g), want, got, ok)
			}
		}
		tr := t.Transitions(st)
		has := map[int]int{}
		for _, in := range tr.Inputs() {
			if r, isRule := in.(*lr1.Rule); isRule {
				has[r.Index] = tr.Get(in).Index
			}
		}
		for _, r := range g.Rules {
			got, ok, oob := emitFind(p.Goto, st.Index, r.Index)
			if oob {
				return fmt.Sprintf("C10: _Find(_goto, %d, %d) indexes out of range", st.Index, r.Index)
			}
			want, exists := has[r.Index]
			if exists != ok || (ok && got != int64(want)) {
				return fmt.Sprintf("C10: state %d on rule %s: the parser table has transition (%d, %v), _Find(_goto) returns (%d, %v)", st.Index, r.Name, want, exists, got, ok)
			}
		}
	}
	return ""
}

func init() {
	register("emit", "_rules/_termCounts/_actions/_goto of the emitted parser.gen.go vs the Lean model of ConstructLALR+EmitParser (C01 C10)", func(c *Ctx) {
		root, err := os.MkdirTemp("", "verif-emit-")
		if err != nil {
			panic(err)
		}
		defer os.RemoveAll(root)
		WriteModule(root)

		type job struct {
			spec *GSpec
			tag  string
		}
		var jobs []job
		replayWant := map[int]string{}
		if c.Replay != nil {
			for _, l := range c.Replay {
				if !strings.HasPrefix(l, "lr.emit ") {
					c.Emit(l, "bad-op")
					continue
				}
				s, want, err := emitRebuild(l)
				if err != nil {
					c.Emit(l, "replay-unsupported")
					c.Count("replay-unsupported")
					continue
				}
				replayWant[len(jobs)] = want
				jobs = append(jobs, job{s, "replayed"})
			}
		} else {
			for _, txt := range curatedGrammars {
				jobs = append(jobs, job{ParseGSpec(txt), "curated"})
			}
			for _, txt := range conflictCurated {
				jobs = append(jobs, job{ParseGSpec(txt), "curated"})
			}
			for _, f := range emitPrecCurated {
				jobs = append(jobs, job{f(), "curated-prec"})
			}
			np := c.N / 4
			if np < 3 {
				np = 3
			}
			for i := 0; i < np; i++ {
				ml, mo := 3, 2
				if c.Tier == "thorough" {
					ml, mo = 5, 3
				}
				s, _ := precSpec(c.Rng, ml, mo)
				jobs = append(jobs, job{s, "optable"})
			}
			o := GenOpts{MaxTokens: 4, MaxRules: 4, MaxProds: 3, MaxTerms: 4, Sugar: true, Errors: true, Prec: false}
			if c.Tier == "thorough" {
				o = GenOpts{MaxTokens: 5, MaxRules: 6, MaxProds: 4, MaxTerms: 5, Sugar: true, Errors: true, Prec: false}
			}
			// random grammars are mostly refused (conflicts); draw until c.N accepted ones are likely
			for i := 0; i < 6*c.N; i++ {
				oo := o
				oo.Prec = i%3 == 2
				tag := "random"
				if oo.Prec {
					tag = "random-prec"
				}
				jobs = append(jobs, job{GenSpec(c.Rng, oo), tag})
			}
		}
		var names, loxs, gos []string
		for i, j := range jobs {
			name := fmt.Sprintf("m%05d", i)
			names = append(names, name)
			loxs = append(loxs, j.spec.Lox())
			gos = append(gos, j.spec.GoSource(name))
		}
		accepted := map[string]int{}
		const batch = 64
		for lo := 0; lo < len(jobs); lo += batch {
			hi := lo + batch
			if hi > len(jobs) {
				hi = len(jobs)
			}
			pkgs := GenerateAll(root, names[lo:hi], loxs[lo:hi], gos[lo:hi], false)
			for k, p := range pkgs {
				idx := lo + k
				tag := jobs[idx].tag
				flat := strings.ReplaceAll(strings.TrimSpace(p.Lox), "\n", " ⏎ ")
				want, isReplay := replayWant[idx]
				unsupported := func() {
					c.Emit(want, "replay-unsupported")
					c.Count("replay-unsupported")
				}
				func() {
					defer os.RemoveAll(p.Dir)
					if c.Replay == nil && (tag == "random" || tag == "random-prec") && accepted[tag] >= c.N && p.OK {
						return // enough accepted random grammars of this kind
					}
					conflicts := !p.OK && p.Panic == "" && strings.Contains(p.Diag, "grammar has conflicts")
					if !p.OK && p.Panic == "" && !conflicts {
						if os.Getenv("VERIF_EMIT_DEBUG") != "" {
							fmt.Fprintf(os.Stderr, "emit: rejected %s: %s\n", flat, strings.TrimSpace(p.Diag))
						}
						if isReplay {
							unsupported()
						}
						c.Count(tag + "-front-end-rejected")
						return
					}
					fr := RunFront(p.Lox)
					if !fr.OK || fr.Grammar == nil || fr.Table == nil {
						if isReplay {
							unsupported()
						}
						c.Count(tag + "-front-end-rejected")
						return
					}
					if len(fr.Table.States) > 400 {
						if isReplay {
							unsupported()
						}
						c.Count("skipped-big")
						return
					}
					ord, dup := nameOrder(fr.Grammar)
					if dup {
						if isReplay {
							unsupported()
						}
						c.Count("skipped-duplicate-names")
						return
					}
					line := emitCaseLine(fr.Grammar, ord)
					if isReplay && line != want {
						unsupported()
						return
					}
					var ans, orc string
					switch {
					case p.Panic != "":
						ans = "panic"
						c.Count(tag + "-generator-panic")
					case conflicts:
						if !fr.Table.HasConflicts {
							c.EmitO("# emit: generator and front end disagree on "+flat, "refused", "C04: codegen.Generate refuses a grammar for conflicts that parse+analyze+ConstructLALR accepts | grammar: "+flat)
							return
						}
						if c.Replay == nil && accepted[tag+"-conflicts"] >= 2*c.N+40 {
							return
						}
						accepted[tag+"-conflicts"]++
						ans = "conflicts"
						c.Count(tag + "-conflicts")
					default:
						if fr.Table.HasConflicts {
							c.EmitO("# emit: generator and front end disagree on "+flat, "accepted", "C04: codegen.Generate accepted a grammar that parse+analyze+ConstructLALR rejects | grammar: "+flat)
							return
						}
						ans = emitAnswer(p)
						if o := emitOracle(fr.Grammar, fr.Table, p); o != "" {
							orc = o + " | grammar: " + flat
						}
						accepted[tag]++
						c.Count(tag + "-accepted")
						if emitInfosUsed(fr.Grammar) {
							c.Count("accepted-with-precedence")
						}
					}
					if c.Distinct(line) {
						c.Count("distinct")
					}
					note := "# emit " + tag + " " + flat
					c.Emit(note, note)
					c.EmitO(line, ans, orc)
				}()
			}
		}
		c.Extra["accepted"] = accepted
	})
}
