//go:build verif

package main

// Family `classtext` (C15): character-class expressions as TEXT through the real front end.
//
// A class is generated as a list of written items (single characters and ranges `a-b`), every
// character in one of its spellings (plain, raw UTF-8, \n \r \t \\ \-, \xHH, \uXXXX, \UXXXXXXXX;
// an escaped dash in every position), optionally negated and optionally followed by a difference
// `-[...]`. The text goes through parser.Parse + Analyze of /repo; the answer is
// `GetRanges()` of the rule's class expression.
//
//   case line   rang3.classitems <neg> | c f c f … [ ; <neg> | c f … ]
//               the TOKENS of each class: code point and 1 for an unescaped dash (CLASS_DASH), 0 otherwise;
//               the Lean model runs `classItems` (parser.on_char_class) and `ClassExpr.eval` (GetRanges)
//   impl line   the ranges `b e b e …` returned by GetRanges, or `rejected <diagnostic>`
//   oracle      the set-theoretic meaning of the WRITTEN items (harness' own interval arithmetic)

import (
	"fmt"
	"strings"

	"github.com/dcaiafa/lox/internal/ast"
	"github.com/dcaiafa/lox/internal/lexergen/rang3"
)

type ctAtom struct {
	cp    int
	text  string
	dashT bool // an unescaped '-' standing as a character (first or last position)
}

func ctSpell(r *Rng, c int) string {
	named := map[int]string{'\n': `\n`, '\r': `\r`, '\t': `\t`, '\\': `\\`, '-': `\-`}
	var opts []string
	if s, ok := named[c]; ok {
		opts = append(opts, s, s)
	}
	plain := c > 0x20 && c < 0x7F && !strings.ContainsRune(`\-[]'~`, rune(c))
	if plain {
		opts = append(opts, string(rune(c)), string(rune(c)))
	}
	if c >= 0xA0 && !(c >= 0xD800 && c <= 0xDFFF) && c != 0xFEFF && c <= 0x10FFFF && c != 0x2028 && c != 0x2029 {
		opts = append(opts, string(rune(c))) // raw UTF-8
	}
	if c < 0x80 {
		opts = append(opts, fmt.Sprintf(`\x%02x`, c), fmt.Sprintf(`\x%02X`, c))
	}
	if c <= 0xFFFF {
		opts = append(opts, fmt.Sprintf(`\u%04x`, c), fmt.Sprintf(`\u%04X`, c))
	}
	opts = append(opts, fmt.Sprintf(`\U%08X`, c))
	return Pick(r, opts)
}

var ctAlphabet = []int{'a', 'b', 'm', 'y', 'z', 'A', 'Z', '0', '5', '9', '-', '-', '-', '+', ',', '.', '/', '_', ' ', '!', '~', '[', ']', '\'', '\\', '\n', '\t', '\r',
	0, 1, 0x7F, 0x80, 0xE9, 0x7FF, 0x800, 0xD7FF, 0xE000, 0xFFFD, 0xFFFF, 0x10000, 0x1F600, 0x10FFFF}

type ctClass struct {
	neg     bool
	text    string
	toks    []int // c f c f …
	written []RRange
	odd     bool // contains a form whose reading is not documented (dash as a character without escape)
}

func ctGenClass(r *Rng) *ctClass {
	k := &ctClass{neg: r.Chance(1, 4)}
	var sb strings.Builder
	if k.neg {
		sb.WriteString("~")
	}
	sb.WriteString("[")
	n := 1 + r.Intn(4)
	for i := 0; i < n; i++ {
		a := Pick(r, ctAlphabet)
		if r.Chance(1, 3) {
			b := Pick(r, ctAlphabet)
			if b < a {
				a, b = b, a
			}
			if a < 0xD800 && b > 0xDFFF {
				b = 0xD7FF
			}
			sb.WriteString(ctSpell(r, a) + "-" + ctSpell(r, b))
			k.toks = append(k.toks, a, 0, '-', 1, b, 0)
			k.written = append(k.written, RRange{a, b})
		} else if a == '-' && (i == 0 || i == n-1) && r.Chance(1, 4) {
			// an unescaped dash in first or last position stands for itself (it is a CLASS_DASH token)
			sb.WriteString("-")
			k.toks = append(k.toks, '-', 1)
			k.written = append(k.written, RRange{'-', '-'})
			if !(i == 0 && n > 1) && !(i == n-1) {
				k.odd = true
			}
			if i == 0 && n > 2 {
				k.odd = true // `[-ab…]`: fine by the loop, kept out of the oracle all the same
			}
		} else {
			sb.WriteString(ctSpell(r, a))
			k.toks = append(k.toks, a, 0)
			k.written = append(k.written, RRange{a, a})
		}
	}
	sb.WriteString("]")
	k.text = sb.String()
	return k
}

func (k *ctClass) payload() string {
	n := 0
	if k.neg {
		n = 1
	}
	return fmt.Sprintf("%d | %s", n, joinInts(k.toks))
}

func init() {
	register("classtext", "C15: class expressions as text through the real front end vs classItems/ClassExpr.eval and the written meaning", func(c *Ctx) {
		r := c.Rng
		run := func(l, rEx *ctClass) {
			text := l.text
			line := "rang3.classitems " + l.payload()
			want := &LClassExpr{Neg: l.neg, Items: l.written}
			if rEx != nil {
				text += "-" + rEx.text
				line += " ; " + rEx.payload()
				want.Sub = &LClassExpr{Neg: rEx.neg, Items: rEx.written}
			}
			wantSet := want.Set()
			spec := "@lexer\nT = " + text + "\nU = 'q'\n@parser\n@start s = T U\n"
			flat := strings.ReplaceAll(strings.TrimSpace(spec), "\n", " ⏎ ")
			impl := guard(func() string {
				fr := RunFront(spec)
				if fr.Ctx == nil || len(fr.Units) == 0 {
					return "rejected " + strings.ReplaceAll(strings.TrimSpace(fr.Diag), "\n", " ⏎ ")
				}
				for _, st := range fr.Units[0].Statements {
					tr, ok := st.(*ast.TokenRule)
					if !ok || tr.Name != "T" {
						continue
					}
					cc, ok := tr.Expr.Factors[0].Terms[0].Term.(*ast.LexerTermCharClass)
					if !ok {
						return "no-class-term"
					}
					var rs []rang3.Range = cc.Expr.GetRanges()
					return fmtRanges(rs)
				}
				return "rule-not-found"
			})
			or := ""
			odd := l.odd || (rEx != nil && rEx.odd)
			switch {
			case strings.HasPrefix(impl, "rejected"):
				if len(wantSet) == 0 {
					c.Count("empty-class-rejected")
					return // an empty class is outside the property (and the front end refuses it)
				}
				if !odd {
					or = "C15,C17: well-formed class expression rejected: " + impl + " | spec: " + flat
				}
			case len(wantSet) == 0:
				return
			default:
				var got []RRange
				for _, x := range parseRanges(impl) {
					got = append(got, RRange{int(x.B), int(x.E)})
				}
				if !odd && fmt.Sprint(normRanges(got)) != fmt.Sprint(wantSet) {
					or = fmt.Sprintf("C15: class expression %s denotes %v but its written items mean %v | spec: %s", text, normRanges(got), wantSet, flat)
				}
			}
			if c.Distinct(line) {
				c.Count("classes")
				if strings.Contains(text, `\-`) {
					c.Count("with-escaped-dash")
				}
				if rEx != nil {
					c.Count("with-difference")
				}
				if odd {
					c.Count("undocumented-dash-forms(model only)")
				}
			}
			c.EmitO(line, impl, or)
		}
		// directed: the documented example and its neighbours
		for _, d := range [][]int{{'a', '-', 'z'}, {'+', '-', '*', '/'}, {'-', 'a'}, {'a', '-'}, {'0', '-', '-', '9'}} {
			k := &ctClass{}
			var sb strings.Builder
			sb.WriteString("[")
			for _, x := range d {
				sb.WriteString(map[bool]string{true: `\-`, false: string(rune(x))}[x == '-'])
				k.toks = append(k.toks, x, 0)
				k.written = append(k.written, RRange{x, x})
			}
			sb.WriteString("]")
			k.text = sb.String()
			run(k, nil)
		}
		for i := 0; i < c.N; i++ {
			l := ctGenClass(r)
			var rx *ctClass
			if r.Chance(1, 4) {
				rx = ctGenClass(r)
			}
			run(l, rx)
		}
	})
}
