//go:build verif

package main

import (
	"fmt"
	"sort"
	"strconv"
	"strings"

	"github.com/dcaiafa/lox/internal/parsergen/lr1"
)

// Family resolve: the decision logic of lr1.resolveConflicts (properties C04 and C05).
//
// Protocol
//
//	dec.resolve <infos> | <cells>
//	  infos : "rule prec right" triples separated by ';'. Production i is the i-th triple (from 0);
//	          rule = rule number, prec = Prod.Precedence (0 = no qualifier), right = 1 iff @right.
//	  cells : cells separated by ';'. A cell is a ','-separated sequence of calls on the ActionMap,
//	          in call order:
//	             s T p1 p2 …   AddShift(terminal, state T, production p) once per p, in order
//	             r P           AddReduce(terminal, production P)
//	             a             AddAccept(terminal)
//	          A blank cell is an empty action array (resolveConflicts asserts on it).
//	  answer: "<cell> : c ; <cell> : c ; … | C" where <cell> is the action array after the real
//	          resolveConflicts, actions "s T p1 p2 …" / "r P" / "a" joined by " , " in stored order,
//	          c = HasConflicts of the table holding that cell alone, C = HasConflicts of the whole table;
//	          or "PANIC shift-shift" / "PANIC accept-accept" / "PANIC assert" (first panic of the real code).
//	dec.table <infos> | <cells>
//	  same input; answer "<cell> ; <cell> ; … | C" (no per-cell verdicts). When the family generates
//	  these lines the answer is read from the table the real ConstructLALR produced for a whole
//	  grammar (cells = every action cell before resolution, taken from VerifConstructNoResolve);
//	  on replay it is recomputed from the line through VerifResolve.

func fmtVerifAction(a lr1.VerifAction) string {
	switch a.Kind {
	case 's':
		s := "s " + strconv.Itoa(a.Target)
		for _, p := range a.Prods {
			s += " " + strconv.Itoa(p)
		}
		return s
	case 'r':
		return "r " + strconv.Itoa(a.Prods[0])
	case 'a':
		return "a"
	}
	return "?"
}

func fmtVerifCell(c []lr1.VerifAction) string {
	parts := make([]string, len(c))
	for i, a := range c {
		parts[i] = fmtVerifAction(a)
	}
	return strings.Join(parts, " , ")
}

func fmtVerifCells(cs [][]lr1.VerifAction) string {
	parts := make([]string, len(cs))
	for i, c := range cs {
		parts[i] = fmtVerifCell(c)
	}
	return strings.Join(parts, " ; ")
}

func fmtInfos(infos []lr1.VerifProdInfo) string {
	parts := make([]string, len(infos))
	for i, in := range infos {
		parts[i] = fmt.Sprintf("%d %d %d", in.Rule, in.Prec, b2i(in.Right))
	}
	return strings.Join(parts, " ; ")
}

func parseResolvePayload(payload string) (infos []lr1.VerifProdInfo, cells [][]lr1.VerifAction, ok bool) {
	is, cs, found := strings.Cut(payload, "|")
	if !found {
		return nil, nil, false
	}
	atoi := func(s string) (int, bool) {
		n, err := strconv.Atoi(s)
		return n, err == nil && n >= 0
	}
	for _, f := range strings.Split(is, ";") {
		w := strings.Fields(f)
		if len(w) == 0 {
			continue
		}
		if len(w) != 3 {
			return nil, nil, false
		}
		r, ok1 := atoi(w[0])
		p, ok2 := atoi(w[1])
		a, ok3 := atoi(w[2])
		if !ok1 || !ok2 || !ok3 || a > 1 {
			return nil, nil, false
		}
		infos = append(infos, lr1.VerifProdInfo{Rule: r, Prec: p, Right: a == 1})
	}
	for _, c := range strings.Split(cs, ";") {
		cell := []lr1.VerifAction{}
		if strings.TrimSpace(c) != "" {
			for _, e := range strings.Split(c, ",") {
				w := strings.Fields(e)
				if len(w) == 0 {
					return nil, nil, false
				}
				switch {
				case w[0] == "s" && len(w) >= 3:
					a := lr1.VerifAction{Kind: 's'}
					var ok1 bool
					if a.Target, ok1 = atoi(w[1]); !ok1 || a.Target > 1<<16 {
						return nil, nil, false
					}
					for _, x := range w[2:] {
						p, ok2 := atoi(x)
						if !ok2 || p >= len(infos) {
							return nil, nil, false
						}
						a.Prods = append(a.Prods, p)
					}
					cell = append(cell, a)
				case w[0] == "r" && len(w) == 2:
					p, ok2 := atoi(w[1])
					if !ok2 || p >= len(infos) {
						return nil, nil, false
					}
					cell = append(cell, lr1.VerifAction{Kind: 'r', Prods: []int{p}})
				case w[0] == "a" && len(w) == 1:
					cell = append(cell, lr1.VerifAction{Kind: 'a'})
				default:
					return nil, nil, false
				}
			}
		}
		cells = append(cells, cell)
	}
	return infos, cells, true
}

func canonPanic(s string) string {
	if !strings.HasPrefix(s, "PANIC") {
		return s
	}
	switch {
	case strings.Contains(s, "shift-shift"):
		return "PANIC shift-shift"
	case strings.Contains(s, "accept-accept"):
		return "PANIC accept-accept"
	case strings.Contains(s, "assertion failed"):
		return "PANIC assert"
	}
	return s
}

func resolveImpl(line string) string {
	return canonPanic(guard(func() string {
		op, payload, _ := strings.Cut(line, " ")
		if op != "dec.resolve" && op != "dec.table" {
			return "bad-op"
		}
		infos, cells, ok := parseResolvePayload(payload)
		if !ok {
			return "bad-op"
		}
		out, conflicts := lr1.VerifResolve(infos, cells)
		if op == "dec.table" {
			return fmtVerifCells(out) + " | " + strconv.Itoa(b2i(conflicts))
		}
		parts := make([]string, len(cells))
		for i := range cells {
			one, c := lr1.VerifResolve(infos, cells[i:i+1])
			if fmtVerifCell(one[0]) != fmtVerifCell(out[i]) {
				panic("verif: a cell resolves differently alone and inside a table")
			}
			parts[i] = fmtVerifCell(out[i]) + " : " + strconv.Itoa(b2i(c))
		}
		return strings.Join(parts, " ; ") + " | " + strconv.Itoa(b2i(conflicts))
	}))
}

// ---- whole-pipeline cases: expression grammars through the real ConstructLALR ----

type exprOp struct {
	prec  int  // 0 = unqualified
	right bool
	rule  int // 0 = in `expr`, 1 = in helper rule `m` (expr = m), conflicts then span rules
}

type exprSpec struct {
	ops       []exprOp
	unary     int  // 0 none, 1 unqualified `'-' expr` reusing operator 0's terminal, 2 qualified @right(top+1)
	numRule   bool // atoms through `num = NUM | op0 NUM` (as in examples/calc)
	errorProd bool // S = expr | @error (as in examples/calc)
}

// calcSpec is /repo/examples/calc/calc.lox transcribed (terminals sorted as op names):
//
//	S = expr | @error
//	expr = expr '+' expr @left(1) | expr '-' expr @left(1) | expr '*' expr @left(2) | expr '/' expr @left(2)
//	     | expr '%' expr @left(2) | expr '^' expr @right(3) | '(' expr ')' | num
//	num = NUM | '-' NUM
func calcSpec() exprSpec {
	return exprSpec{ops: []exprOp{{1, false, 0}, {1, false, 0}, {2, false, 0}, {2, false, 0}, {2, false, 0}, {3, true, 0}},
		numRule: true, errorProd: true}
}

// buildExprGrammar returns the grammar and, per operator, its production.
func buildExprGrammar(sp exprSpec) (*lr1.Grammar, []*lr1.Prod) {
	g := lr1.NewGrammar()
	s := g.AddRule("S")
	expr := g.AddRule("expr")
	g.SetStart(s)
	var m *lr1.Rule
	ops := make([]*lr1.Terminal, len(sp.ops))
	for i := range sp.ops {
		ops[i] = g.AddTerminal(fmt.Sprintf("op%02d", i))
	}
	// calc uses '-' (operator 1 there) for the sign; here: the second operator if there is one
	signTerm := ops[0]
	if len(ops) > 1 {
		signTerm = ops[1]
	}
	lp, rp, num := g.AddTerminal("LP"), g.AddTerminal("RP"), g.AddTerminal("NUM")
	g.AddProd(s, expr)
	if sp.errorProd {
		g.AddProd(s, g.ErrorTerminal)
	}
	prods := make([]*lr1.Prod, len(sp.ops))
	for i, o := range sp.ops {
		var p *lr1.Prod
		if o.rule == 1 {
			if m == nil {
				m = g.AddRule("m")
			}
			p = g.AddProd(m, expr, ops[i], expr)
		} else {
			p = g.AddProd(expr, expr, ops[i], expr)
		}
		lr1.VerifSetPrec(p, o.prec)
		if o.right {
			p.Associativity = lr1.Right
		}
		prods[i] = p
	}
	if m != nil {
		g.AddProd(expr, m)
	}
	switch sp.unary {
	case 1:
		g.AddProd(expr, signTerm, expr)
	case 2:
		p := g.AddProd(expr, signTerm, expr)
		top := 0
		for _, o := range sp.ops {
			if o.prec > top {
				top = o.prec
			}
		}
		lr1.VerifSetPrec(p, top+1)
		p.Associativity = lr1.Right
	}
	g.AddProd(expr, lp, expr, rp)
	if sp.numRule {
		n := g.AddRule("num")
		g.AddProd(expr, n)
		g.AddProd(n, num)
		g.AddProd(n, signTerm, num)
	} else {
		g.AddProd(expr, num)
	}
	return g, prods
}

func grammarInfos(g *lr1.Grammar) []lr1.VerifProdInfo {
	infos := make([]lr1.VerifProdInfo, len(g.Prods))
	for i, p := range g.Prods {
		infos[i] = lr1.VerifProdInfo{Rule: p.Rule.Index, Prec: int(p.Precedence), Right: p.Associativity == lr1.Right}
	}
	return infos
}

// pipelineCase runs the real construction twice on identically built grammars (once stopping
// before resolveConflicts) and emits one dec.table line for the whole table plus one dec.resolve
// line per cell that held more than one action.
func pipelineCase(c *Ctx, sp exprSpec, tag string, emit func(l, impl string)) {
	g1, _ := buildExprGrammar(sp)
	g2, _ := buildExprGrammar(sp)
	before := lr1.VerifCells(lr1.VerifConstructNoResolve(g1))
	full := lr1.ConstructLALR(g2)
	after := lr1.VerifCells(full)
	if len(before) != len(after) {
		panic("verif: construction is not reproducible")
	}
	infos := fmtInfos(grammarInfos(g1))
	var cellsIn, cellsOut [][]lr1.VerifAction
	for i, b := range before {
		if b.State != after[i].State || b.Terminal != after[i].Terminal {
			panic("verif: construction is not reproducible")
		}
		cellsIn = append(cellsIn, b.Actions)
		cellsOut = append(cellsOut, after[i].Actions)
		if len(b.Actions) > 1 {
			c.Count("pipeline-multi-action-cells")
			var sh, rd *lr1.VerifAction
			for j := range b.Actions {
				switch b.Actions[j].Kind {
				case 's':
					sh = &b.Actions[j]
				case 'r':
					rd = &b.Actions[j]
				}
			}
			if sh != nil && rd != nil && len(b.Actions) == 2 {
				c.Count(fmt.Sprintf("pipeline-sr-cell shift.Prods=%d", min(len(sh.Prods), 9)))
				rp := g1.Prods[rd.Prods[0]]
				if rp.Associativity == lr1.Right && rp.Precedence > 0 && sh.Prods[0] == rd.Prods[0] {
					c.Count("pipeline-right-assoc-self-cell")
					if len(sh.Prods) == 1 {
						c.Count("pipeline-right-assoc-self-cell-with-single-item")
					}
					key := tag + " right-assoc self S/R cell"
					if _, seen := c.Extra[key]; !seen {
						c.Extra[key] = fmt.Sprintf("state %d on %s: before = [%s], after = [%s]", b.State, b.Terminal,
							fmtVerifCell(b.Actions), fmtVerifCell(after[i].Actions))
					}
				}
			}
			l := "dec.resolve " + infos + " | " + fmtVerifCell(b.Actions)
			emit(l, resolveImpl(l))
		}
	}
	l := "dec.table " + infos + " | " + fmtVerifCells(cellsIn)
	impl := fmtVerifCells(cellsOut) + " | " + strconv.Itoa(b2i(full.HasConflicts))
	c.Count(fmt.Sprintf("pipeline-grammar conflicts=%d", b2i(full.HasConflicts)))
	emit(l, impl)
}

func genExprSpec(r *Rng) exprSpec {
	sp := exprSpec{}
	levels := 1 + r.Intn(4)
	for lv := 1; lv <= levels; lv++ {
		n := 1 + r.Intn(3)
		right := r.Bool()
		for k := 0; k < n && len(sp.ops) < 7; k++ {
			o := exprOp{prec: lv, right: right}
			if r.Chance(1, 5) {
				o.right = !right // mixed associativity on one level
			}
			if r.Chance(1, 8) {
				o.prec = 0 // unqualified alternative
			}
			if r.Chance(1, 8) {
				o.rule = 1 // conflict spanning rules
			}
			sp.ops = append(sp.ops, o)
		}
	}
	sp.unary = []int{0, 0, 1, 2}[r.Intn(4)]
	sp.numRule = r.Bool()
	sp.errorProd = r.Bool()
	return sp
}

// ---- generators for synthetic cells ----

// all sequences of at most k calls over the given call universe, as cell texts
func callSequences(calls []string, k int) []string {
	var out []string
	var rec func(cur []string)
	rec = func(cur []string) {
		if len(cur) > 0 {
			out = append(out, strings.Join(cur, " , "))
		}
		if len(cur) == k {
			return
		}
		for _, e := range calls {
			rec(append(cur, e))
		}
	}
	rec(nil)
	return out
}

func classifyCell(infos []lr1.VerifProdInfo, cell []lr1.VerifAction) string {
	// shape of the cell as stored (after merging the AddShift calls)
	var sh *lr1.VerifAction
	nr, na := 0, 0
	var rd int
	for i := range cell {
		switch cell[i].Kind {
		case 's':
			if sh == nil {
				cp := cell[i]
				cp.Prods = append([]int(nil), cell[i].Prods...)
				sh = &cp
			} else {
				sh.Prods = append(sh.Prods, cell[i].Prods...)
			}
		case 'r':
			nr++
			rd = cell[i].Prods[0]
		case 'a':
			na++
		}
	}
	ns := 0
	if sh != nil {
		ns = 1
	}
	switch {
	case ns+nr+na == 1:
		return "single-action"
	case ns == 1 && nr == 1 && na == 0:
		sameRule, samePrec, qualified := true, true, infos[rd].Prec > 0
		for _, p := range sh.Prods {
			if infos[p].Rule != infos[rd].Rule {
				sameRule = false
			}
			if infos[p].Prec != infos[sh.Prods[0]].Prec {
				samePrec = false
			}
			if infos[p].Prec == 0 {
				qualified = false
			}
		}
		k := "sr"
		if !sameRule {
			k += " across-rules"
		} else {
			k += " one-rule"
		}
		if !qualified {
			k += " unqualified"
		}
		if len(sh.Prods) > 1 {
			if samePrec {
				k += " multi-item-equal-prec"
			} else {
				k += " multi-item-different-prec"
			}
		}
		return k
	case ns == 0 && nr >= 2 && na == 0:
		return "rr"
	case na >= 1 && nr >= 1 && ns == 0:
		return "accept/reduce"
	}
	return fmt.Sprintf("other s%d r%d a%d", ns, min(nr, 3), min(na, 2))
}

func init() {
	register("resolve", "resolveConflicts decision logic on synthetic cells and real expression tables vs model (C04, C05)", func(c *Ctx) {
		if c.Replay != nil {
			for _, l := range c.Replay {
				c.Emit(l, resolveImpl(l))
			}
			return
		}
		emit2 := func(l, impl string) {
			c.Distinct(l)
			if strings.HasPrefix(impl, "PANIC") {
				c.Count("answer " + impl)
			}
			c.Emit(l, impl)
		}
		emit := func(l string) { emit2(l, resolveImpl(l)) }
		countShapes := func(infos []lr1.VerifProdInfo, cells []string) {
			for _, ct := range cells {
				_, cs, ok := parseResolvePayload(fmtInfos(infos) + " | " + ct)
				if ok && len(cs) == 1 {
					c.Count("shape " + classifyCell(infos, cs[0]))
				}
			}
		}

		// (1) the real pipeline: examples/calc transcribed, then random expression grammars
		pipelineCase(c, calcSpec(), "calc", emit2)
		np := 40
		if c.Tier == "thorough" {
			np = 400
		}
		for i := 0; i < np; i++ {
			pipelineCase(c, genExprSpec(c.Rng), "random-expr", emit2)
		}

		// (2) exhaustive: every table of 3 productions over 2 rules x prec {0,1,2} x assoc,
		// every sequence of <= 3 calls (quick) / <= 4 calls (thorough) over
		// {AddShift(T0,p), AddReduce(p), AddAccept}; sequences with two AddAccept panic in the
		// real code and go on their own lines, the others are packed ~100 cells per line.
		var opts []lr1.VerifProdInfo
		for rule := 0; rule < 2; rule++ {
			for prec := 0; prec <= 2; prec++ {
				for right := 0; right < 2; right++ {
					opts = append(opts, lr1.VerifProdInfo{Rule: rule, Prec: prec, Right: right == 1})
				}
			}
		}
		calls := []string{"s 0 0", "s 0 1", "s 0 2", "r 0", "r 1", "r 2", "a"}
		k := 3
		if c.Tier == "thorough" {
			k = 4
		}
		seqs := callSequences(calls, k)
		var good, bad []string
		for _, s := range seqs {
			if strings.Count(s, "a") >= 2 {
				bad = append(bad, s)
			} else {
				good = append(good, s)
			}
		}
		c.Extra["exhaustive_prod_tables"] = len(opts) * len(opts) * len(opts)
		c.Extra["exhaustive_call_sequences_per_table"] = len(seqs)
		nt := 0
		for _, i0 := range opts {
			for _, i1 := range opts {
				for _, i2 := range opts {
					infos := []lr1.VerifProdInfo{i0, i1, i2}
					is := fmtInfos(infos)
					for at := 0; at < len(good); at += 100 {
						emit("dec.resolve " + is + " | " + strings.Join(good[at:min(at+100, len(good))], " ; "))
					}
					if nt%97 == 0 {
						countShapes(infos, good)
						for _, s := range bad {
							emit("dec.resolve " + is + " | " + s)
						}
						emit("dec.resolve " + is + " | r 0 ;  ; r 1") // empty action array
						emit("dec.resolve " + is + " | s 0 0 , r 1 , s 1 2") // shift-shift panic
					}
					nt++
				}
			}
		}

		// (3) random bigger tables
		for i := 0; i < c.N; i++ {
			np := 1 + c.Rng.Intn(8)
			infos := make([]lr1.VerifProdInfo, np)
			for j := range infos {
				infos[j] = lr1.VerifProdInfo{Rule: c.Rng.Intn(3), Prec: c.Rng.Intn(5), Right: c.Rng.Bool()}
				if c.Rng.Chance(1, 2) { // expression-like: one rule, qualified
					infos[j].Rule = 0
					infos[j].Prec = 1 + c.Rng.Intn(3)
				}
			}
			ncell := 1 + c.Rng.Intn(6)
			var cells []string
			for j := 0; j < ncell; j++ {
				nev := 1 + c.Rng.Intn(6)
				if c.Rng.Chance(2, 3) {
					nev = 2 + c.Rng.Intn(2) // around the interesting length
				}
				var evs []string
				accepted := false
				for e := 0; e < nev; e++ {
					switch x := c.Rng.Intn(10); {
					case x < 5:
						n := 1 + c.Rng.Intn(4)
						p0 := c.Rng.Intn(np)
						s := "s " + strconv.Itoa(b2i(c.Rng.Chance(1, 60)))
						for q := 0; q < n; q++ {
							p := p0
							if c.Rng.Chance(1, 4) {
								p = c.Rng.Intn(np)
							}
							s += " " + strconv.Itoa(p)
						}
						evs = append(evs, s)
					case x < 9 || (accepted && !c.Rng.Chance(1, 30)):
						evs = append(evs, "r "+strconv.Itoa(c.Rng.Intn(np)))
					default:
						evs = append(evs, "a")
						accepted = true
					}
				}
				cells = append(cells, strings.Join(evs, " , "))
			}
			countShapes(infos, cells)
			emit("dec.resolve " + fmtInfos(infos) + " | " + strings.Join(cells, " ; "))
		}
		keys := []string{}
		for k := range c.Counters {
			keys = append(keys, k)
		}
		sort.Strings(keys)
		c.Extra["counter_keys"] = keys
	})
}
