//go:build verif

package main

import (
	"fmt"
	"strconv"
	"strings"

	"github.com/dcaiafa/lox/internal/codegen"
)

// Family table: the row-compressed table of internal/codegen/table.go (property C10).
//
// Protocol (rows are "index : e e e", separated by ';'; an empty row is "index :"):
//   table.build32  i : r r r ; i : r r ; …   newTable[int32], AddRow(i, row) in order, Array()
//   table.buildu32 i : r r r ; …             the uint32 instantiation (lexer mode tables)
//       -> the resulting array, space separated, or "PANIC <panic value>"
//   table.rowkey32 r r r / table.rowkeyu32 r r r
//       -> the bytes of rowKey(row) as integers
//   table.write32 x x x / table.writeu32 x x x
//       -> the text WriteArray emits, '\n' shown as '/'
// A value outside the element type answers "bad-value" (both sides).

func parseTableRows(payload string) (idx []int, rows [][]int64, ok bool) {
	for _, sec := range strings.Split(payload, ";") {
		if strings.TrimSpace(sec) == "" {
			continue
		}
		is, rs, found := strings.Cut(sec, ":")
		if !found {
			return nil, nil, false
		}
		i, err := strconv.Atoi(strings.TrimSpace(is))
		if err != nil {
			return nil, nil, false
		}
		row := []int64{}
		for _, f := range strings.Fields(rs) {
			v, err := strconv.ParseInt(f, 10, 64)
			if err != nil {
				return nil, nil, false
			}
			row = append(row, v)
		}
		idx = append(idx, i)
		rows = append(rows, row)
	}
	return idx, rows, true
}

func toI32(row []int64) ([]int32, bool) {
	out := make([]int32, len(row))
	for i, v := range row {
		if v < -2147483648 || v > 2147483647 {
			return nil, false
		}
		out[i] = int32(v)
	}
	return out, true
}

func toU32(row []int64) ([]uint32, bool) {
	out := make([]uint32, len(row))
	for i, v := range row {
		if v < 0 || v > 4294967295 {
			return nil, false
		}
		out[i] = uint32(v)
	}
	return out, true
}

func fmtInts[T int32 | uint32 | byte](xs []T) string {
	var sb strings.Builder
	for i, x := range xs {
		if i > 0 {
			sb.WriteByte(' ')
		}
		fmt.Fprintf(&sb, "%d", x)
	}
	return sb.String()
}

func parseI64s(s string) ([]int64, bool) {
	out := []int64{}
	for _, f := range strings.Fields(s) {
		v, err := strconv.ParseInt(f, 10, 64)
		if err != nil {
			return nil, false
		}
		out = append(out, v)
	}
	return out, true
}

func tableImpl(line string) string {
	return guard(func() string {
		op, payload, _ := strings.Cut(line, " ")
		switch op {
		case "table.build32":
			idx, raw, ok := parseTableRows(payload)
			if !ok {
				return "bad-op"
			}
			rows := make([][]int32, len(raw))
			for i := range raw {
				r, ok := toI32(raw[i])
				if !ok {
					return "bad-value"
				}
				rows[i] = r
			}
			arr, p := codegen.VerifBuildTableInt32(idx, rows)
			if p != "" {
				return "PANIC " + p
			}
			return fmtInts(arr)
		case "table.buildu32":
			idx, raw, ok := parseTableRows(payload)
			if !ok {
				return "bad-op"
			}
			rows := make([][]uint32, len(raw))
			for i := range raw {
				r, ok := toU32(raw[i])
				if !ok {
					return "bad-value"
				}
				rows[i] = r
			}
			arr, p := codegen.VerifBuildTableUint32(idx, rows)
			if p != "" {
				return "PANIC " + p
			}
			return fmtInts(arr)
		case "table.rowkey32":
			raw, ok := parseI64s(payload)
			if !ok {
				return "bad-op"
			}
			r, ok := toI32(raw)
			if !ok {
				return "bad-value"
			}
			return fmtInts(codegen.VerifRowKeyInt32(r))
		case "table.rowkeyu32":
			raw, ok := parseI64s(payload)
			if !ok {
				return "bad-op"
			}
			r, ok := toU32(raw)
			if !ok {
				return "bad-value"
			}
			return fmtInts(codegen.VerifRowKeyUint32(r))
		case "table.write32":
			raw, ok := parseI64s(payload)
			if !ok {
				return "bad-op"
			}
			r, ok := toI32(raw)
			if !ok {
				return "bad-value"
			}
			var sb strings.Builder
			codegen.WriteArray(&sb, r)
			return strings.ReplaceAll(sb.String(), "\n", "/")
		case "table.writeu32":
			raw, ok := parseI64s(payload)
			if !ok {
				return "bad-op"
			}
			r, ok := toU32(raw)
			if !ok {
				return "bad-value"
			}
			var sb strings.Builder
			codegen.WriteArray(&sb, r)
			return strings.ReplaceAll(sb.String(), "\n", "/")
		}
		return "bad-op"
	})
}

// values around the varint length boundaries (7, 14, 21, 28 bits after zig-zag) and the type limits
var tblValsI32 = []int64{0, 1, -1, 2, -2, 63, 64, 65, -63, -64, -65, 127, 128, 129, -127, -128, -129,
	8191, 8192, 8193, -8192, -8193, 16383, 16384, -16384, -16385, 1048575, 1048576, -1048576, -1048577,
	134217727, 134217728, -134217728, -134217729, 1073741823, 1073741824, 2147483646, 2147483647,
	-2147483647, -2147483648}

var tblValsU32 = []int64{0, 1, 2, 63, 64, 127, 128, 129, 8191, 8192, 16383, 16384, 1048575, 1048576,
	134217727, 134217728, 2147483647, 2147483648, 2147483649, 4294967294, 4294967295, 0x10FFFF, 0xD7FF}

func fmtTableCase(op string, idx []int, rows [][]int64) string {
	var sb strings.Builder
	sb.WriteString(op)
	sb.WriteByte(' ')
	for i := range rows {
		if i > 0 {
			sb.WriteString(" ; ")
		}
		fmt.Fprintf(&sb, "%d :", idx[i])
		for _, v := range rows[i] {
			fmt.Fprintf(&sb, " %d", v)
		}
	}
	return sb.String()
}

func fmtI64s(xs []int64) string {
	var sb strings.Builder
	for i, x := range xs {
		if i > 0 {
			sb.WriteByte(' ')
		}
		fmt.Fprintf(&sb, "%d", x)
	}
	return sb.String()
}

// genTableRows produces an adversarial row sequence: a small pool of base rows (so that duplicates
// occur, possibly far apart), prefixes and extensions of pool rows, empty rows, parser-shaped
// (key/value) and lexer-shaped (flags, n, triples, pairs) rows.
func genTableRows(r *Rng, vals []int64, maxRows int) [][]int64 {
	val := func() int64 {
		if r.Chance(1, 3) {
			return int64(r.Intn(4))
		}
		return Pick(r, vals)
	}
	pool := [][]int64{}
	np := 1 + r.Intn(5)
	for i := 0; i < np; i++ {
		var row []int64
		switch r.Intn(5) {
		case 0: // free form
			n := r.Intn(6)
			for j := 0; j < n; j++ {
				row = append(row, val())
			}
		case 1: // parser row: distinct small keys, arbitrary values
			n := r.Intn(5)
			k := int64(r.Intn(3))
			for j := 0; j < n; j++ {
				row = append(row, k, val())
				k += 1 + int64(r.Intn(3))
			}
		case 2: // lexer row
			nt := r.Intn(3)
			row = append(row, int64(r.Intn(2)), int64(nt))
			b := int64(r.Intn(100))
			for j := 0; j < nt; j++ {
				e := b + int64(r.Intn(50))
				row = append(row, b, e, int64(r.Intn(8)))
				b = e + 1 + int64(r.Intn(50))
			}
			na := r.Intn(3)
			for j := 0; j < na; j++ {
				row = append(row, int64(1+r.Intn(5)), int64(r.Intn(6)))
			}
		case 3: // empty
		case 4: // single value
			row = append(row, val())
		}
		pool = append(pool, row)
	}
	n := r.Intn(maxRows + 1)
	rows := make([][]int64, 0, n)
	for i := 0; i < n; i++ {
		base := Pick(r, pool)
		row := append([]int64{}, base...)
		switch r.Intn(8) {
		case 0: // proper prefix
			if len(row) > 0 {
				row = row[:r.Intn(len(row))]
			}
		case 1: // extension
			row = append(row, val())
		case 2: // same length, last element changed
			if len(row) > 0 {
				row[len(row)-1] = val()
			}
		case 3: // a row that looks like "count, row" of another one (store-level aliasing)
			row = append([]int64{int64(len(row))}, row...)
		}
		rows = append(rows, row)
	}
	return rows
}

func genTableIdx(r *Rng, n int, breakMono bool) []int {
	idx := make([]int, n)
	cur := -1
	if r.Chance(1, 3) {
		cur += r.Intn(4)
	}
	for i := 0; i < n; i++ {
		cur += 1
		if r.Chance(1, 3) {
			cur += 1 + r.Intn(3)
		}
		idx[i] = cur
	}
	if breakMono && n > 0 {
		j := r.Intn(n)
		switch r.Intn(3) {
		case 0:
			if j > 0 {
				idx[j] = idx[j-1]
			} else {
				idx[j] = -1
			}
		case 1:
			idx[j] = idx[j] - 1 - r.Intn(idx[j]+2)
		case 2:
			idx[j] = -1 - r.Intn(3)
		}
	}
	return idx
}

func init() {
	register("table", "row-compressed table: AddRow/Array/rowKey/WriteArray vs model (C10)", func(c *Ctx) {
		if c.Replay != nil {
			for _, l := range c.Replay {
				c.Emit(l, tableImpl(l))
			}
			return
		}
		emit := func(l string) {
			if c.Distinct(l) {
				c.Count(strings.SplitN(l, " ", 2)[0])
			}
			impl := tableImpl(l)
			if strings.HasPrefix(impl, "PANIC") {
				c.Count("panic")
			}
			c.Emit(l, impl)
		}
		u32 := func(rows [][]int64) [][]int64 {
			out := make([][]int64, len(rows))
			for i, r := range rows {
				out[i] = make([]int64, len(r))
				for j, v := range r {
					out[i][j] = int64(uint32(int32(v)))
				}
			}
			return out
		}

		// --- exhaustive small space: all sequences of <= 3 rows of length <= 2 over {0,1,-1},
		// under every strictly increasing index choice from {0..maxIdx}
		alphabet := []int64{0, 1, -1}
		var smallRows [][]int64
		smallRows = append(smallRows, []int64{})
		for _, a := range alphabet {
			smallRows = append(smallRows, []int64{a})
		}
		for _, a := range alphabet {
			for _, b := range alphabet {
				smallRows = append(smallRows, []int64{a, b})
			}
		}
		maxIdx := 3
		if c.Tier == "thorough" {
			maxIdx = 4
		}
		var idxChoices [4][][]int // by number of rows
		var recIdx func(cur []int, next int)
		recIdx = func(cur []int, next int) {
			if len(cur) <= 3 {
				idxChoices[len(cur)] = append(idxChoices[len(cur)], append([]int(nil), cur...))
			}
			if len(cur) == 3 {
				return
			}
			for i := next; i <= maxIdx; i++ {
				recIdx(append(cur, i), i+1)
			}
		}
		recIdx(nil, 0)
		seqs := 0
		var recRows func(cur [][]int64)
		recRows = func(cur [][]int64) {
			seqs++
			for _, idx := range idxChoices[len(cur)] {
				emit(fmtTableCase("table.build32", idx, cur))
				emit(fmtTableCase("table.buildu32", idx, u32(cur)))
			}
			if len(cur) == 3 {
				return
			}
			for _, r := range smallRows {
				recRows(append(cur, r))
			}
		}
		recRows(nil)
		c.Extra["exhaustive_row_sequences"] = seqs
		c.Extra["exhaustive_max_index"] = maxIdx

		// --- exhaustive index pairs/triples over {-1..2} (the monotonicity panic), two row shapes
		for _, shape := range [][][]int64{{{0}, {0}, {1}}, {{}, {1, -1}, {}}} {
			for a := -1; a <= 2; a++ {
				for b := -1; b <= 2; b++ {
					emit(fmtTableCase("table.build32", []int{a, b}, shape[:2]))
					for d := -1; d <= 2; d++ {
						emit(fmtTableCase("table.build32", []int{a, b, d}, shape))
						emit(fmtTableCase("table.buildu32", []int{a, b, d}, u32(shape)))
					}
				}
			}
		}

		// --- row keys: every boundary value and its neighbours alone, in pairs, and as prefix/suffix
		for _, v := range tblValsI32 {
			emit("table.rowkey32 " + fmtI64s([]int64{v}))
			emit("table.rowkey32 " + fmtI64s([]int64{v, v}))
			emit("table.rowkey32 " + fmtI64s([]int64{0, v}))
			emit("table.rowkey32 " + fmtI64s([]int64{v, 0}))
			emit(fmtTableCase("table.build32", []int{0, 1, 2, 3}, [][]int64{{v}, {v, 0}, {0, v}, {v}}))
		}
		for _, v := range tblValsU32 {
			emit("table.rowkeyu32 " + fmtI64s([]int64{v}))
			emit("table.rowkeyu32 " + fmtI64s([]int64{v, v}))
			emit("table.rowkeyu32 " + fmtI64s([]int64{0, v}))
			emit("table.rowkeyu32 " + fmtI64s([]int64{v, 0}))
			emit(fmtTableCase("table.buildu32", []int{0, 1, 2, 3}, [][]int64{{v}, {v, 0}, {0, v}, {v}}))
		}
		emit("table.rowkey32 ")
		emit("table.rowkeyu32 ")
		// every pair of boundary values as two one-element rows: a key collision shows as wrong sharing
		for _, v := range tblValsI32 {
			for _, w := range tblValsI32 {
				emit(fmtTableCase("table.build32", []int{0, 1}, [][]int64{{v}, {w}}))
			}
		}
		for _, v := range tblValsU32 {
			for _, w := range tblValsU32 {
				emit(fmtTableCase("table.buildu32", []int{0, 1}, [][]int64{{v}, {w}}))
			}
		}
		// every power of two and its neighbours
		for k := 0; k <= 32; k++ {
			p := int64(1) << uint(k)
			for _, v := range []int64{p - 1, p, p + 1, -p - 1, -p, -p + 1} {
				if v >= -2147483648 && v <= 2147483647 {
					emit("table.rowkey32 " + fmtI64s([]int64{v}))
				}
				if v >= 0 && v <= 4294967295 {
					emit("table.rowkeyu32 " + fmtI64s([]int64{v}))
				}
			}
		}
		// int32 -1 and uint32 0xFFFFFFFF are different keys and different rows
		emit(fmtTableCase("table.build32", []int{0, 1}, [][]int64{{-1}, {2147483647}}))
		emit(fmtTableCase("table.buildu32", []int{0, 1}, [][]int64{{4294967295}, {2147483647}}))
		emit(fmtTableCase("table.build32", []int{0, 1}, [][]int64{{-2147483648}, {-2147483648}}))

		// --- WriteArray: lengths around the 14-per-line wrap
		for _, n := range []int{0, 1, 13, 14, 15, 27, 28, 29, 42, 43} {
			xs := make([]int64, n)
			for i := range xs {
				xs[i] = Pick(c.Rng, tblValsI32)
			}
			emit("table.write32 " + fmtI64s(xs))
			for i := range xs {
				xs[i] = Pick(c.Rng, tblValsU32)
			}
			emit("table.writeu32 " + fmtI64s(xs))
		}

		// --- random adversarial sequences
		for i := 0; i < c.N; i++ {
			maxRows := 8
			if c.Rng.Chance(1, 10) {
				maxRows = 40
			}
			br := c.Rng.Chance(1, 8)
			rows := genTableRows(c.Rng, tblValsI32, maxRows)
			emit(fmtTableCase("table.build32", genTableIdx(c.Rng, len(rows), br), rows))
			for _, r := range rows {
				if c.Rng.Chance(1, 4) {
					emit("table.rowkey32 " + fmtI64s(r))
				}
			}
			br = c.Rng.Chance(1, 8)
			rows = genTableRows(c.Rng, tblValsU32, maxRows)
			emit(fmtTableCase("table.buildu32", genTableIdx(c.Rng, len(rows), br), rows))
			for _, r := range rows {
				if c.Rng.Chance(1, 4) {
					emit("table.rowkeyu32 " + fmtI64s(r))
				}
			}
		}
	})
}
