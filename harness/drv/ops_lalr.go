//go:build verif

package main

import (
	"fmt"
	"sort"
	"strings"

	"github.com/dcaiafa/lox/internal/parsergen/lr1"
)

// Family lalr (C04): random grammars, including ambiguous, non-LALR-but-LR(1) and
// precedence-qualified ones, through the real front end + ConstructLALR. Oracle: an independent
// reference (canonical LR(1) collection merged by core, FIRST by fixpoint, the DOCUMENTED
// precedence rule) — verdict must agree, and for accepted grammars the automaton must be the
// reference automaton (same cores, same item sets with lookaheads, same transitions).
//
// Case lines are notes (`# …`, echoed by the Lean driver); the verdicts live in the oracle column.

type rItem struct{ p, d, a int }

type lalrRef struct {
	g        *lr1.Grammar
	nullable map[*lr1.Rule]bool
	first    map[*lr1.Rule]map[int]bool
}

func newLalrRef(g *lr1.Grammar) *lalrRef {
	r := &lalrRef{g: g, nullable: map[*lr1.Rule]bool{}, first: map[*lr1.Rule]map[int]bool{}}
	for _, ru := range g.Rules {
		r.first[ru] = map[int]bool{}
	}
	for ch := true; ch; {
		ch = false
		for _, p := range g.Prods {
			allNull := true
			for _, t := range p.Terms {
				switch t := t.(type) {
				case *lr1.Terminal:
					if !r.first[p.Rule][t.Index] {
						r.first[p.Rule][t.Index] = true
						ch = true
					}
					allNull = false
				case *lr1.Rule:
					for x := range r.first[t] {
						if !r.first[p.Rule][x] {
							r.first[p.Rule][x] = true
							ch = true
						}
					}
					if !r.nullable[t] {
						allNull = false
					}
				}
				if !allNull {
					break
				}
			}
			if allNull && !r.nullable[p.Rule] {
				r.nullable[p.Rule] = true
				ch = true
			}
		}
	}
	return r
}

func (r *lalrRef) firstOf(syms []lr1.Term, a int) map[int]bool {
	out := map[int]bool{}
	for _, t := range syms {
		switch t := t.(type) {
		case *lr1.Terminal:
			out[t.Index] = true
			return out
		case *lr1.Rule:
			for x := range r.first[t] {
				out[x] = true
			}
			if !r.nullable[t] {
				return out
			}
		}
	}
	out[a] = true
	return out
}

func (r *lalrRef) closure(s map[rItem]bool) map[rItem]bool {
	var work []rItem
	for it := range s {
		work = append(work, it)
	}
	for len(work) > 0 {
		it := work[len(work)-1]
		work = work[:len(work)-1]
		p := r.g.Prods[it.p]
		if it.d >= len(p.Terms) {
			continue
		}
		B, ok := p.Terms[it.d].(*lr1.Rule)
		if !ok {
			continue
		}
		for b := range r.firstOf(p.Terms[it.d+1:], it.a) {
			for _, q := range B.Prods {
				n := rItem{q.Index, 0, b}
				if !s[n] {
					s[n] = true
					work = append(work, n)
				}
			}
		}
	}
	return s
}

func itemsKey(s map[rItem]bool, core bool) string {
	seen := map[string]bool{}
	var ks []string
	for it := range s {
		var k string
		if core {
			// kernel items only identify the core (closure items follow)
			if !(it.p == 0 || it.d != 0) {
				continue
			}
			k = fmt.Sprintf("%d.%d", it.p, it.d)
		} else {
			k = fmt.Sprintf("%d.%d.%d", it.p, it.d, it.a)
		}
		if !seen[k] {
			seen[k] = true
			ks = append(ks, k)
		}
	}
	sort.Strings(ks)
	return strings.Join(ks, ",")
}

type refAuto struct {
	states map[string]map[rItem]bool      // core key -> merged item set
	trans  map[string]map[string]string   // core key -> symbol name -> core key
	tooBig bool
}

func (r *lalrRef) build() *refAuto {
	start := r.closure(map[rItem]bool{{0, 0, 0}: true})
	states := []map[rItem]bool{start}
	idx := map[string]int{itemsKey(start, false): 0}
	type edge struct {
		from int
		sym  string
		to   int
	}
	var edges []edge
	for i := 0; i < len(states); i++ {
		s := states[i]
		next := map[lr1.Term]map[rItem]bool{}
		for it := range s {
			p := r.g.Prods[it.p]
			if it.d < len(p.Terms) {
				X := p.Terms[it.d]
				if next[X] == nil {
					next[X] = map[rItem]bool{}
				}
				next[X][rItem{it.p, it.d + 1, it.a}] = true
			}
		}
		for X, k := range next {
			t := r.closure(k)
			kk := itemsKey(t, false)
			j, ok := idx[kk]
			if !ok {
				j = len(states)
				idx[kk] = j
				states = append(states, t)
			}
			edges = append(edges, edge{i, X.TermName(), j})
		}
		if len(states) > 3000 {
			return &refAuto{tooBig: true}
		}
	}
	a := &refAuto{states: map[string]map[rItem]bool{}, trans: map[string]map[string]string{}}
	coreOf := make([]string, len(states))
	for i, s := range states {
		c := itemsKey(s, true)
		coreOf[i] = c
		if a.states[c] == nil {
			a.states[c] = map[rItem]bool{}
			a.trans[c] = map[string]string{}
		}
		for it := range s {
			a.states[c][it] = true
		}
	}
	for _, e := range edges {
		a.trans[coreOf[e.from]][e.sym] = coreOf[e.to]
	}
	return a
}

// conflict applies the documented rule: a cell with more than one action is a conflict unless it
// is exactly one shift and one reduce whose productions (every contributing item of the shift,
// and the reduced production) belong to one rule and all carry explicit precedences, the
// contributing shift productions sharing one precedence.
func (r *lalrRef) conflict(a *refAuto) (bool, string) {
	for _, s := range a.states {
		type cell struct {
			shiftProds map[int]bool
			reduces    map[int]bool
			accept     bool
		}
		cells := map[int]*cell{}
		get := func(t int) *cell {
			if cells[t] == nil {
				cells[t] = &cell{shiftProds: map[int]bool{}, reduces: map[int]bool{}}
			}
			return cells[t]
		}
		for it := range s {
			p := r.g.Prods[it.p]
			if it.d == len(p.Terms) {
				if it.p == 0 {
					get(it.a).accept = true
				} else {
					get(it.a).reduces[it.p] = true
				}
			} else if t, ok := p.Terms[it.d].(*lr1.Terminal); ok {
				get(t.Index).shiftProds[it.p] = true
			}
		}
		for t, c := range cells {
			n := len(c.reduces)
			if len(c.shiftProds) > 0 {
				n++
			}
			if c.accept {
				n++
			}
			if n <= 1 {
				continue
			}
			resolvable := n == 2 && len(c.shiftProds) > 0 && len(c.reduces) == 1
			if resolvable {
				var rp *lr1.Prod
				for p := range c.reduces {
					rp = r.g.Prods[p]
				}
				prec := -1
				for p := range c.shiftProds {
					sp := r.g.Prods[p]
					if sp.Rule != rp.Rule || int(sp.Precedence) <= 0 || (prec >= 0 && int(sp.Precedence) != prec) {
						resolvable = false
					}
					prec = int(sp.Precedence)
				}
				if int(rp.Precedence) <= 0 {
					resolvable = false
				}
			}
			if !resolvable {
				return true, fmt.Sprintf("terminal %s", r.g.Terminals[t].Name)
			}
		}
	}
	return false, ""
}

func loxCoreKey(st *lr1.ItemSet) string {
	m := map[rItem]bool{}
	for _, it := range st.Items() {
		m[rItem{it.Prod, it.Dot, it.Lookahead}] = true
	}
	return itemsKey(m, true)
}

func compareAutomata(t *lr1.ParserTable, a *refAuto) string {
	if len(t.States) != len(a.states) {
		return fmt.Sprintf("lox has %d states, the LALR(1) automaton has %d", len(t.States), len(a.states))
	}
	for _, st := range t.States {
		ck := loxCoreKey(st)
		ref, ok := a.states[ck]
		if !ok {
			return "lox has a state whose core is not in the LALR(1) automaton: " + ck
		}
		got := map[rItem]bool{}
		for _, it := range st.Items() {
			got[rItem{it.Prod, it.Dot, it.Lookahead}] = true
		}
		for it := range ref {
			if !got[it] {
				return fmt.Sprintf("state I%d misses item/lookahead (prod %d, dot %d, la %d)", st.Index, it.p, it.d, it.a)
			}
		}
		for it := range got {
			if !ref[it] {
				return fmt.Sprintf("state I%d has an extra item/lookahead (prod %d, dot %d, la %d)", st.Index, it.p, it.d, it.a)
			}
		}
		tr := t.Transitions(st)
		ins := tr.Inputs()
		if len(ins) != len(a.trans[ck]) {
			return fmt.Sprintf("state I%d has %d transitions, reference %d", st.Index, len(ins), len(a.trans[ck]))
		}
		for _, in := range ins {
			to := tr.Get(in)
			if a.trans[ck][in.TermName()] != loxCoreKey(to) {
				return fmt.Sprintf("state I%d: transition on %s leads to a different state", st.Index, in.TermName())
			}
		}
	}
	return ""
}

// classic grammar families appended to the random stream
var lalrClassics = []string{
	// LR(1) but not LALR(1)
	"@lexer\nTA = 'a'\nTB = 'b'\nTC = 'c'\nTD = 'd'\nTE = 'e'\n@parser\n@start s = TA x TD | TB y TD | TA y TE | TB x TE\nx = TC\ny = TC\n",
	// LALR(1) but not SLR(1)
	"@lexer\nTA = 'a'\nTB = 'b'\nTC = 'c'\nTD = 'd'\n@parser\n@start s = l TA r | r\nl = TB r | TC\nr = l\n",
	// ambiguous: dangling else
	"@lexer\nTA = 'a'\nTB = 'b'\nTC = 'c'\n@parser\n@start s = TA s | TA s TB s | TC\n",
	// reduce/reduce
	"@lexer\nTA = 'a'\nTB = 'b'\n@parser\n@start s = x TA | y TA\nx = TB\ny = TB\n",
	// precedence inside one rule: resolved
	"@lexer\nTA = 'a'\nTB = 'b'\nTC = 'c'\n@parser\n@start e = e TA e @left(1) | e TB e @left(2) | TC\n",
	// precedence across rules: must stay a conflict
	"@lexer\nTA = 'a'\nTB = 'b'\nTC = 'c'\n@parser\n@start e = e TA f @left(1) | f\nf = e TB e @left(2) | TC\n",
	// one unqualified participant: must stay a conflict
	"@lexer\nTA = 'a'\nTB = 'b'\nTC = 'c'\n@parser\n@start e = e TA e @left(1) | e TB e | TC\n",
	// hidden conflict through a nullable rule reached twice (the repaired FIRST defect)
	"@lexer\nTA = 'a'\nTB = 'b'\n@parser\n@start s = s s b | TA\nb = b TB | @empty\n",
}

func init() {
	register("lalr", "verdict and automaton of ConstructLALR vs an independent LALR(1) reference (C04)", func(c *Ctx) {
		type job struct {
			text string
			tag  string
		}
		var jobs []job
		for _, cl := range lalrClassics {
			jobs = append(jobs, job{cl, "classic"})
		}
		o := GenOpts{MaxTokens: 4, MaxRules: 4, MaxProds: 3, MaxTerms: 4, Sugar: true, Errors: true, Prec: true}
		if c.Tier == "thorough" {
			o = GenOpts{MaxTokens: 5, MaxRules: 6, MaxProds: 4, MaxTerms: 5, Sugar: true, Errors: true, Prec: true}
		}
		for i := 0; i < c.N; i++ {
			s := GenSpec(c.Rng, o)
			jobs = append(jobs, job{s.Lox(), "random"})
		}
		for _, j := range jobs {
			flat := strings.ReplaceAll(strings.TrimSpace(j.text), "\n", " ⏎ ")
			fr := RunFront(j.text)
			if !fr.OK {
				c.Count("front-end-rejected")
				note := "# lalr front-end-rejected " + flat
				or := ""
				if strings.Contains(fr.Diag, "PANIC") {
					or = "C12: front end panicked: " + strings.ReplaceAll(fr.Diag, "\n", " ⏎ ") + " | grammar: " + flat
				}
				c.EmitO(note, note, or)
				continue
			}
			ref := newLalrRef(fr.Grammar)
			a := ref.build()
			if a.tooBig {
				c.Count("reference-too-big")
				continue
			}
			want, where := ref.conflict(a)
			got := fr.Table.HasConflicts
			or := ""
			switch {
			case got && !want:
				or = "C04: lox reports conflicts for a grammar whose LALR(1) automaton has none after the documented precedence rule | grammar: " + flat
			case !got && want:
				or = "C04: lox accepts a grammar whose LALR(1) automaton keeps a conflict (" + where + ") | grammar: " + flat
			}
			if or == "" {
				if diff := compareAutomata(fr.Table, a); diff != "" {
					or = "C04: automaton differs from the LALR(1) automaton: " + diff + " | grammar: " + flat
				}
			}
			verdict := "accepted"
			if got {
				verdict = "conflicts"
			}
			c.Count(j.tag + "-" + verdict)
			c.Distinct(j.text)
			note := "# lalr " + verdict + " states=" + fmt.Sprint(len(fr.Table.States)) + " " + flat
			c.EmitO(note, note, or)
		}
	})
}
