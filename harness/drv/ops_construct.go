//go:build verif

package main

import (
	"fmt"
	"sort"
	"strings"

	"github.com/dcaiafa/lox/internal/parsergen/lr1"
)

// Family construct (C04): the main loop of lr1.ConstructLALR (worklist of state keys in sorted
// order per round, Next in name order, merge by LR(0) key with re-queue, transition recording)
// against its Lean model `Lox.LR.Cons.construct` (lean/Lox/LR/ConstructModel.lean; theorems
// Lox.Props.C04.construct_*): same states IN CREATION ORDER, same items, same transitions.
//
// Protocol
//
//	lr.construct <nTerms> <nRules> | <prods> | <ord>
//	  ord     all terminals and rules (terminal k = k, rule A = -(A+1)) sorted by TermName() — the
//	          order Next and TransitionMap.Inputs sort by; names are not part of the Lean grammar
//	  answer  `<cert> | <transitions>` as certLine / transLine print them for the real ParserTable.
//
// Every grammar is run (1) as the front end built it (real names) and (2) rebuilt through the lr1
// API under random name orders (names n000000, n000001, … assigned by a random permutation), which
// varies the numbering of the states. Replay of a case line rebuilds the grammar with names that
// sort like `ord` and runs the real ConstructLALR.

func nameOrder(g *lr1.Grammar) (ord []int, dup bool) {
	type ns struct {
		name string
		code int
	}
	var all []ns
	seen := map[string]bool{}
	for _, t := range g.Terminals {
		all = append(all, ns{t.Name, t.Index})
		if seen[t.Name] {
			dup = true
		}
		seen[t.Name] = true
	}
	for _, r := range g.Rules {
		all = append(all, ns{r.Name, -(r.Index + 1)})
		if seen[r.Name] {
			dup = true
		}
		seen[r.Name] = true
	}
	sort.SliceStable(all, func(i, j int) bool { return all[i].name < all[j].name })
	for _, x := range all {
		ord = append(ord, x.code)
	}
	return ord, dup
}

func constructCaseLine(g *lr1.Grammar, ord []int) string {
	return fmt.Sprintf("lr.construct %d %d | %s | %s", len(g.Terminals), len(g.Rules), grammarLine(g), joinInts(ord))
}

func constructAnswer(t *lr1.ParserTable) string {
	return certLine(t) + " | " + transLine(t)
}

// renameByOrder gives the symbols names that sort like ord.
func renameByOrder(g *lr1.Grammar, ord []int) error {
	if len(ord) != len(g.Terminals)+len(g.Rules) {
		return fmt.Errorf("ord lists %d symbols, the grammar has %d", len(ord), len(g.Terminals)+len(g.Rules))
	}
	seen := map[int]bool{}
	for k, code := range ord {
		if seen[code] {
			return fmt.Errorf("symbol %d listed twice", code)
		}
		seen[code] = true
		name := fmt.Sprintf("n%06d", k)
		if code >= 0 {
			if code >= len(g.Terminals) {
				return fmt.Errorf("terminal %d out of range", code)
			}
			g.Terminals[code].Name = name
		} else {
			r := -code - 1
			if r >= len(g.Rules) {
				return fmt.Errorf("rule %d out of range", r)
			}
			g.Rules[r].Name = name
		}
	}
	return nil
}

func constructRebuild(hd, prods string, ord []int) (*lr1.Grammar, error) {
	g, err := gmDecode(strings.TrimSpace(hd), prods)
	if err != nil {
		return nil, err
	}
	if err := renameByOrder(g, ord); err != nil {
		return nil, err
	}
	return g, nil
}

// raw grammars through the lr1 API that the front end would not produce: unproductive and
// unreachable rules, a rule without productions, EOF-free but ERROR-using right-hand sides
var constructRaw = []string{
	"4 3 | 0 -2 ; 1 2 -3 ; 2 -3 3",          // s = a B; B = B b   (B unproductive)
	"4 3 | 0 -2 ; 1 2 ; 2 3 -3 ; 2 3",       // rule 2 unreachable
	"4 3 | 0 -2 ; 1 2 -3 ; 1 3",             // rule 2 has no production
	"5 3 | 0 -2 ; 1 -3 2 ; 1 -3 3 ; 2 ; 2 4 -3", // nullable prefix, self-loop
	"4 2 | 0 -2 ; 1 -2 -2 -2 ; 1 2 ; 1",     // s = s s s | a | ε
}

func init() {
	register("construct", "the worklist of ConstructLALR (creation order of states, items, transitions) vs the Lean model (C04)", func(c *Ctx) {
		emit := func(g *lr1.Grammar, ord []int, tag string) {
			line := constructCaseLine(g, ord)
			ans := guard(func() string { return constructAnswer(lr1.ConstructLALR(g)) })
			if strings.HasPrefix(ans, "PANIC") {
				ans = "panic"
			}
			if c.Distinct(line) {
				c.Count(tag)
			}
			c.Emit(line, ans)
		}
		if c.Replay != nil {
			for _, l := range c.Replay {
				if !strings.HasPrefix(l, "lr.construct ") {
					c.Emit(l, "bad-op")
					continue
				}
				_, payload, _ := strings.Cut(l, " ")
				secs := strings.Split(payload, "|")
				if len(secs) != 3 {
					c.Emit(l, "bad-op")
					continue
				}
				ord, err := gmInts(secs[2])
				if err != nil {
					c.Emit(l, "bad-op")
					continue
				}
				g, err := constructRebuild(secs[0], secs[1], ord)
				if err != nil {
					c.Emit(l, "bad-op")
					continue
				}
				ans := guard(func() string { return constructAnswer(lr1.ConstructLALR(g)) })
				if strings.HasPrefix(ans, "PANIC") {
					ans = "panic"
				}
				c.Count("replayed")
				c.Emit(l, ans)
			}
			return
		}
		variants := func(hd, prods string, nsyms int, k int, tag string) {
			for v := 0; v < k; v++ {
				// a random permutation of the symbol codes = a random name order
				g0, err := gmDecode(hd, prods)
				if err != nil {
					return
				}
				var codes []int
				for i := range g0.Terminals {
					codes = append(codes, i)
				}
				for i := range g0.Rules {
					codes = append(codes, -(i + 1))
				}
				for i := len(codes) - 1; i > 0; i-- {
					j := c.Rng.Intn(i + 1)
					codes[i], codes[j] = codes[j], codes[i]
				}
				if err := renameByOrder(g0, codes); err != nil {
					return
				}
				emit(g0, codes, tag)
			}
		}
		for _, raw := range constructRaw {
			hd, prods, _ := strings.Cut(raw, "|")
			c.Emit("# construct raw "+raw, "# construct raw "+raw)
			variants(strings.TrimSpace(hd), prods, 0, 3, "raw-permuted")
		}
		for _, j := range conflictJobs(c) {
			flat := strings.ReplaceAll(strings.TrimSpace(j.text), "\n", " ⏎ ")
			fr := RunFront(j.text)
			if !fr.OK || fr.Grammar == nil || fr.Table == nil {
				c.Count("front-end-rejected")
				continue
			}
			if len(fr.Table.States) > 400 {
				c.Count("skipped-big")
				continue
			}
			ord, dup := nameOrder(fr.Grammar)
			if dup {
				c.Count("skipped-duplicate-names")
				continue
			}
			note := "# construct " + j.tag + " " + flat
			c.Emit(note, note)
			// (1) the table the front end's grammar gave
			line := constructCaseLine(fr.Grammar, ord)
			if c.Distinct(line) {
				c.Count(j.tag + "-front")
			}
			c.Emit(line, constructAnswer(fr.Table))
			// (2) the same productions under random name orders
			g := fr.Grammar
			nv := 2
			if j.tag != "random" {
				nv = 4
			}
			variants(fmt.Sprintf("%d %d", len(g.Terminals), len(g.Rules)), grammarLine(g), 0, nv, j.tag+"-permuted")
		}
	})
}
