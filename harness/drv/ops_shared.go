//go:build verif

package main

import (
	"bytes"
	"fmt"
	goast "go/ast"
	goprinter "go/printer"
	gotoken "go/token"
	gotypes "go/types"
	"os"
	"path/filepath"
	"regexp"
	"sort"
	"strings"
	"time"

	"golang.org/x/tools/go/packages"
)

// Family facts_shared (C18, the PREMISE of Lox.Props.C18.interleave_independent): the only data
// shared between instances of generated lexers/parsers are the package-level table variables,
// and no generated function can write through them.
//
// For every package (a batch of freshly generated ones: random grammars with/without
// _onBounds/@error, random lexer specifications; and the four checked-in directories of the
// repository) the package is type-checked (go/packages + go/types) and the three generated
// files base.gen.go / lexer.gen.go / parser.gen.go are inspected:
//
//   1. inventory: every package-level `var` declared in them, normalised (_lexerMode<N>) and
//      with its type; everything that is not a table variable is reported;
//   2. readers: which generated functions mention which table variable;
//   3. writes: a small field-based, flow-insensitive may-alias analysis computes for every
//      expression the set of "levels" at which its value may refer to storage reachable from a
//      package-level variable (level 0 = the value is itself a slice/pointer/map into such
//      storage, level k = k element/deref steps away: `l.modeStack` is level 1 because its
//      elements are the `_lexerModeN` slices). It is inter-procedural over the functions of the
//      generated files (arguments flow into parameters, results back; `_Stack[T]` methods are
//      analysed once per instantiation) and everything else (user action methods, the lexer
//      interface, imported packages) is an unknown callee. Reported:
//        - assignment / op-assignment / IncDec / range-assignment whose target is a
//          package-level variable or storage at level 0,
//        - append/copy/clear/delete on a level-0 value,
//        - & of such storage (also the implicit & of a pointer-receiver call),
//        - passing a value that refers to or contains shared storage to an unknown callee,
//        - go statements, package-level variables of other packages, initialisers with calls;
//   4. every remaining write is classified (receiver field / local / parameter) and the set of
//      receiver fields written is listed for the evidence.
//
// Case lines are notes `# C18 shared <kind> | <fact>` (impl = the same line); a violation puts
// `C18: generated code writes shared state: <file>:<func>: <stmt>` (or `C18: unexpected
// package-level variable …`) in the oracle column. meta.json extra.inventory carries the
// structured inventory that lib/props/c18.py compares with expect/shared_state.json.

var c18GenFiles = map[string]bool{"base.gen.go": true, "lexer.gen.go": true, "parser.gen.go": true}

var c18LexMode = regexp.MustCompile(`^_lexerMode[0-9]+$`)

// c18VarPattern normalises a variable name and says whether it is one of the table variables.
func c18VarPattern(file, name, typ string) (string, bool) {
	switch {
	case file == "lexer.gen.go" && c18LexMode.MatchString(name):
		return "_lexerMode<N>", typ == "[]uint32"
	case file == "lexer.gen.go" && name == "_lexerModes":
		return name, typ == "[][]uint32"
	case file == "parser.gen.go" && (name == "_rules" || name == "_termCounts" || name == "_actions" || name == "_goto"):
		return name, typ == "[]int32"
	}
	return name, false
}

// ---- levels ----

type c18lv uint8 // bit k (0..3): level k; level 3 means "3 or more"

const c18Top = 4

func c18all(depth int) c18lv {
	if depth > c18Top {
		depth = c18Top
	}
	return c18lv(1<<uint(depth)) - 1
}
func c18up(l c18lv) c18lv   { return ((l << 1) | (l & 8)) & 15 }
func c18down(l c18lv) c18lv { return (l >> 1) | (l & 8) }

// c18depth: how many element/deref steps a value of this type can carry references.
func c18depth(t gotypes.Type, seen map[gotypes.Type]bool) int {
	if t == nil {
		return c18Top
	}
	inc := func(e gotypes.Type) int {
		d := 1 + c18depth(e, seen)
		if d > c18Top {
			d = c18Top
		}
		return d
	}
	switch t := t.(type) {
	case *gotypes.Basic:
		if t.Kind() == gotypes.UnsafePointer {
			return c18Top
		}
		return 0
	case *gotypes.Named, *gotypes.Alias:
		if seen[t] {
			return c18Top
		}
		if seen == nil {
			seen = map[gotypes.Type]bool{}
		}
		seen[t] = true
		d := c18depth(t.Underlying(), seen)
		delete(seen, t)
		return d
	case *gotypes.Slice:
		return inc(t.Elem())
	case *gotypes.Pointer:
		return inc(t.Elem())
	case *gotypes.Map:
		return inc(t.Elem())
	case *gotypes.Chan:
		return inc(t.Elem())
	case *gotypes.Array:
		return c18depth(t.Elem(), seen)
	case *gotypes.Struct:
		d := 0
		for i := 0; i < t.NumFields(); i++ {
			if x := c18depth(t.Field(i).Type(), seen); x > d {
				d = x
			}
		}
		return d
	case *gotypes.Tuple:
		d := 0
		for i := 0; i < t.Len(); i++ {
			if x := c18depth(t.At(i).Type(), seen); x > d {
				d = x
			}
		}
		return d
	}
	return c18Top // interfaces, type parameters, function values
}

// ---- analyser ----

type c18envKey struct {
	ctx string
	v   *gotypes.Var
}
type c18retKey struct {
	ctx string
	fn  *gotypes.Func
	i   int
}
type c18inst struct {
	fn  *gotypes.Func
	ctx string
}

type c18Violation struct {
	File, Func, Stmt, Why string
}

type c18Analysis struct {
	fset    *gotoken.FileSet
	pkg     *gotypes.Package
	info    *gotypes.Info
	funcs   map[*gotypes.Func]*goast.FuncDecl // functions declared (with a body) in the generated files
	fileOf  map[*goast.FuncDecl]string
	env     map[c18envKey]c18lv
	ret     map[c18retKey]c18lv
	insts   map[c18inst]bool
	changed bool
	collect bool

	// current function instance
	cur     *goast.FuncDecl
	curFn   *gotypes.Func
	ctx     string
	curStmt goast.Stmt

	fieldOwner map[*gotypes.Var]string // field -> "Type.field"

	// results
	Violations    []c18Violation
	seenViol      map[string]bool
	FieldsWritten map[string]bool
	WriteClasses  map[string]int
	seenWrite     map[gotoken.Pos]bool
}

func (a *c18Analysis) text(n goast.Node) string {
	var b bytes.Buffer
	goprinter.Fprint(&b, a.fset, n)
	s := strings.Join(strings.Fields(b.String()), " ")
	if len(s) > 200 {
		s = s[:200] + "…"
	}
	return s
}

func (a *c18Analysis) violation(why string, n goast.Node) {
	if !a.collect {
		return
	}
	var st goast.Node = a.curStmt
	if st == nil {
		st = n
	}
	v := c18Violation{File: a.fileOf[a.cur], Func: c18FuncName(a.cur), Stmt: a.text(st), Why: why + " `" + a.text(n) + "`"}
	k := v.File + "|" + v.Func + "|" + v.Stmt + "|" + v.Why
	if !a.seenViol[k] {
		a.seenViol[k] = true
		a.Violations = append(a.Violations, v)
	}
}

func c18FuncName(d *goast.FuncDecl) string {
	if d == nil {
		return "<package>"
	}
	return d.Name.Name
}

func (a *c18Analysis) typeOf(e goast.Expr) gotypes.Type {
	if tv, ok := a.info.Types[e]; ok {
		return tv.Type
	}
	if id, ok := e.(*goast.Ident); ok {
		if o := a.info.ObjectOf(id); o != nil {
			return o.Type()
		}
	}
	return nil
}

func (a *c18Analysis) restrict(l c18lv, t gotypes.Type) c18lv { return l & c18all(c18depth(t, nil)) }

// elem: the levels of what one element/deref step away from a value with levels l is.
func (a *c18Analysis) elem(l c18lv, t gotypes.Type) c18lv {
	r := c18down(l)
	if l&1 != 0 {
		r |= c18all(c18Top) // everything reachable from shared storage is shared
	}
	return a.restrict(r, t)
}

func (a *c18Analysis) join(k c18envKey, l c18lv) {
	if l&^a.env[k] != 0 {
		a.env[k] |= l
		a.changed = true
	}
}

func (a *c18Analysis) varOf(id *goast.Ident) *gotypes.Var {
	if v, ok := a.info.ObjectOf(id).(*gotypes.Var); ok {
		return v.Origin()
	}
	return nil
}

// c18PkgLevel: a package-level variable (of any package): storage shared by all goroutines.
func c18PkgLevel(v *gotypes.Var) bool {
	return v != nil && !v.IsField() && v.Pkg() != nil && v.Parent() == v.Pkg().Scope()
}

func (a *c18Analysis) key(v *gotypes.Var) c18envKey {
	if v.IsField() {
		return c18envKey{"", v}
	}
	return c18envKey{a.ctx, v}
}

func under(t gotypes.Type) gotypes.Type {
	if t == nil {
		return nil
	}
	return t.Underlying()
}

func isPointer(t gotypes.Type) bool {
	_, ok := under(t).(*gotypes.Pointer)
	return ok
}

func isArray(t gotypes.Type) bool {
	_, ok := under(t).(*gotypes.Array)
	return ok
}

// sharedLvalue: does a write to e write storage that other goroutines can reach?
func (a *c18Analysis) sharedLvalue(e goast.Expr) bool {
	switch e := e.(type) {
	case *goast.ParenExpr:
		return a.sharedLvalue(e.X)
	case *goast.Ident:
		return c18PkgLevel(a.varOf(e))
	case *goast.SelectorExpr:
		if sel, ok := a.info.Selections[e]; ok {
			if sel.Kind() != gotypes.FieldVal {
				return false
			}
			if sel.Indirect() {
				return a.eval(e.X)&1 != 0 || (!isPointer(a.typeOf(e.X)) && a.sharedLvalue(e.X))
			}
			return a.sharedLvalue(e.X)
		}
		return c18PkgLevel(a.varOf(e.Sel)) // pkg.Var
	case *goast.IndexExpr:
		if isArray(a.typeOf(e.X)) {
			return a.sharedLvalue(e.X)
		}
		return a.eval(e.X)&1 != 0
	case *goast.StarExpr:
		return a.eval(e.X)&1 != 0
	}
	return false
}

func (a *c18Analysis) eval(e goast.Expr) c18lv {
	switch e := e.(type) {
	case nil:
		return 0
	case *goast.ParenExpr:
		return a.eval(e.X)
	case *goast.Ident:
		v := a.varOf(e)
		if v == nil {
			return 0
		}
		if c18PkgLevel(v) {
			return c18all(c18depth(v.Type(), nil))
		}
		return a.env[a.key(v)]
	case *goast.SelectorExpr:
		if sel, ok := a.info.Selections[e]; ok {
			base := a.eval(e.X)
			if sel.Kind() != gotypes.FieldVal {
				return 0 // method value
			}
			f := sel.Obj().(*gotypes.Var).Origin()
			if sel.Indirect() {
				base = a.elem(base, nil)
			}
			return a.restrict(a.env[c18envKey{"", f}]|base, f.Type())
		}
		if v := a.varOf(e.Sel); c18PkgLevel(v) {
			return c18all(c18depth(v.Type(), nil))
		}
		return 0
	case *goast.IndexExpr:
		if tv, ok := a.info.Types[e.X]; ok && (tv.IsType() || isSignature(tv.Type)) {
			return 0 // instantiation
		}
		a.eval(e.Index)
		x := a.eval(e.X)
		t := a.typeOf(e)
		switch u := under(a.typeOf(e.X)).(type) {
		case *gotypes.Array:
			return a.restrict(x, t)
		case *gotypes.Basic:
			_ = u
			return 0
		}
		return a.elem(x, t)
	case *goast.IndexListExpr:
		return 0
	case *goast.SliceExpr:
		a.eval(e.Low)
		a.eval(e.High)
		a.eval(e.Max)
		x := a.eval(e.X)
		if isArray(a.typeOf(e.X)) {
			x = c18up(x)
			if a.sharedLvalue(e.X) {
				x |= 1
			}
		}
		return a.restrict(x, a.typeOf(e))
	case *goast.StarExpr:
		return a.elem(a.eval(e.X), a.typeOf(e))
	case *goast.UnaryExpr:
		x := a.eval(e.X)
		switch e.Op {
		case gotoken.AND:
			r := c18up(x)
			if _, lit := e.X.(*goast.CompositeLit); !lit && a.sharedLvalue(e.X) {
				r |= 1
				a.violation("takes the address of shared storage", e)
			}
			return r
		case gotoken.ARROW:
			return a.elem(x, a.typeOf(e))
		}
		return 0
	case *goast.BinaryExpr:
		a.eval(e.X)
		a.eval(e.Y)
		return 0
	case *goast.CallExpr:
		r := a.evalCall(e)
		if len(r) > 0 {
			return r[0]
		}
		return 0
	case *goast.CompositeLit:
		var r c18lv
		t := a.typeOf(e)
		_, isStruct := under(t).(*gotypes.Struct)
		for i, el := range e.Elts {
			if kv, ok := el.(*goast.KeyValueExpr); ok {
				x := a.eval(kv.Value)
				if isStruct {
					if id, ok := kv.Key.(*goast.Ident); ok {
						if f := a.varOf(id); f != nil && f.IsField() {
							a.join(c18envKey{"", f}, a.restrict(x, f.Type()))
						}
					}
					r |= x
				} else {
					a.eval(kv.Key)
					r |= c18up(x)
				}
				continue
			}
			x := a.eval(el)
			if isStruct {
				if st := under(t).(*gotypes.Struct); i < st.NumFields() {
					f := st.Field(i).Origin()
					a.join(c18envKey{"", f}, a.restrict(x, f.Type()))
				}
				r |= x
			} else if isArray(t) {
				r |= x
			} else {
				r |= c18up(x)
			}
		}
		return a.restrict(r, t)
	case *goast.TypeAssertExpr:
		x := a.eval(e.X)
		if e.Type == nil {
			return x
		}
		return a.restrict(x, a.typeOf(e))
	case *goast.FuncLit:
		a.block(e.Body)
		return 0
	case *goast.KeyValueExpr:
		a.eval(e.Key)
		return a.eval(e.Value)
	}
	return 0
}

func isSignature(t gotypes.Type) bool {
	_, ok := t.(*gotypes.Signature)
	return ok
}

// evalMulti: the levels of the n values an expression yields in a multi-value context.
func (a *c18Analysis) evalMulti(e goast.Expr, n int) []c18lv {
	out := make([]c18lv, n)
	if call, ok := goast.Unparen(e).(*goast.CallExpr); ok {
		r := a.evalCall(call)
		copy(out, r)
		return out
	}
	out[0] = a.eval(e) // v, ok := x.(T) / m[k] / <-ch
	return out
}

// assignTo: a value with levels l is stored into lvalue lhs.
func (a *c18Analysis) assignTo(lhs goast.Expr, l c18lv) {
	if l == 0 {
		return
	}
	switch lhs := lhs.(type) {
	case *goast.ParenExpr:
		a.assignTo(lhs.X, l)
	case *goast.Ident:
		if lhs.Name == "_" {
			return
		}
		if v := a.varOf(lhs); v != nil && !c18PkgLevel(v) {
			a.join(a.key(v), a.restrict(l, v.Type()))
		}
	case *goast.SelectorExpr:
		if sel, ok := a.info.Selections[lhs]; ok && sel.Kind() == gotypes.FieldVal {
			f := sel.Obj().(*gotypes.Var).Origin()
			a.join(c18envKey{"", f}, a.restrict(l, f.Type()))
		}
	case *goast.IndexExpr:
		if isArray(a.typeOf(lhs.X)) {
			a.assignTo(lhs.X, l)
		} else {
			a.assignTo(lhs.X, c18up(l))
		}
	case *goast.StarExpr:
		a.assignTo(lhs.X, c18up(l))
	case *goast.SliceExpr:
		a.assignTo(lhs.X, l)
	}
}

// holds: can a value of type t reach a field that (somewhere in the package) holds shared storage?
func (a *c18Analysis) holds(t gotypes.Type, seen map[gotypes.Type]bool) bool {
	if t == nil || seen[t] {
		return false
	}
	seen[t] = true
	switch u := t.(type) {
	case *gotypes.Named:
		return a.holds(u.Underlying(), seen)
	case *gotypes.Alias:
		return a.holds(gotypes.Unalias(u), seen)
	case *gotypes.Pointer:
		return a.holds(u.Elem(), seen)
	case *gotypes.Slice:
		return a.holds(u.Elem(), seen)
	case *gotypes.Array:
		return a.holds(u.Elem(), seen)
	case *gotypes.Map:
		return a.holds(u.Elem(), seen)
	case *gotypes.Struct:
		for i := 0; i < u.NumFields(); i++ {
			f := u.Field(i).Origin()
			if a.env[c18envKey{"", f}] != 0 || a.holds(f.Type(), seen) {
				return true
			}
		}
	}
	return false
}

// calleeOf resolves a call to a function declared in the generated files (origin object) and
// the instantiation context it is analysed in.
func (a *c18Analysis) calleeOf(call *goast.CallExpr) (fn *gotypes.Func, ctx string, recv goast.Expr, name string) {
	fun := goast.Unparen(call.Fun)
	var targs *gotypes.TypeList
	switch f := fun.(type) {
	case *goast.IndexExpr:
		fun = goast.Unparen(f.X)
	case *goast.IndexListExpr:
		fun = goast.Unparen(f.X)
	}
	ctxOf := func(tl *gotypes.TypeList) string {
		if tl == nil || tl.Len() == 0 {
			return ""
		}
		var parts []string
		for i := 0; i < tl.Len(); i++ {
			if _, isParam := tl.At(i).(*gotypes.TypeParam); isParam {
				return a.ctx // a generic body calling on its own type parameters
			}
			parts = append(parts, gotypes.TypeString(tl.At(i), func(p *gotypes.Package) string { return "" }))
		}
		return strings.Join(parts, ",")
	}
	switch f := fun.(type) {
	case *goast.Ident:
		name = f.Name
		if o, ok := a.info.ObjectOf(f).(*gotypes.Func); ok {
			if inst, ok := a.info.Instances[f]; ok {
				targs = inst.TypeArgs
			}
			return o.Origin(), ctxOf(targs), nil, name
		}
	case *goast.SelectorExpr:
		name = f.Sel.Name
		if sel, ok := a.info.Selections[f]; ok {
			if o, ok := sel.Obj().(*gotypes.Func); ok && sel.Kind() == gotypes.MethodVal {
				rt := sel.Recv()
				if p, ok := gotypes.Unalias(rt).(*gotypes.Pointer); ok {
					rt = p.Elem()
				}
				if n, ok := gotypes.Unalias(rt).(*gotypes.Named); ok {
					targs = n.TypeArgs()
				}
				return o.Origin(), ctxOf(targs), f.X, name
			}
			return nil, "", f.X, name // field of function type
		}
		if o, ok := a.info.ObjectOf(f.Sel).(*gotypes.Func); ok { // pkg.Func
			if inst, ok := a.info.Instances[f.Sel]; ok {
				targs = inst.TypeArgs
			}
			return o.Origin(), ctxOf(targs), nil, a.text(f)
		}
	}
	return nil, "", nil, a.text(call.Fun)
}

func (a *c18Analysis) evalCall(call *goast.CallExpr) []c18lv {
	// conversion
	if tv, ok := a.info.Types[call.Fun]; ok && tv.IsType() {
		var x c18lv
		for _, arg := range call.Args {
			x |= a.eval(arg)
		}
		return []c18lv{a.restrict(x, tv.Type)}
	}
	// builtin
	if id, ok := goast.Unparen(call.Fun).(*goast.Ident); ok {
		if _, ok := a.info.ObjectOf(id).(*gotypes.Builtin); ok {
			return a.evalBuiltin(id.Name, call)
		}
	}
	resTypes := func() []gotypes.Type {
		t := a.typeOf(call)
		if tup, ok := t.(*gotypes.Tuple); ok {
			out := make([]gotypes.Type, tup.Len())
			for i := range out {
				out[i] = tup.At(i).Type()
			}
			return out
		}
		return []gotypes.Type{t}
	}()
	fn, ctx, recvExpr, name := a.calleeOf(call)
	if fn != nil {
		if decl, ok := a.funcs[fn]; ok && decl.Body != nil {
			sig := fn.Type().(*gotypes.Signature)
			if rv := sig.Recv(); rv != nil && recvExpr != nil {
				r := a.eval(recvExpr)
				calleePtr := isPointer(rv.Type())
				argPtr := isPointer(a.typeOf(recvExpr))
				switch {
				case calleePtr && !argPtr: // implicit &recv
					r = c18up(r)
					if a.sharedLvalue(recvExpr) {
						r |= 1
						a.violation("calls a pointer-receiver method on shared storage", recvExpr)
					}
					a.join(c18envKey{ctx, rv.Origin()}, r)
					if a.collect {
						if b := rootIdentOf(recvExpr); b != nil && a.varOf(b) != nil && a.isRecv(a.varOf(b)) {
							if f := a.firstField(recvExpr); f != "" {
								a.FieldsWritten[f+" (through "+name+")"] = true
							}
						}
					}
					// what the callee stores through the pointer lands in recvExpr
					a.assignTo(recvExpr, c18down(a.env[c18envKey{ctx, rv.Origin()}]))
				case !calleePtr && argPtr:
					a.join(c18envKey{ctx, rv.Origin()}, a.elem(r, rv.Type()))
				default:
					a.join(c18envKey{ctx, rv.Origin()}, r)
				}
			}
			ps := sig.Params()
			for i, arg := range call.Args {
				x := a.eval(arg)
				pi := i
				if pi >= ps.Len() {
					pi = ps.Len() - 1
				}
				if pi < 0 {
					continue
				}
				p := ps.At(pi).Origin()
				if sig.Variadic() && pi == ps.Len()-1 && !call.Ellipsis.IsValid() {
					x = c18up(x)
				}
				a.join(c18envKey{ctx, p}, x)
				if u, ok := goast.Unparen(arg).(*goast.UnaryExpr); ok && u.Op == gotoken.AND {
					a.assignTo(u.X, c18down(a.env[c18envKey{ctx, p}]))
				}
			}
			k := c18inst{fn, ctx}
			if !a.insts[k] {
				a.insts[k] = true
				a.changed = true
			}
			out := make([]c18lv, len(resTypes))
			for i := range out {
				out[i] = a.restrict(a.ret[c18retKey{ctx, fn, i}], resTypes[i])
			}
			return out
		}
	}
	// unknown callee: it may do anything with what it is given
	check := func(e goast.Expr, what string) {
		x := a.eval(e)
		if x != 0 {
			a.violation(fmt.Sprintf("passes a value that refers to shared storage (levels %04b) as %s to `%s`, which is not part of the generated code:", x, what, name), e)
		} else if a.collect && a.holds(a.typeOf(e), map[gotypes.Type]bool{}) {
			a.violation(fmt.Sprintf("passes an object whose fields hold shared tables as %s to `%s`, which is not part of the generated code:", what, name), e)
		}
	}
	if recvExpr != nil {
		check(recvExpr, "receiver")
	} else if fn == nil {
		a.eval(call.Fun)
	}
	for _, arg := range call.Args {
		check(arg, "argument")
	}
	return make([]c18lv, len(resTypes))
}

func rootIdentOf(e goast.Expr) *goast.Ident {
	for {
		switch x := e.(type) {
		case *goast.Ident:
			return x
		case *goast.ParenExpr:
			e = x.X
		case *goast.SelectorExpr:
			e = x.X
		case *goast.IndexExpr:
			e = x.X
		case *goast.StarExpr:
			e = x.X
		default:
			return nil
		}
	}
}

func (a *c18Analysis) evalBuiltin(name string, call *goast.CallExpr) []c18lv {
	args := call.Args
	switch name {
	case "append":
		if len(args) == 0 {
			return []c18lv{0}
		}
		s := a.eval(args[0])
		if s&1 != 0 {
			a.violation("appends to a slice that refers to shared storage", args[0])
		}
		for i, x := range args[1:] {
			v := a.eval(x)
			if call.Ellipsis.IsValid() && i == len(args)-2 {
				s |= v
			} else {
				s |= c18up(v)
			}
		}
		return []c18lv{a.restrict(s, a.typeOf(call))}
	case "copy":
		if len(args) == 2 {
			d := a.eval(args[0])
			if d&1 != 0 {
				a.violation("copies into a slice that refers to shared storage", args[0])
			}
			a.assignTo(args[0], d|c18up(c18down(a.eval(args[1]))))
		}
		return []c18lv{0}
	case "clear", "delete":
		for i, x := range args {
			v := a.eval(x)
			if i == 0 && v&1 != 0 {
				a.violation(name+" on a value that refers to shared storage", x)
			}
		}
		return []c18lv{0}
	}
	for _, x := range args {
		if tv, ok := a.info.Types[x]; ok && tv.IsType() {
			continue
		}
		a.eval(x)
	}
	return []c18lv{0}
}

// checkWrite records a write to lhs: a violation when the storage is shared, otherwise its class.
func (a *c18Analysis) checkWrite(lhs goast.Expr, define bool) {
	lhs = goast.Unparen(lhs)
	if id, ok := lhs.(*goast.Ident); ok && (id.Name == "_" || (define && !c18PkgLevel(a.varOf(id)))) {
		if a.collect && id.Name != "_" && !a.seenWrite[id.Pos()] {
			a.seenWrite[id.Pos()] = true
			a.WriteClasses["local"]++
		}
		return
	}
	if a.sharedLvalue(lhs) {
		a.violation("writes", lhs)
		return
	}
	if !a.collect || a.seenWrite[lhs.Pos()] {
		return
	}
	a.seenWrite[lhs.Pos()] = true
	// classify by the base variable
	base := rootIdentOf(lhs)
	cls := "other"
	if base != nil {
		v := a.varOf(base)
		switch {
		case v == nil:
		case a.isRecv(v):
			cls = "receiver"
			// the outermost field selected from the receiver
			if f := a.firstField(lhs); f != "" {
				a.FieldsWritten[f] = true
			} else {
				a.FieldsWritten["(*"+a.recvTypeName()+")"] = true
			}
		case a.isParam(v):
			cls = "parameter"
		default:
			cls = "local"
		}
	}
	a.WriteClasses[cls]++
	if cls == "other" {
		a.violation("writes through something that is neither a receiver field, a local nor a parameter:", lhs)
	}
}

func (a *c18Analysis) isRecv(v *gotypes.Var) bool {
	if a.curFn == nil {
		return false
	}
	r := a.curFn.Type().(*gotypes.Signature).Recv()
	return r != nil && r.Origin() == v
}

func (a *c18Analysis) isParam(v *gotypes.Var) bool {
	if a.curFn == nil {
		return false
	}
	ps := a.curFn.Type().(*gotypes.Signature).Params()
	for i := 0; i < ps.Len(); i++ {
		if ps.At(i).Origin() == v {
			return true
		}
	}
	return false
}

func (a *c18Analysis) recvTypeName() string {
	r := a.curFn.Type().(*gotypes.Signature).Recv()
	t := r.Type()
	if p, ok := t.(*gotypes.Pointer); ok {
		t = p.Elem()
	}
	if n, ok := gotypes.Unalias(t).(*gotypes.Named); ok {
		return n.Obj().Name()
	}
	return t.String()
}

// firstField: for `recv.f.g[i]` the field f, named by the struct that declares it.
func (a *c18Analysis) firstField(e goast.Expr) string {
	var first string
	for {
		switch x := e.(type) {
		case *goast.ParenExpr:
			e = x.X
			continue
		case *goast.IndexExpr:
			e = x.X
			continue
		case *goast.StarExpr:
			e = x.X
			continue
		case *goast.SelectorExpr:
			if sel, ok := a.info.Selections[x]; ok && sel.Kind() == gotypes.FieldVal {
				f := sel.Obj().(*gotypes.Var).Origin()
				if o, ok := a.fieldOwner[f]; ok {
					first = o
				} else {
					first = "?." + f.Name()
				}
			}
			e = x.X
			continue
		}
		return first
	}
}

func (a *c18Analysis) block(b *goast.BlockStmt) {
	if b == nil {
		return
	}
	for _, s := range b.List {
		a.stmt(s)
	}
}

func (a *c18Analysis) stmt(s goast.Stmt) {
	if s == nil {
		return
	}
	prev := a.curStmt
	switch s.(type) {
	case *goast.BlockStmt, *goast.IfStmt, *goast.ForStmt, *goast.SwitchStmt, *goast.TypeSwitchStmt, *goast.SelectStmt,
		*goast.CaseClause, *goast.CommClause, *goast.LabeledStmt, *goast.RangeStmt:
	default:
		a.curStmt = s
	}
	defer func() { a.curStmt = prev }()
	switch s := s.(type) {
	case *goast.AssignStmt:
		define := s.Tok == gotoken.DEFINE
		if s.Tok != gotoken.ASSIGN && !define {
			for _, r := range s.Rhs {
				a.eval(r)
			}
			a.checkWrite(s.Lhs[0], false)
			return
		}
		var ls []c18lv
		if len(s.Lhs) == len(s.Rhs) {
			for _, r := range s.Rhs {
				ls = append(ls, a.eval(r))
			}
		} else {
			ls = a.evalMulti(s.Rhs[0], len(s.Lhs))
		}
		for i, l := range s.Lhs {
			a.checkWrite(l, define)
			a.assignTo(l, ls[i])
		}
	case *goast.IncDecStmt:
		a.checkWrite(s.X, false)
	case *goast.ExprStmt:
		a.eval(s.X)
	case *goast.ReturnStmt:
		if a.curFn != nil {
			n := a.curFn.Type().(*gotypes.Signature).Results().Len()
			var ls []c18lv
			if len(s.Results) == n {
				for _, r := range s.Results {
					ls = append(ls, a.eval(r))
				}
			} else if len(s.Results) == 1 {
				ls = a.evalMulti(s.Results[0], n)
			}
			for i, l := range ls {
				k := c18retKey{a.ctx, a.curFn, i}
				if l&^a.ret[k] != 0 {
					a.ret[k] |= l
					a.changed = true
				}
			}
		}
	case *goast.RangeStmt:
		x := a.eval(s.X)
		var et gotypes.Type
		if s.Value != nil {
			et = a.typeOf(s.Value)
		}
		el := a.elem(x, et)
		if isArray(a.typeOf(s.X)) {
			el = a.restrict(x, et)
		}
		define := s.Tok == gotoken.DEFINE
		a.curStmt = s
		if s.Key != nil {
			a.checkWrite(s.Key, define)
		}
		if s.Value != nil {
			a.checkWrite(s.Value, define)
			a.assignTo(s.Value, el)
		}
		a.curStmt = prev
		a.block(s.Body)
	case *goast.DeclStmt:
		if gd, ok := s.Decl.(*goast.GenDecl); ok && gd.Tok == gotoken.VAR {
			for _, sp := range gd.Specs {
				vs := sp.(*goast.ValueSpec)
				if len(vs.Values) == len(vs.Names) {
					for i, n := range vs.Names {
						a.assignTo(n, a.eval(vs.Values[i]))
					}
				} else if len(vs.Values) == 1 {
					ls := a.evalMulti(vs.Values[0], len(vs.Names))
					for i, n := range vs.Names {
						a.assignTo(n, ls[i])
					}
				}
				for _, n := range vs.Names {
					a.checkWrite(n, true)
				}
			}
		}
	case *goast.GoStmt:
		a.violation("starts a goroutine", s.Call)
		a.evalCall(s.Call)
	case *goast.DeferStmt:
		a.evalCall(s.Call)
	case *goast.SendStmt:
		a.eval(s.Chan)
		a.assignTo(s.Chan, c18up(a.eval(s.Value)))
	case *goast.BlockStmt:
		a.block(s)
	case *goast.IfStmt:
		a.stmt(s.Init)
		a.curStmt = s.Init
		a.eval(s.Cond)
		a.curStmt = prev
		a.block(s.Body)
		a.stmt(s.Else)
	case *goast.ForStmt:
		a.stmt(s.Init)
		a.eval(s.Cond)
		a.stmt(s.Post)
		a.block(s.Body)
	case *goast.SwitchStmt:
		a.stmt(s.Init)
		a.eval(s.Tag)
		a.block(s.Body)
	case *goast.TypeSwitchStmt:
		a.stmt(s.Init)
		var x c18lv
		switch as := s.Assign.(type) {
		case *goast.ExprStmt:
			x = a.eval(as.X)
		case *goast.AssignStmt:
			x = a.eval(as.Rhs[0])
		}
		for _, cc := range s.Body.List {
			if obj, ok := a.info.Implicits[cc].(*gotypes.Var); ok {
				a.join(c18envKey{a.ctx, obj}, a.restrict(x, obj.Type()))
			}
		}
		a.block(s.Body)
	case *goast.SelectStmt:
		a.block(s.Body)
	case *goast.CaseClause:
		for _, e := range s.List {
			if tv, ok := a.info.Types[e]; ok && tv.IsType() {
				continue
			}
			a.eval(e)
		}
		for _, b := range s.Body {
			a.stmt(b)
		}
	case *goast.CommClause:
		a.stmt(s.Comm)
		for _, b := range s.Body {
			a.stmt(b)
		}
	case *goast.LabeledStmt:
		a.stmt(s.Stmt)
	}
}

func (a *c18Analysis) runFunc(k c18inst) {
	decl := a.funcs[k.fn]
	if decl == nil || decl.Body == nil {
		return
	}
	a.cur, a.curFn, a.ctx, a.curStmt = decl, k.fn, k.ctx, nil
	a.block(decl.Body)
	// named results + naked returns
	res := k.fn.Type().(*gotypes.Signature).Results()
	for i := 0; i < res.Len(); i++ {
		if res.At(i).Name() != "" {
			rk := c18retKey{k.ctx, k.fn, i}
			if l := a.env[c18envKey{k.ctx, res.At(i).Origin()}]; l&^a.ret[rk] != 0 {
				a.ret[rk] |= l
				a.changed = true
			}
		}
	}
	a.cur, a.curFn, a.ctx = nil, nil, ""
}

func (a *c18Analysis) sortedInsts() []c18inst {
	var ks []c18inst
	for k := range a.insts {
		ks = append(ks, k)
	}
	sort.Slice(ks, func(i, j int) bool {
		pi, pj := a.funcs[ks[i].fn].Pos(), a.funcs[ks[j].fn].Pos()
		if pi != pj {
			return pi < pj
		}
		return ks[i].ctx < ks[j].ctx
	})
	return ks
}

// ---- per-package facts ----

type c18Var struct {
	File, Name, Pattern, Type string
	Table                     bool
	InitHasCall               bool
}

type c18PkgFacts struct {
	Kind, Name string
	Errors     []string
	Vars       []c18Var
	Readers    map[string][]string // variable pattern -> "file:func" that mention it
	Violations []c18Violation
	Fields     []string
	Classes    map[string]int
	UserRefs   []string
	Funcs      int
	Insts      int
}

func c18Analyze(kind string, p *packages.Package) *c18PkgFacts {
	pf := &c18PkgFacts{Kind: kind, Name: p.PkgPath, Readers: map[string][]string{}, Classes: map[string]int{}}
	for _, e := range p.Errors {
		pf.Errors = append(pf.Errors, e.Error())
	}
	if p.Types == nil || p.TypesInfo == nil {
		pf.Errors = append(pf.Errors, "no type information")
		return pf
	}
	a := &c18Analysis{fset: p.Fset, pkg: p.Types, info: p.TypesInfo,
		funcs: map[*gotypes.Func]*goast.FuncDecl{}, fileOf: map[*goast.FuncDecl]string{},
		env: map[c18envKey]c18lv{}, ret: map[c18retKey]c18lv{}, insts: map[c18inst]bool{},
		fieldOwner: map[*gotypes.Var]string{}, seenViol: map[string]bool{}, FieldsWritten: map[string]bool{},
		WriteClasses: map[string]int{}, seenWrite: map[gotoken.Pos]bool{}}
	// field owners
	sc := p.Types.Scope()
	for _, n := range sc.Names() {
		if tn, ok := sc.Lookup(n).(*gotypes.TypeName); ok {
			if st, ok := tn.Type().Underlying().(*gotypes.Struct); ok {
				for i := 0; i < st.NumFields(); i++ {
					a.fieldOwner[st.Field(i).Origin()] = tn.Name() + "." + st.Field(i).Name()
				}
			}
		}
	}
	genVars := map[*gotypes.Var]string{} // declared in generated files -> pattern
	var genDecls []*goast.FuncDecl
	type c18Spec struct {
		file string
		vs   *goast.ValueSpec
	}
	var genSpecs []c18Spec
	seenGen := map[string]bool{}
	for _, f := range p.Syntax {
		base := filepath.Base(p.Fset.Position(f.Pos()).Filename)
		if !c18GenFiles[base] {
			continue
		}
		seenGen[base] = true
		for _, d := range f.Decls {
			switch d := d.(type) {
			case *goast.GenDecl:
				if d.Tok != gotoken.VAR {
					continue
				}
				for _, sp := range d.Specs {
					vs := sp.(*goast.ValueSpec)
					hasCall := false
					for _, v := range vs.Values {
						goast.Inspect(v, func(n goast.Node) bool {
							switch n.(type) {
							case *goast.CallExpr, *goast.FuncLit:
								hasCall = true
							}
							return true
						})
					}
					for _, n := range vs.Names {
						v, _ := a.info.Defs[n].(*gotypes.Var)
						typ := "?"
						if v != nil {
							typ = gotypes.TypeString(v.Type(), func(*gotypes.Package) string { return "" })
						}
						pat, ok := c18VarPattern(base, n.Name, typ)
						pf.Vars = append(pf.Vars, c18Var{File: base, Name: n.Name, Pattern: pat, Type: typ, Table: ok, InitHasCall: hasCall})
						if v != nil {
							genVars[v] = pat
						}
					}
					genSpecs = append(genSpecs, c18Spec{base, vs})
				}
			case *goast.FuncDecl:
				if fn, ok := a.info.Defs[d.Name].(*gotypes.Func); ok {
					a.funcs[fn] = d
					a.fileOf[d] = base
					genDecls = append(genDecls, d)
				}
			}
		}
	}
	for f := range c18GenFiles {
		if !seenGen[f] {
			pf.Errors = append(pf.Errors, "generated file "+f+" is not part of the package")
		}
	}
	// readers: which generated function / initialiser mentions which package-level variable
	patOf := func(v *gotypes.Var) string {
		if pat, ok := genVars[v]; ok {
			return pat
		}
		return c18QualName(p.Types, v)
	}
	readers := map[string][]string{}
	scan := func(n goast.Node, who string) {
		goast.Inspect(n, func(n goast.Node) bool {
			if id, ok := n.(*goast.Ident); ok {
				if v, ok := a.info.Uses[id].(*gotypes.Var); ok && c18PkgLevel(v) {
					readers[patOf(v)] = append(readers[patOf(v)], who)
				}
			}
			return true
		})
	}
	for _, gs := range genSpecs {
		for i, val := range gs.vs.Values {
			n := gs.vs.Names[minInt(i, len(gs.vs.Names)-1)]
			who := n.Name
			if v, ok := a.info.Defs[n].(*gotypes.Var); ok {
				who = patOf(v)
			}
			scan(val, gs.file+":<initialiser of "+who+">")
		}
	}
	for _, d := range genDecls {
		scan(d, a.fileOf[d]+":"+d.Name.Name)
	}
	for k, v := range readers {
		sort.Strings(v)
		readers[k] = uniqStrings(v)
	}
	pf.Readers = readers
	// hand-written files that mention the generated variables
	for _, f := range p.Syntax {
		base := filepath.Base(p.Fset.Position(f.Pos()).Filename)
		if c18GenFiles[base] {
			continue
		}
		goast.Inspect(f, func(n goast.Node) bool {
			if id, ok := n.(*goast.Ident); ok {
				if v, ok := a.info.Uses[id].(*gotypes.Var); ok {
					if pat, ok := genVars[v]; ok {
						pf.UserRefs = append(pf.UserRefs, fmt.Sprintf("%s:%d mentions %s", base, p.Fset.Position(id.Pos()).Line, pat))
					}
				}
			}
			return true
		})
	}
	// fixpoint
	for fn := range a.funcs {
		a.insts[c18inst{fn, ""}] = true
	}
	for round := 0; round < 200; round++ {
		a.changed = false
		for _, k := range a.sortedInsts() {
			a.runFunc(k)
		}
		if !a.changed {
			break
		}
	}
	a.collect = true
	for _, k := range a.sortedInsts() {
		a.runFunc(k)
	}
	pf.Violations = a.Violations
	for f := range a.FieldsWritten {
		pf.Fields = append(pf.Fields, f)
	}
	sort.Strings(pf.Fields)
	pf.Classes = a.WriteClasses
	pf.Funcs = len(a.funcs)
	pf.Insts = len(a.insts)
	return pf
}

func c18QualName(self *gotypes.Package, v *gotypes.Var) string {
	if v.Pkg() != self {
		return v.Pkg().Path() + "." + v.Name()
	}
	return v.Name()
}

func minInt(a, b int) int {
	if a < b {
		return a
	}
	return b
}

func uniqStrings(xs []string) []string {
	var out []string
	for i, x := range xs {
		if i == 0 || x != xs[i-1] {
			out = append(out, x)
		}
	}
	return out
}

func c18Load(dir string, patterns ...string) ([]*packages.Package, error) {
	cfg := &packages.Config{
		Mode: packages.NeedName | packages.NeedFiles | packages.NeedCompiledGoFiles | packages.NeedImports |
			packages.NeedTypes | packages.NeedTypesSizes | packages.NeedSyntax | packages.NeedTypesInfo,
		Dir: dir,
		Env: append(os.Environ(), "GOFLAGS=-mod=mod", "GOPROXY=off", "GOSUMDB=off", "GOTOOLCHAIN=local"),
	}
	return packages.Load(cfg, patterns...)
}

// c18GenBatch generates nParsers parser packages (balanced over with/without _onBounds and
// with/without @error) and nLexers lexer packages into root. Returns package name -> kind and,
// for the concurrent family, the specifications.
type c18Gen struct {
	Name  string
	Kind  string
	GSpec *GSpec
	LSpec *LSpec
	Pkg   *GenPkg
}

func c18GenBatch(c *Ctx, root string, nParsers, nLexers int) []*c18Gen {
	WriteModule(root)
	var out []*c18Gen
	opts := GenOpts{MaxTokens: 4, MaxRules: 4, MaxProds: 3, MaxTerms: 4, Sugar: true, Errors: true, Prec: true}
	if c.Tier == "thorough" {
		opts = GenOpts{MaxTokens: 5, MaxRules: 6, MaxProds: 4, MaxTerms: 5, Sugar: true, Errors: true, Prec: true}
	}
	serial := 0
	kinds := map[string]int{}
	// directed: a WIDE grammar (one state with more than 40 lookahead terminals and an @error production): long
	// table rows, so that anything that reorganises or caches per row is exercised
	{
		var alts []string
		for i := 0; i < 40; i++ {
			alts = append(alts, fmt.Sprintf("K%d SEMI", i))
		}
		ws := ParseGSpec("s = item*; item = " + strings.Join(alts, " | ") + " | @e SEMI")
		for i, p := range GenerateAll(root, []string{"w0000"}, []string{ws.Lox()}, []string{ws.GoSource("w0000")}, false) {
			if p.OK && i == 0 {
				kinds["parser+error"]++
				out = append(out, &c18Gen{Name: p.Name, Kind: "parser+error", GSpec: ws, Pkg: p})
				nParsers++
			}
		}
	}
	small := GenOpts{MaxTokens: 4, MaxRules: 4, MaxProds: 3, MaxTerms: 4, Sugar: true, Errors: true, Prec: true}
	for attempt := 0; attempt < 8 && (len(out) < nParsers || (len(kinds) < 4 && nParsers >= 4)); attempt++ {
		var specs []*GSpec
		var names, loxs, gos []string
		batch := 2*(nParsers-len(out)) + 4
		if len(out) >= nParsers {
			batch = 8 // only a kind is still missing
		}
		if batch > 64 {
			batch = 64
		}
		for i := 0; i < batch; i++ {
			o := opts
			if (serial/4)%2 == 1 {
				o = small // large random grammars are mostly rejected for conflicts
			}
			o.Errors = serial%2 == 0
			o.Prec = serial%3 == 0
			s := GenSpec(c.Rng, o)
			s.WithBounds = (serial/2)%2 == 0
			if o.Errors && !s.UsesError() {
				// the classic yacc shape: one rule gets an error production
				host := s.Rules[c.Rng.Intn(len(s.Rules))]
				ep := &GProd{Terms: []*GTerm{{Kind: KErr}}}
				if c.Rng.Bool() {
					ep.Terms = append(ep.Terms, &GTerm{Kind: KTok, Tok: c.Rng.Intn(len(s.Tokens))})
				}
				host.Prods = append(host.Prods, ep)
			}
			name := fmt.Sprintf("g%04d", serial)
			serial++
			specs = append(specs, s)
			names = append(names, name)
			loxs = append(loxs, s.Lox())
			gos = append(gos, s.GoSource(name))
		}
		pkgs := GenerateAll(root, names, loxs, gos, false)
		for i, p := range pkgs {
			s := specs[i]
			kind := "parser"
			if s.WithBounds {
				kind += "+bounds"
			}
			if s.UsesError() {
				kind += "+error"
			}
			switch {
			case p.Panic != "":
				c.Count("generator-panic")
				c.EmitO("# generator panic on "+strings.ReplaceAll(p.Lox, "\n", " ⏎ "), "panic", "C12: generator panicked: "+p.Panic)
			case p.OK && (len(out) < nParsers || kinds[kind] == 0):
				kinds[kind]++
				out = append(out, &c18Gen{Name: p.Name, Kind: kind, GSpec: s, Pkg: p})
				continue
			}
			os.RemoveAll(p.Dir)
		}
	}
	var lspecs []*LSpec
	var names, loxs, gos []string
	for i := 0; i < nLexers; i++ {
		o := LGenOpts{MaxModes: 3, MaxRules: 4, Depth: 1, Small: c.Rng.Chance(2, 3)}
		if c.Tier == "thorough" {
			o = LGenOpts{MaxModes: 3, MaxRules: 7, Depth: 2, Small: c.Rng.Chance(1, 2)}
		}
		s := GenLSpec(c.Rng, o)
		name := fmt.Sprintf("x%04d", i)
		lspecs = append(lspecs, s)
		names = append(names, name)
		loxs = append(loxs, s.Lox(c.Rng))
		gos = append(gos, strings.ReplaceAll(lexPkgTemplate, "PKG", name))
	}
	pkgs := GenerateAll(root, names, loxs, gos, false)
	for i, p := range pkgs {
		switch {
		case p.Panic != "":
			c.Count("generator-panic")
			c.EmitO("# generator panic on "+strings.ReplaceAll(p.Lox, "\n", " ⏎ "), "panic", "C12: generator panicked: "+p.Panic)
			os.RemoveAll(p.Dir)
		case !p.OK:
			c.Count("lexer-spec-rejected")
			os.RemoveAll(p.Dir)
		default:
			kind := "lexer"
			if len(lspecs[i].Modes) > 1 {
				kind = "lexer+modes"
			}
			out = append(out, &c18Gen{Name: p.Name, Kind: kind, LSpec: lspecs[i], Pkg: p})
		}
	}
	sort.Slice(out, func(i, j int) bool { return out[i].Name < out[j].Name })
	return out
}

type c18KindAgg struct {
	Packages int                 `json:"packages"`
	Vars     map[string][]string `json:"vars"`    // file -> sorted "pattern type"
	Readers  map[string][]string `json:"readers"` // pattern -> sorted "file:func"
	Fields   []string            `json:"receiver_fields_written"`
	Classes  map[string]int      `json:"write_classes"`
	Funcs    int                 `json:"functions_analysed"`
}

func init() {
	register("facts_shared", "C18 premise: package-level variables of generated files are the tables and nothing in the generated code can write through them", func(c *Ctx) {
		root, err := os.MkdirTemp("", "verif-shared-")
		if err != nil {
			panic(err)
		}
		if os.Getenv("VERIF_KEEP") == "" {
			defer os.RemoveAll(root)
		} else {
			fmt.Fprintln(os.Stderr, "keeping", root)
		}
		nP, nL := c.N, (c.N+1)/2
		t0 := time.Now()
		lap := func(what string) {
			c.Extra["t_"+what] = time.Since(t0).Seconds()
			if os.Getenv("VERIF_KEEP") != "" {
				fmt.Fprintf(os.Stderr, "%-20s %.1fs\n", what, time.Since(t0).Seconds())
			}
		}
		gens := c18GenBatch(c, root, nP, nL)
		lap("generate")
		var facts []*c18PkgFacts
		kindOf := map[string]string{}
		for _, g := range gens {
			kindOf["verifgen/"+g.Name] = g.Kind
		}
		if len(gens) > 0 {
			pkgs, err := c18Load(root, "./...")
			if err != nil {
				c.EmitO("# C18 shared | load generated packages", "# load failed", "C18: premise not established: cannot load the generated packages: "+err.Error())
			}
			sort.Slice(pkgs, func(i, j int) bool { return pkgs[i].PkgPath < pkgs[j].PkgPath })
			for _, p := range pkgs {
				k, ok := kindOf[p.PkgPath]
				if !ok {
					continue
				}
				facts = append(facts, c18Analyze(k, p))
			}
		}
		lap("analyse-generated")
		var pats []string
		for _, d := range shippedDirs {
			pats = append(pats, "./"+d)
		}
		rp, err := c18Load(repoRoot(), pats...)
		if err != nil {
			c.EmitO("# C18 shared | load checked-in packages", "# load failed", "C18: premise not established: cannot load the checked-in packages: "+err.Error())
		}
		for _, d := range shippedDirs {
			found := false
			for _, p := range rp {
				if strings.HasSuffix(p.PkgPath, "/"+d) {
					facts = append(facts, c18Analyze("repo:"+d, p))
					found = true
				}
			}
			if !found {
				c.EmitO("# C18 shared repo:"+d+" | load", "# missing", "C18: premise not established: package "+d+" was not loaded")
			}
		}
		lap("analyse-checked-in")
		c18Emit(c, facts)
	})
}

func c18Emit(c *Ctx, facts []*c18PkgFacts) {
	agg := map[string]*c18KindAgg{}
	var kinds []string
	add := func(xs []string, x string) []string {
		for _, y := range xs {
			if y == x {
				return xs
			}
		}
		xs = append(xs, x)
		sort.Strings(xs)
		return xs
	}
	for _, pf := range facts {
		k := agg[pf.Kind]
		if k == nil {
			k = &c18KindAgg{Vars: map[string][]string{}, Readers: map[string][]string{}, Classes: map[string]int{}}
			for f := range c18GenFiles {
				k.Vars[f] = []string{}
			}
			agg[pf.Kind] = k
			kinds = append(kinds, pf.Kind)
		}
		k.Packages++
		k.Funcs += pf.Funcs
		c.Count("packages")
		c.Count("packages:" + strings.SplitN(pf.Kind, ":", 2)[0])
		c.Distinct(pf.Kind + "|" + pf.Name)
		if len(pf.Errors) > 0 {
			note := "# C18 shared " + pf.Kind + " " + pf.Name + " | does not type-check"
			c.EmitO(note, note, "C18: premise not established: "+pf.Name+" does not load/type-check: "+strings.Join(pf.Errors, " ⏎ "))
			continue
		}
		for _, v := range pf.Vars {
			k.Vars[v.File] = add(k.Vars[v.File], v.Pattern+" "+v.Type)
			if !v.Table {
				note := fmt.Sprintf("# C18 shared %s %s | unexpected var %s:%s %s", pf.Kind, pf.Name, v.File, v.Name, v.Type)
				c.EmitO(note, note, fmt.Sprintf("C18: unexpected package-level variable in generated code: %s: var %s %s (package %s, kind %s)", v.File, v.Name, v.Type, pf.Name, pf.Kind))
				c.Count("unexpected-vars")
			}
			if v.InitHasCall {
				note := fmt.Sprintf("# C18 shared %s %s | initialiser with call %s:%s", pf.Kind, pf.Name, v.File, v.Name)
				c.EmitO(note, note, fmt.Sprintf("C18: generated code writes shared state: %s:<initialiser of %s>: the initialiser runs code (package %s)", v.File, v.Name, pf.Name))
			}
		}
		for pat, rs := range pf.Readers {
			for _, r := range rs {
				k.Readers[pat] = add(k.Readers[pat], r)
			}
		}
		for _, f := range pf.Fields {
			k.Fields = add(k.Fields, c18NormField(f))
		}
		for cl, n := range pf.Classes {
			k.Classes[cl] += n
			c.Counters["writes:"+cl] += n
		}
		for _, v := range pf.Violations {
			note := fmt.Sprintf("# C18 shared %s %s | shared write %s:%s", pf.Kind, pf.Name, v.File, v.Func)
			c.EmitO(note, note, fmt.Sprintf("C18: generated code writes shared state: %s:%s: %s  [%s] (package %s, kind %s)", v.File, v.Func, v.Stmt, v.Why, pf.Name, pf.Kind))
			c.Count("shared-writes")
		}
		for _, u := range pf.UserRefs {
			note := fmt.Sprintf("# C18 shared %s %s | hand-written reference %s", pf.Kind, pf.Name, u)
			c.EmitO(note, note, fmt.Sprintf("C18: hand-written code references a generated table variable: %s (package %s)", u, pf.Name))
		}
	}
	sort.Strings(kinds)
	for _, kd := range kinds {
		k := agg[kd]
		emit := func(s string) {
			line := "# C18 shared " + kd + " | " + s
			c.Emit(line, line)
		}
		emit(fmt.Sprintf("packages %d functions %d", k.Packages, k.Funcs))
		var files []string
		for f := range k.Vars {
			files = append(files, f)
		}
		sort.Strings(files)
		for _, f := range files {
			emit("vars " + f + ": " + strings.Join(k.Vars[f], ", "))
		}
		var ps []string
		for p := range k.Readers {
			ps = append(ps, p)
		}
		sort.Strings(ps)
		for _, p := range ps {
			emit("readers " + p + " <- " + strings.Join(k.Readers[p], ", "))
		}
		emit("receiver fields written: " + strings.Join(k.Fields, ", "))
		var cls []string
		for cl, n := range k.Classes {
			cls = append(cls, fmt.Sprintf("%s=%d", cl, n))
		}
		sort.Strings(cls)
		emit("write classes: " + strings.Join(cls, " "))
	}
	c.Extra["inventory"] = agg
}

// c18NormField: the parser methods hang off the user's parser type, whose fields live in `lox`.
func c18NormField(f string) string { return f }
