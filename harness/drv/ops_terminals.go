//go:build verif

package main

import (
	"fmt"
	goast "go/ast"
	goparser "go/parser"
	gotoken "go/token"
	"os"
	"path/filepath"
	"sort"
	"strconv"
	"strings"
)

// Family terminals (C19): random multi-file specifications with tokens in and outside modes,
// @external names in the middle, tokens emitted only through @emit, tokens never referenced by
// the parser; through the real generator. Case line (see lean/Lox/Dec/DrvTerminals.lean):
//   dec.terminals T:<name> X:<name> M:<mode>{ … } O F| …      impl: names in constant order
// Oracle: base.gen.go read back — EOF = 0, ERROR = 1, one constant per terminal, dense, in
// declaration order; _TokenToString maps each constant to its name and anything else to "???";
// lexer accept parameters of token rules equal their constants.

const termPkgTemplate = `package PKG

import "strings"

type Token struct{}
type Node struct{}
type P struct{ lox }

func (p *P) on_s(a Token) Node { return Node{} }

// Run prints _TokenToString of every given value.
func Run(t []int, b int) (res string) {
	defer func() {
		if e := recover(); e != nil {
			res = "panic"
		}
	}()
	ss := make([]string, len(t))
	for i, x := range t {
		ss[i] = _TokenToString(x)
	}
	return strings.Join(ss, " ")
}
`

// tokenToStringCases extracts `case NAME: return "str"` pairs and the default of _TokenToString.
func tokenToStringCases(path string) (map[string]string, string, error) {
	fset := gotoken.NewFileSet()
	f, err := goparser.ParseFile(fset, path, nil, 0)
	if err != nil {
		return nil, "", err
	}
	m := map[string]string{}
	def := ""
	for _, d := range f.Decls {
		fd, ok := d.(*goast.FuncDecl)
		if !ok || fd.Name.Name != "_TokenToString" {
			continue
		}
		goast.Inspect(fd, func(n goast.Node) bool {
			cc, ok := n.(*goast.CaseClause)
			if !ok {
				return true
			}
			ret := ""
			for _, st := range cc.Body {
				if rs, ok := st.(*goast.ReturnStmt); ok && len(rs.Results) == 1 {
					if bl, ok := rs.Results[0].(*goast.BasicLit); ok {
						ret, _ = strconv.Unquote(bl.Value)
					}
				}
			}
			if cc.List == nil {
				def = ret
			}
			for _, e := range cc.List {
				if id, ok := e.(*goast.Ident); ok {
					m[id.Name] = ret
				}
			}
			return true
		})
	}
	return m, def, nil
}

func init() {
	register("terminals", "token numbering of random multi-file specs vs the numbering model (C19)", func(c *Ctx) {
		root, err := os.MkdirTemp("", "verif-terminals-")
		if err != nil {
			panic(err)
		}
		defer os.RemoveAll(root)
		WriteModule(root)
		type spec struct {
			enc   string
			names []string // expected order
		}
		var specs []spec
		var names []string
		var files []map[string]string
		var gos []string
		for i := 0; i < c.N; i++ {
			nf := 1 + c.Rng.Intn(3)
			fm := map[string]string{}
			var enc []string
			var order []string
			tok := 0
			lit := func() string { return fmt.Sprintf("'k%dz'", tok) }
			first, firstExt := "", ""
			var tokNames, emitNames []string
			// names whose alphabetical order is unrelated to the declaration order
			tname := func() string { return fmt.Sprintf("%s%d", Pick(c.Rng, []string{"T", "T", "K", "ZZ", "A"}), tok) }
			xname := func() string { return fmt.Sprintf("%s%d", Pick(c.Rng, []string{"X", "X", "B", "YQ_", "A"}), tok) }
			// every fifth specification declares NO token rule: all terminals are @external (hand-written lexer)
			allExt := i%5 == 4
			for f := 0; f < nf; f++ {
				var sb strings.Builder
				sb.WriteString("@lexer\n")
				if f > 0 {
					enc = append(enc, "F|")
				}
				ns := 1 + c.Rng.Intn(5)
				nmode := 0
				for k := 0; k < ns; k++ {
					choice := c.Rng.Intn(6)
					if allExt && choice != 5 {
						choice = 3
					}
					switch choice {
					case 0, 1, 2:
						name := tname()
						fmt.Fprintf(&sb, "%s = %s\n", name, lit())
						tok++
						enc = append(enc, "T:"+name)
						order = append(order, name)
						tokNames = append(tokNames, name)
						if first == "" {
							first = name
						}
					case 3:
						nx := 1 + c.Rng.Intn(2)
						sb.WriteString("@external")
						for x := 0; x < nx; x++ {
							name := xname()
							tok++
							sb.WriteString(" " + name)
							enc = append(enc, "X:"+name)
							order = append(order, name)
							emitNames = append(emitNames, name)
							if firstExt == "" {
								firstExt = name
							}
						}
						sb.WriteString("\n")
					case 4:
						mname := fmt.Sprintf("M%d_%d", f, nmode)
						nmode++
						fmt.Fprintf(&sb, "@mode %s {\n", mname)
						enc = append(enc, "M:"+mname+"{")
						nt := 1 + c.Rng.Intn(3)
						for x := 0; x < nt; x++ {
							name := tname()
							fmt.Fprintf(&sb, "  %s = %s @pop_mode\n", name, lit())
							tok++
							enc = append(enc, "T:"+name)
							order = append(order, name)
							tokNames = append(tokNames, name)
						}
						sb.WriteString("}\n")
						enc = append(enc, "}")
					case 5:
						// a fragment emitting some token (possibly declared later, possibly in another file)
						if len(tokNames)+len(emitNames) > 0 {
							fmt.Fprintf(&sb, "@frag %s @emit(%s)\n", lit(), Pick(c.Rng, append(append([]string{}, tokNames...), emitNames...)))
							tok++
							enc = append(enc, "O")
						}
					}
				}
				fm[fmt.Sprintf("f%d.lox", f)] = sb.String()
			}
			if first == "" && firstExt != "" {
				first = firstExt
				c.Count("specs-with-external-tokens-only")
			}
			if first == "" {
				fm["f0.lox"] += "T999 = 'q'\n"
				enc = append([]string{"T:T999"}, enc...) // f0's statements come first only if nothing else was a token; keep simple: regenerate
				continue
			}
			// parser section in the last file
			last := fmt.Sprintf("f%d.lox", nf-1)
			fm[last] += "@parser\n@start s = " + first + "\n"
			enc = append(enc, "O:s")
			name := fmt.Sprintf("n%04d", len(names))
			names = append(names, name)
			files = append(files, fm)
			gos = append(gos, strings.ReplaceAll(termPkgTemplate, "PKG", name))
			specs = append(specs, spec{strings.Join(enc, " "), append([]string{"EOF", "ERROR"}, order...)})
		}
		pkgs := GenerateAllFiles(root, names, files, gos, false)
		var okNames []string
		for _, p := range pkgs {
			if p.OK {
				okNames = append(okNames, p.Name)
			}
		}
		bin, berr := "", error(nil)
		if len(okNames) > 0 {
			bin, berr = BuildMux(root, okNames)
		}
		if berr != nil {
			c.EmitO("# go build of generated packages", "# build-failed", "C06: generated packages do not compile: "+strings.ReplaceAll(berr.Error(), "\n", " ⏎ "))
			return
		}
		for i, p := range pkgs {
			sp := specs[i]
			flat := strings.ReplaceAll(strings.TrimSpace(p.Lox), "\n", " ⏎ ")
			line := "dec.terminals " + sp.enc
			if !p.OK {
				c.Count("rejected")
				c.EmitO(line, "rejected", "C17: well-formed specification rejected: "+strings.ReplaceAll(strings.TrimSpace(p.Diag+p.Panic), "\n", " ⏎ ")+" | spec: "+flat)
				continue
			}
			c.Count("accepted")
			// constants sorted by value
			type kv struct {
				n string
				v int
			}
			var kvs []kv
			for n, v := range p.Consts {
				kvs = append(kvs, kv{n, v})
			}
			sort.Slice(kvs, func(a, b int) bool { return kvs[a].v < kvs[b].v || (kvs[a].v == kvs[b].v && kvs[a].n < kvs[b].n) })
			var got []string
			or := ""
			for k, x := range kvs {
				got = append(got, x.n)
				if x.v != k {
					or = fmt.Sprintf("C19: constants are not dense: %s = %d at position %d", x.n, x.v, k)
				}
			}
			if or == "" && (p.Consts["EOF"] != 0 || p.Consts["ERROR"] != 1) {
				or = "C19: EOF/ERROR are not 0/1"
			}
			if or == "" && strings.Join(got, " ") != strings.Join(sp.names, " ") {
				or = "C19: constants do not follow declaration order: want " + strings.Join(sp.names, " ") + " got " + strings.Join(got, " ")
			}
			if or == "" {
				cases, def, err := tokenToStringCases(filepath.Join(p.Dir, "base.gen.go"))
				if err != nil || def != "???" {
					or = "C19: _TokenToString default is not \"???\""
				}
				for _, n := range sp.names {
					if cases[n] != n {
						or = fmt.Sprintf("C19: _TokenToString(%s) = %q", n, cases[n])
					}
				}
				if len(cases) != len(sp.names) {
					or = "C19: _TokenToString has a different number of cases than there are terminals"
				}
			}
			if or == "" {
				// the compiled function on every constant, on the values around the range and on far values
				n := len(sp.names)
				probe := []int{-1000, -2, -1}
				for v := 0; v <= n+2; v++ {
					probe = append(probe, v)
				}
				probe = append(probe, 2*n, 255, 256, 65536, 1<<31-1)
				outs := RunMux(bin, []string{fmt.Sprintf("%s 0 %s", p.Name, joinInts(probe))})
				var want []string
				for _, v := range probe {
					if v >= 0 && v < n {
						want = append(want, sp.names[v])
					} else {
						want = append(want, "???")
					}
				}
				if outs[0] != strings.Join(want, " ") {
					or = fmt.Sprintf("C19: _TokenToString on %v gives `%s`, want `%s`", probe, outs[0], strings.Join(want, " "))
				}
			}
			if or != "" {
				or += " | spec: " + flat
			}
			c.Distinct(sp.enc)
			if len(files[i]) > 1 {
				c.Count("multi-file")
			}
			c.EmitO(line, strings.Join(got, " "), or)
		}
	})
}
