//go:build verif

package main

import (
	"bytes"
	"context"
	"encoding/base64"
	"encoding/json"
	"fmt"
	"os"
	"os/exec"
	"path/filepath"
	"regexp"
	"sort"
	"strings"
	"sync"
	"syscall"
	"time"
	"unicode/utf8"
)

// Families cli_fuzz (C12) and determinism (C13): the REAL command, built from the working tree
// (`go build ./cmd/lox`), run as a subprocess on scratch directories.
//
// cli_fuzz oracle (the property statement itself):
//
//	exit 0   => base.gen.go, lexer.gen.go, parser.gen.go exist, are non-empty, and the package compiles
//	exit ≠ 0 => stderr has at least one line besides the trailing "Error: errors ocurred"
//	never a Go panic trace, never a timeout
//
// Case lines are notes (`# cli <n> <kind>`); a violating case carries the complete input as JSON
// in the oracle column (`C12: <what> | case: {...}`), which `-replay` accepts back as `cli {...}`.

type cliCase struct {
	ID       string            `json:"id,omitempty"` // witness id (corpus/C12)
	Kind     string            `json:"kind"`
	Files    map[string]string `json:"files,omitempty"`     // file name -> content (valid UTF-8)
	FilesB64 map[string]string `json:"files_b64,omitempty"` // file name -> base64 (arbitrary bytes)
	Dirs     []string          `json:"dirs,omitempty"`      // sub-directories to create
	Args     []string          `json:"args,omitempty"`      // default: ["<dir>"]; "<dir>" is replaced
	Cwd      string            `json:"cwd,omitempty"`       // "" = scratch root, "<dir>" = the case directory
	Expect   string            `json:"expect,omitempty"`    // witnesses: "diagnostic" | "success"
	Gen      *cliGen           `json:"gen,omitempty"`       // witnesses: g.lox produced by a generator instead of stored text
	BudgetS  int               `json:"budget_s,omitempty"`  // witnesses: the only timeout of this case (no retry)
	Tier     string            `json:"tier,omitempty"`      // witnesses: "thorough" = skipped in the quick tier
	What     string            `json:"what,omitempty"`
	// harness-internal
	Lox string `json:"lox,omitempty"` // witness files of the generic `witness` family carry the text here
}

// cliGen names a generated input that is too large to store.
//
//	nested_parens N   @lexer A = (((…'a'…))) with N levels
//	macro_doubling N  @macro M0 = 'a' | 'b'; Mi = Mi-1 Mi-1 (i ≤ N); A = MN
type cliGen struct {
	Name string `json:"name"`
	N    int    `json:"n"`
}

func (g *cliGen) text() string {
	switch g.Name {
	case "nested_parens":
		return "@lexer\nA = " + strings.Repeat("(", g.N) + "'a'" + strings.Repeat(")", g.N) + "\n@parser\n@start s = A\n"
	case "macro_doubling":
		return macroBomb(g.N)
	}
	return ""
}

func (c *cliCase) put(name string, data []byte) {
	if utf8.Valid(data) && !bytes.Contains(data, []byte{0}) {
		if c.Files == nil {
			c.Files = map[string]string{}
		}
		c.Files[name] = string(data)
		delete(c.FilesB64, name)
		return
	}
	if c.FilesB64 == nil {
		c.FilesB64 = map[string]string{}
	}
	c.FilesB64[name] = base64.StdEncoding.EncodeToString(data)
	delete(c.Files, name)
}

func (c *cliCase) get(name string) ([]byte, bool) {
	if s, ok := c.Files[name]; ok {
		return []byte(s), true
	}
	if s, ok := c.FilesB64[name]; ok {
		b, _ := base64.StdEncoding.DecodeString(s)
		return b, true
	}
	return nil, false
}

func (c *cliCase) names() []string {
	var ns []string
	for n := range c.Files {
		ns = append(ns, n)
	}
	for n := range c.FilesB64 {
		ns = append(ns, n)
	}
	sort.Strings(ns)
	return ns
}

func (c *cliCase) clone() *cliCase {
	b, _ := json.Marshal(c)
	var d cliCase
	json.Unmarshal(b, &d)
	return &d
}

func (c *cliCase) json() string {
	b, _ := json.Marshal(c)
	return string(b)
}

func (c *cliCase) write(dir string) error {
	if err := os.MkdirAll(dir, 0o755); err != nil {
		return err
	}
	for _, d := range c.Dirs {
		os.MkdirAll(filepath.Join(dir, d), 0o755)
	}
	for _, n := range c.names() {
		data, _ := c.get(n)
		if err := os.WriteFile(filepath.Join(dir, n), data, 0o644); err != nil {
			return err
		}
	}
	if c.Gen != nil {
		if err := os.WriteFile(filepath.Join(dir, "g.lox"), []byte(c.Gen.text()), 0o644); err != nil {
			return err
		}
		if _, has := c.get("p.go"); !has {
			os.WriteFile(filepath.Join(dir, "p.go"), []byte(strings.ReplaceAll(permissiveGo, "PKG", filepath.Base(dir))), 0o644)
		}
	}
	return nil
}

type cliResult struct {
	Exit     int
	Stdout   string
	Stderr   string
	TimedOut bool
	Dur      time.Duration
}

var goEnv = []string{"GOFLAGS=-mod=mod", "GOPROXY=off", "GOSUMDB=off", "GOTOOLCHAIN=local"}

func buildCLI(outDir string) (string, error) {
	bin := filepath.Join(outDir, "lox.bin")
	cmd := exec.Command("go", "build", "-o", bin, "./cmd/lox")
	cmd.Dir = repoRoot()
	cmd.Env = append(os.Environ(), goEnv...)
	out, err := cmd.CombinedOutput()
	if err != nil {
		return "", fmt.Errorf("go build ./cmd/lox failed: %v\n%s", err, out)
	}
	return bin, nil
}

// runCLI runs the command in its own process group (lox starts `go list`) and kills the group
// on timeout.
func runCLI(bin string, args []string, cwd string, timeout time.Duration) cliResult {
	return runCLIEnv(bin, args, cwd, timeout, nil)
}

// runCLIEnv: like runCLI with further environment settings (later entries win).
func runCLIEnv(bin string, args []string, cwd string, timeout time.Duration, extraEnv []string) cliResult {
	ctx, cancel := context.WithTimeout(context.Background(), timeout)
	defer cancel()
	cmd := exec.Command(bin, args...)
	cmd.Dir = cwd
	cmd.Env = append(append(os.Environ(), goEnv...), extraEnv...)
	cmd.SysProcAttr = &syscall.SysProcAttr{Setpgid: true}
	var so, se bytes.Buffer
	cmd.Stdout, cmd.Stderr = &so, &se
	t0 := time.Now()
	if err := cmd.Start(); err != nil {
		return cliResult{Exit: -1, Stderr: "start: " + err.Error()}
	}
	done := make(chan error, 1)
	go func() { done <- cmd.Wait() }()
	res := cliResult{}
	select {
	case <-done:
	case <-ctx.Done():
		res.TimedOut = true
		syscall.Kill(-cmd.Process.Pid, syscall.SIGKILL)
		<-done
	}
	res.Dur = time.Since(t0)
	res.Stdout, res.Stderr = so.String(), se.String()
	if cmd.ProcessState != nil {
		res.Exit = cmd.ProcessState.ExitCode()
	}
	return res
}

var genNames = []string{"base.gen.go", "lexer.gen.go", "parser.gen.go"}

var panicRe = regexp.MustCompile(`(?m)^(panic: |fatal error: |goroutine \d+ \[)`)

// cliVerdict evaluates everything of the C12 statement except "compiles" (batched later).
func cliVerdict(res cliResult, dir string) string {
	if res.TimedOut {
		return fmt.Sprintf("hang: no exit within %.0f s", res.Dur.Seconds())
	}
	if m := panicRe.FindString(res.Stderr + "\n" + res.Stdout); m != "" {
		return "Go panic trace (exit " + fmt.Sprint(res.Exit) + "): " + firstLines(res.Stderr, 14)
	}
	if res.Exit == 0 {
		for _, g := range genNames {
			st, err := os.Stat(filepath.Join(dir, g))
			if err != nil {
				return "exit 0 but " + g + " is missing"
			}
			if st.Size() == 0 {
				return "exit 0 but " + g + " is empty"
			}
		}
		return ""
	}
	n := 0
	for _, l := range strings.Split(res.Stderr, "\n") {
		l = strings.TrimSpace(l)
		if l == "" || l == "Error: errors ocurred" {
			continue
		}
		n++
	}
	if n == 0 {
		return fmt.Sprintf("exit %d without any diagnostic (stderr: %q)", res.Exit, trunc(res.Stderr, 200))
	}
	return ""
}

func firstLines(s string, n int) string {
	ls := strings.Split(strings.TrimSpace(s), "\n")
	if len(ls) > n {
		ls = ls[:n]
	}
	return strings.Join(ls, " ⏎ ")
}

// ---------------------------------------------------------------------------------------
// input construction

var loxSnippets = []string{
	"@left(0)", "@left(99999999999999999999)", "@right(1)", "@left(1)", "@left(-1)", "@left()", "@left(1",
	"''", "[z-a]", "'\\uD800'", "[\\uD800]", "'\\U00110000'", "'\\UFFFFFFFF'", "'abc", "[abc", "'", "[", "]",
	"@list(", "@list(TA,", "@list(TA, TB)", "@list(@list(TA,TB),TB)", "@list(TA,TB)*", "@list(TA,TB)?", "@list(@error,TA)",
	"TA????", "TA*+?*!", "TA*!", "TA+", "TA?", "@error?", "@error*", "@error", "@empty", "@empty @empty",
	"\x00", "\xff\xfe", "\xc3", "\xed\xa0\x80", "\r\n", "\r", "\\", "\\\n", "\\ x", "\xef\xbb\xbf",
	"@start", "@lexer", "@parser", "@lexer\n", "@parser\n", "@mode M {", "@mode M {\n", "}", "{", "@mode", "@mode m1 {\n}\n",
	"@push_mode(NOPE)", "@push_mode()", "@push_mode(", "@pop_mode", "@emit(NOPE)", "@emit(TA)", "@emit()", "@discard", "@discard @discard",
	"@external X", "@external", "@external TA", "@macro M = M\n", "@macro M = N\n@macro N = M\n", "@macro", "@frag", "@frag 'x'\n", "@frog", "@",
	"|", "||", "=", "==", "( )", "()", "(", ")", "((((((((((", "~[a]-[a]", "[a]-[a]", "~[\\u0000-\\U0010FFFF]", "[\\u0000-\\U0010FFFF]-[\\u0000-\\U0010FFFF]",
	".", ".*?", ".*", "'a'*?", "'a'+?", "'a'*", "'a'?", "[\\-]", "[-]", "[a-]", "[--]", "[---]", "[\\]", "[\\q]", "[\\x4]", "[\\u12]", "[a\\ ]",
	"'\\q'", "'\\x4'", "'\\u12'", "'\\xff'", "'\\x00'", "'\\-'", "[\\']", "'\\''", "'\\\\'", "'\"'", "'`'", "'\\n'", "[\\n]", "[\n]", "'\n'",
	"// comment", "// comment\n", "//", "/", "EOF = 'e'\n", "ERROR = 'x'\n", "EOF", "ERROR", "S' = TA\n", "r0__x = TA\n", "r0_ = TA\n", "_r = TA\n",
	"X_ = 'x'\n", "X__Y = 'x'\n", "x = 'x'\n", "Xy = 'x'\n", "é = 'x'\n", "'é'", "[é-ü]", "'😀'", "[😀]", "[a-😀]",
	"TA = 'a'\n", "TA = 'zz'\n", "TZ = 'a'\n", "@start r0 = TA\n", "@start zz = TA\n", "zz = zz\n", "zz = zz zz | @empty\n", "zz = @empty\n", "zz = \n", "zz =", "= TA",
	"0", "123", "99999999999999999999999999999999999999", "func", "type", "int", "nil", "package", "lox", "Token", "Error", "_Stack",
	"TA TA TA TA TA TA TA TA TA TA TA TA TA TA TA TA", strings.Repeat("A", 5000), strings.Repeat("TA ", 2000), strings.Repeat("(", 3000) + "'a'" + strings.Repeat(")", 3000),
	strings.Repeat("'a' | ", 500) + "'a'", strings.Repeat("[a-z]", 300),
}

// tokens of a .lox text, separators kept (so that joining gives the text back).
var loxTokRe = regexp.MustCompile(`\s+|[A-Za-z_@][A-Za-z0-9_]*|'(?:\\.|[^'\\\n])*'?|\[(?:\\.|[^\]\\\n])*\]?|[0-9]+|.`)

func mutateStructured(r *Rng, text string) (string, string) {
	toks := loxTokRe.FindAllString(text, -1)
	lines := strings.SplitAfter(text, "\n")
	pickTok := func() int {
		if len(toks) == 0 {
			return 0
		}
		return r.Intn(len(toks))
	}
	join := func() string { return strings.Join(toks, "") }
	switch r.Intn(14) {
	case 0:
		if len(toks) > 0 {
			i := pickTok()
			toks = append(toks[:i:i], toks[i+1:]...)
		}
		return join(), "del-token"
	case 1:
		if len(toks) > 0 {
			i := pickTok()
			toks = append(toks[:i+1:i+1], toks[i:]...)
		}
		return join(), "dup-token"
	case 2:
		if len(toks) > 1 {
			i, j := pickTok(), pickTok()
			toks[i], toks[j] = toks[j], toks[i]
		}
		return join(), "swap-tokens"
	case 3:
		if len(lines) > 0 {
			i := r.Intn(len(lines))
			lines = append(lines[:i:i], lines[i+1:]...)
		}
		return strings.Join(lines, ""), "del-line"
	case 4:
		if len(lines) > 0 {
			i := r.Intn(len(lines))
			lines = append(lines[:i+1:i+1], lines[i:]...)
		}
		return strings.Join(lines, ""), "dup-line"
	case 5:
		if len(lines) > 1 {
			i, j := r.Intn(len(lines)), r.Intn(len(lines))
			lines[i], lines[j] = lines[j], lines[i]
		}
		return strings.Join(lines, ""), "swap-lines"
	case 6, 7, 8:
		sn := Pick(r, loxSnippets)
		i := pickTok()
		if len(toks) == 0 {
			return sn, "inject"
		}
		toks = append(toks[:i:i], append([]string{sn}, toks[i:]...)...)
		return join(), "inject"
	case 9, 10:
		sn := Pick(r, loxSnippets)
		if len(toks) == 0 {
			return sn, "replace"
		}
		toks[pickTok()] = sn
		return join(), "replace"
	case 11:
		if len(text) == 0 {
			return text, "truncate"
		}
		return text[:r.Intn(len(text))], "truncate"
	case 12:
		return strings.ReplaceAll(text, "\n", "\r\n"), "crlf"
	default:
		// two independent injections
		a, _ := mutateStructured(r, text)
		b, _ := mutateStructured(r, a)
		return b, "double"
	}
}

func mutateBytes(r *Rng, data []byte) []byte {
	out := append([]byte(nil), data...)
	n := 1 + r.Intn(4)
	for k := 0; k < n; k++ {
		if len(out) == 0 {
			out = append(out, byte(r.Intn(256)))
			continue
		}
		i := r.Intn(len(out))
		switch r.Intn(6) {
		case 0:
			out[i] = byte(r.Intn(256))
		case 1:
			out[i] ^= 1 << uint(r.Intn(8))
		case 2:
			out = append(out[:i:i], out[i+1:]...)
		case 3:
			out = append(out[:i:i], append([]byte{byte(r.Intn(256))}, out[i:]...)...)
		case 4:
			out = append(out[:i:i], append([]byte(Pick(r, []string{"\x00", "\xff", "\\", "'", "[", "]", "\n", "\r", "@", "(", ")", "-", "~", "\xc0\x80", "\xf4\x90\x80\x80"})), out[i:]...)...)
		case 5:
			j := r.Intn(len(out))
			if i > j {
				i, j = j, i
			}
			chunk := append([]byte(nil), out[i:j]...)
			out = append(out[:j:j], append(chunk, out[j:]...)...)
		}
	}
	return out
}

// fixed adversarial specifications (whole files)
var loxWhole = []struct{ kind, text string }{
	{"empty-file", ""},
	{"only-newlines", "\n\n\n"},
	{"only-comments", "// nothing\n// here\n"},
	{"only-comment-no-nl", "// nothing"},
	{"only-lexer-keyword", "@lexer"},
	{"only-lexer-section", "@lexer\n"},
	{"only-parser-section", "@parser\n"},
	{"parser-without-lexer", "@parser\n@start s = A\n"},
	{"lexer-only-valid", "@lexer\nA = 'a'\n"},
	{"lexer-only-frag", "@lexer\n@frag 'a' @discard\n"},
	{"no-start", "@lexer\nA = 'a'\n@parser\ns = A\n"},
	{"two-starts", "@lexer\nA = 'a'\n@parser\n@start s = A\n@start t = A\n"},
	{"nul-bytes", "@lexer\nA = '\x00'\nB = [\x00-\x01]\n@parser\n@start s = A B\n"},
	{"invalid-utf8", "@lexer\nA = '\xff'\n@parser\n@start s = A\n"},
	{"invalid-utf8-class", "@lexer\nA = [\xff\xfe]\n@parser\n@start s = A\n"},
	{"bom", "\xef\xbb\xbf@lexer\nA = 'a'\n@parser\n@start s = A\n"},
	{"crlf", "@lexer\r\nA = 'a'\r\n@parser\r\n@start s = A\r\n"},
	{"lone-backslash-eof", "@lexer\nA = 'a' \\"},
	{"lone-backslash", "@lexer\nA = 'a' \\ 'b'\n"},
	{"line-extension", "@lexer\nA = 'a' \\\n 'b'\n@parser\n@start s = A\n"},
	{"unterminated-literal", "@lexer\nA = 'abc\n@parser\n@start s = A\n"},
	{"unterminated-literal-eof", "@lexer\nA = 'abc"},
	{"unterminated-class", "@lexer\nA = [abc\n@parser\n@start s = A\n"},
	{"unterminated-class-eof", "@lexer\nA = [abc"},
	{"unterminated-mode", "@lexer\nA = 'a' @push_mode(M)\n@mode M {\nB = 'b'\n"},
	{"empty-mode", "@lexer\nA = 'a' @push_mode(M)\n@mode M {\n}\n@parser\n@start s = A\n"},
	{"mode-never-entered", "@lexer\nA = 'a'\n@mode M {\nB = 'b' @pop_mode\n}\n@parser\n@start s = A B\n"},
	{"pop-in-default", "@lexer\nA = 'a' @pop_mode\n@parser\n@start s = A\n"},
	{"push-default", "@lexer\nA = 'a' @push_mode()\n@parser\n@start s = A\n"},
	{"mode-redefined", "@lexer\nA = 'a'\n@mode M {\nB = 'b'\n}\n@mode M {\nC = 'c'\n}\n@parser\n@start s = A\n"},
	{"mode-named-like-token", "@lexer\nA = 'a'\n@mode A {\nB = 'b'\n}\n@parser\n@start s = A\n"},
	{"mode-named-default", "@lexer\nA = 'a' @push_mode(default)\n@mode default {\nB = 'b'\n}\n@parser\n@start s = A\n"},
	{"left-zero", "@lexer\nA = 'a'\n@parser\n@start s = s A @left(0) | A\n"},
	{"left-huge", "@lexer\nA = 'a'\n@parser\n@start s = s A @left(99999999999999999999) | A\n"},
	{"left-maxint", "@lexer\nA = 'a'\n@parser\n@start s = s A @left(9223372036854775807) | A\n"},
	{"empty-literal-lexer", "@lexer\nA = ''\n@parser\n@start s = A\n"},
	{"empty-literal-parser", "@lexer\nA = 'a'\n@parser\n@start s = ''\n"},
	{"empty-literal-list", "@lexer\nA = 'a'\n@parser\n@start s = @list('', A)\n"},
	{"reversed-range", "@lexer\nA = [z-a]\n@parser\n@start s = A\n"},
	{"surrogate-literal", "@lexer\nA = '\\uD800'\n@parser\n@start s = A\n"},
	{"surrogate-class", "@lexer\nA = [\\uD800-\\uDFFF]\n@parser\n@start s = A\n"},
	{"above-max-rune", "@lexer\nA = '\\U00110000'\n@parser\n@start s = A\n"},
	{"max-rune", "@lexer\nA = [\\U0010FFFF]\nB = '\\U0010FFFF'\n@parser\n@start s = A\n"},
	{"huge-escape", "@lexer\nA = '\\UFFFFFFFF'\n@parser\n@start s = A\n"},
	{"class-lone-backslash", "@lexer\nA = [\\q]\n@parser\n@start s = A\n"},
	{"class-backslash-bracket", "@lexer\nA = [\\]\n@parser\n@start s = A\n"},
	{"class-short-hex", "@lexer\nA = [\\x4]\n@parser\n@start s = A\n"},
	{"class-dashes", "@lexer\nA = [-]\nB = [a-]\nC = [-a]\nD = [a-b-c]\nE = [--]\n@parser\n@start s = A\n"},
	{"class-three-dashes", "@lexer\nA = [---]\n@parser\n@start s = A\n"},
	{"class-escaped-dash", "@lexer\nA = [\\--\\-]\nB = [a\\-z]\n@parser\n@start s = A B\n"},
	{"empty-class", "@lexer\nA = []\n@parser\n@start s = A\n"},
	{"empty-set-difference", "@lexer\nA = [a]-[a]\n@parser\n@start s = A\n"},
	{"empty-set-in-sequence", "@lexer\nA = 'x' ([a]-[a]) 'y'\nB = 'b'\n@parser\n@start s = A B\n"},
	{"empty-set-star", "@lexer\nA = ([a]-[a])*\nB = 'b'\n@parser\n@start s = A B\n"},
	{"full-complement", "@lexer\nA = ~[\\u0000-\\U0010FFFF]\nB = 'b'\n@parser\n@start s = B\n"},
	{"everything", "@lexer\nA = .\n@parser\n@start s = A\n"},
	{"everything-star", "@lexer\nA = .*\n@parser\n@start s = A\n"},
	{"nullable-token", "@lexer\nA = 'a'*\n@parser\n@start s = A\n"},
	{"nullable-frag", "@lexer\nA = 'a'\n@frag 'x'*\n@parser\n@start s = A\n"},
	{"macro-self", "@lexer\n@macro M = M\nA = M\n@parser\n@start s = A\n"},
	{"macro-cycle-unused", "@lexer\n@macro M = N\n@macro N = M\nA = 'a'\n@parser\n@start s = A\n"},
	{"macro-undefined", "@lexer\nA = NOPE\n@parser\n@start s = A\n"},
	{"macro-is-token", "@lexer\nA = 'a'\nB = A\n@parser\n@start s = A\n"},
	{"macro-doubling-10", macroBomb(10)},
	{"nested-parens-2000", "@lexer\nA = " + strings.Repeat("(", 2000) + "'a'" + strings.Repeat(")", 2000) + "\n@parser\n@start s = A\n"},
	{"alternatives-3000", "@lexer\nA = " + strings.Repeat("'a' | ", 3000) + "'b'\n@parser\n@start s = A\n"},
	{"long-literal", "@lexer\nA = '" + strings.Repeat("ab", 1000) + "'\n@parser\n@start s = A\n"},
	{"many-tokens", manyTokens(400)},
	{"long-production", "@lexer\nA = 'a'\n@parser\n@start s = " + strings.Repeat("A ", 3000) + "\n"},
	{"many-productions", "@lexer\nA = 'a'\nB = 'b'\n@parser\n@start s = " + strings.Repeat("A B | ", 600) + "A\n"},
	{"card-chain", "@lexer\nA = 'a'\n@parser\n@start s = A*+?\n"},
	{"card-on-list", "@lexer\nA = 'a'\nB = 'b'\n@parser\n@start s = @list(A,B)*\n"},
	{"list-nested", "@lexer\nA = 'a'\nB = 'b'\n@parser\n@start s = @list(@list(A,B),B)\n"},
	{"list-of-card", "@lexer\nA = 'a'\nB = 'b'\n@parser\n@start s = @list(A*,B)\n"},
	{"list-error-elem", "@lexer\nA = 'a'\nB = 'b'\n@parser\n@start s = @list(@error,B)\n"},
	{"list-same", "@lexer\nA = 'a'\n@parser\n@start s = @list(A,A)\n"},
	{"list-rule-elems", "@lexer\nA = 'a'\nB = 'b'\n@parser\n@start s = @list(t,u)?\nt = A\nu = B\n"},
	{"list-unclosed", "@lexer\nA = 'a'\n@parser\n@start s = @list(A,\n"},
	{"all-cards-same-term", "@lexer\nA = 'a'\nB = 'b'\n@parser\n@start s = t B\nt = A* B | A+ B B | A? B B B | A*! B B B B\n"},
	{"error-everywhere", "@lexer\nA = 'a'\n@parser\n@start s = @error | @error A | A @error | @error @error\n"},
	{"error-cards", "@lexer\nA = 'a'\n@parser\n@start s = A @error? A | A @error* A A | A @error+ A A A\n"},
	{"only-empty", "@lexer\nA = 'a'\n@parser\n@start s = @empty\n"},
	{"empty-twice", "@lexer\nA = 'a'\n@parser\n@start s = @empty | @empty\n"},
	{"self-loop", "@lexer\nA = 'a'\n@parser\n@start s = s\n"},
	{"unproductive", "@lexer\nA = 'a'\n@parser\n@start s = s A\n"},
	{"unreachable-rule", "@lexer\nA = 'a'\n@parser\n@start s = A\nt = t A | A\n"},
	{"undefined-term", "@lexer\nA = 'a'\n@parser\n@start s = A nope\n"},
	{"unknown-literal", "@lexer\nA = 'a'\n@parser\n@start s = 'zzz'\n"},
	{"ambiguous-literal", "@lexer\nA = 'a'\nB = 'a'\n@parser\n@start s = 'a'\n"},
	{"same-text-two-tokens", "@lexer\nA = 'a'\nB = 'a'\n@parser\n@start s = A B\n"},
	{"rule-named-like-token", "@lexer\nA = 'a'\n@parser\n@start A = 'a'\n"},
	{"rule-named-EOF", "@lexer\nA = 'a'\n@parser\n@start EOF = A\n"},
	{"rule-named-ERROR", "@lexer\nA = 'a'\n@parser\n@start s = ERROR\nERROR = A\n"},
	{"token-named-EOF", "@lexer\nEOF = 'a'\n@parser\n@start s = EOF\n"},
	{"rule-go-keyword", "@lexer\nA = 'a'\n@parser\n@start func = A\n"},
	{"rule-double-underscore", "@lexer\nA = 'a'\n@parser\n@start a__b = A\n"},
	{"rule-underscore-edges", "@lexer\nA = 'a'\n@parser\n@start s_ = A\n"},
	{"external-only", "@lexer\n@external X Y\n@parser\n@start s = X Y\n"},
	{"external-dup", "@lexer\n@external X X\nA = 'a'\n@parser\n@start s = X\n"},
	{"external-vs-token", "@lexer\nA = 'a'\n@external A\n@parser\n@start s = A\n"},
	{"emit-undefined", "@lexer\nA = 'a'\n@frag 'b' @emit(NOPE)\n@parser\n@start s = A\n"},
	{"emit-rule", "@lexer\nA = 'a'\n@frag 'b' @emit(s)\n@parser\n@start s = A\n"},
	{"emit-and-discard", "@lexer\nA = 'a'\n@frag 'b' @emit(A) @discard\n@parser\n@start s = A\n"},
	{"token-discard", "@lexer\nA = 'a' @discard\n@parser\n@start s = A\n"},
	{"token-emit", "@lexer\nA = 'a' @emit(A)\n@parser\n@start s = A\n"},
	{"two-discards", "@lexer\nA = 'a'\n@frag 'b' @discard @discard\n@parser\n@start s = A\n"},
	{"conflict-sr", "@lexer\nA = 'a'\n@parser\n@start s = s s | A\n"},
	{"conflict-rr", "@lexer\nA = 'a'\n@parser\n@start s = t | u\nt = A\nu = A\n"},
	{"prec-mixed", "@lexer\nA = 'a'\nB = 'b'\n@parser\n@start s = s A s @left(1) | s B s @right(1) | A\n"},
	{"sections-repeated", "@lexer\nA = 'a'\n@parser\n@start s = A t\n@lexer\nB = 'b'\n@parser\nt = B\n"},
	{"parser-before-lexer", "@parser\n@start s = A\n@lexer\nA = 'a'\n"},
	{"keyword-typo", "@lexer\nA = 'a' @dicard\n@parser\n@start s = A\n"},
	{"stray-closing", "@lexer\nA = 'a' )\n@parser\n@start s = A\n"},
	{"number-as-term", "@lexer\nA = 'a'\n@parser\n@start s = 12 A\n"},
	{"very-long-line", "@lexer\nA = 'a'\n// " + strings.Repeat("x", 200000) + "\n@parser\n@start s = A\n"},
	{"binary-garbage", "\x7fELF\x02\x01\x01\x00\x00\x00\x00\x00\x00\x00\x00\x00\x03\x00>\x00\x01\x00\x00\x00"},
}

func macroBomb(n int) string {
	var sb strings.Builder
	sb.WriteString("@lexer\n@macro M0 = 'a' | 'b'\n")
	for i := 1; i <= n; i++ {
		fmt.Fprintf(&sb, "@macro M%d = M%d M%d\n", i, i-1, i-1)
	}
	fmt.Fprintf(&sb, "A = M%d\n@parser\n@start s = A\n", n)
	return sb.String()
}

func manyTokens(n int) string {
	var sb strings.Builder
	sb.WriteString("@lexer\n")
	for i := 0; i < n; i++ {
		fmt.Fprintf(&sb, "T%d = 'k%d'\n", i, i)
	}
	sb.WriteString("@parser\n@start s = ")
	for i := 0; i < n; i++ {
		if i > 0 {
			sb.WriteString(" | ")
		}
		fmt.Fprintf(&sb, "T%d", i)
	}
	sb.WriteString("\n")
	return sb.String()
}

// minimal valid pair used by the Go-package variants and the whole-file specs
const miniLox = "@lexer\nA = 'a'\nB = 'b'\n@frag [ \\n]+ @discard\n@parser\n@start s = A t\nt = B | t B\n"

const miniGo = `package PKG

type Token struct{ T int }

type parser struct {
	lox
	n int
}

func (p *parser) on_s(a Token, t int) int { return t + 1 }
func (p *parser) on_t(b Token) int        { return 1 }
func (p *parser) on_t__more(t int, b Token) int { return t + 1 }
`

// permissiveGo accepts (almost) any grammar: it is used for mutated specifications where the
// rule set is unknown: no action methods, so a spec with parser rules ends in the
// "rule missing action method" diagnostic after the whole front end, the table construction
// and both emitters have run.
const permissiveGo = `package PKG

type Token struct{ T int }

type parser struct{ lox }
`

type goVariant struct {
	kind  string
	apply func(c *cliCase, pkg string)
}

func setGo(c *cliCase, src string) { c.put("p.go", []byte(src)) }

func goOf(c *cliCase) string { b, _ := c.get("p.go"); return string(b) }

var goVariants = []goVariant{
	{"go:none", func(c *cliCase, pkg string) { delete(c.Files, "p.go") }},
	{"go:empty-file", func(c *cliCase, pkg string) { setGo(c, "") }},
	{"go:only-package-clause", func(c *cliCase, pkg string) { setGo(c, "package "+pkg+"\n") }},
	{"go:syntax-error", func(c *cliCase, pkg string) { setGo(c, goOf(c)+"\nfunc (\n") }},
	{"go:garbage", func(c *cliCase, pkg string) { setGo(c, "\x00\x01\x02 not go at all {{{") }},
	{"go:type-error", func(c *cliCase, pkg string) { setGo(c, goOf(c)+"\nvar _ int = \"s\"\n") }},
	{"go:undefined-ident", func(c *cliCase, pkg string) { setGo(c, goOf(c)+"\nvar _ = nowhere\n") }},
	{"go:missing-import", func(c *cliCase, pkg string) {
		setGo(c, strings.Replace(goOf(c), "package "+pkg+"\n", "package "+pkg+"\n\nimport _ \"example.com/nope/missing\"\n", 1))
	}},
	{"go:no-token", func(c *cliCase, pkg string) { setGo(c, strings.ReplaceAll(goOf(c), "type Token struct", "type Tokn struct")) }},
	{"go:token-is-func", func(c *cliCase, pkg string) {
		setGo(c, strings.Replace(goOf(c), "type Token struct{ T int }", "func Token() {}", 1))
	}},
	{"go:token-is-var", func(c *cliCase, pkg string) {
		setGo(c, strings.Replace(goOf(c), "type Token struct{ T int }", "var Token int", 1))
	}},
	{"go:token-generic", func(c *cliCase, pkg string) {
		setGo(c, strings.Replace(goOf(c), "type Token struct{ T int }", "type Token[T any] struct{ V T }", 1))
	}},
	{"go:token-interface", func(c *cliCase, pkg string) {
		setGo(c, strings.Replace(goOf(c), "type Token struct{ T int }", "type Token interface{ M() }", 1))
	}},
	{"go:user-defines-Error", func(c *cliCase, pkg string) { setGo(c, goOf(c)+"\ntype Error struct{}\n") }},
	{"go:user-defines-lox", func(c *cliCase, pkg string) { setGo(c, goOf(c)+"\ntype lox struct{}\n") }},
	{"go:user-defines-EOF", func(c *cliCase, pkg string) { setGo(c, goOf(c)+"\nconst EOF = 7\n") }},
	{"go:user-defines-token-const", func(c *cliCase, pkg string) { setGo(c, goOf(c)+"\nconst A = 7\n") }},
	{"go:user-defines-_Stack", func(c *cliCase, pkg string) { setGo(c, goOf(c)+"\ntype _Stack int\n") }},
	{"go:user-defines-parse-method", func(c *cliCase, pkg string) {
		setGo(c, goOf(c)+"\nfunc (p *parser) parse(x int) bool { return false }\n")
	}},
	{"go:user-defines-_onError", func(c *cliCase, pkg string) { setGo(c, goOf(c)+"\nfunc (p *parser) _onError() {}\n") }},
	{"go:user-_onBounds-wrong-shape", func(c *cliCase, pkg string) { setGo(c, goOf(c)+"\nfunc (p *parser) _onBounds() {}\n") }},
	{"go:no-parser-struct", func(c *cliCase, pkg string) { setGo(c, strings.Replace(goOf(c), "\tlox\n", "\t_lox int\n", 1)) }},
	{"go:lox-not-embedded", func(c *cliCase, pkg string) { setGo(c, strings.Replace(goOf(c), "\tlox\n", "\tlox lox\n", 1)) }},
	{"go:lox-pointer-embedded", func(c *cliCase, pkg string) { setGo(c, strings.Replace(goOf(c), "\tlox\n", "\t*lox\n", 1)) }},
	{"go:two-parsers", func(c *cliCase, pkg string) { setGo(c, goOf(c)+"\ntype other struct{ lox }\n") }},
	{"go:second-parser-generic", func(c *cliCase, pkg string) { setGo(c, goOf(c)+"\ntype zgen[T any] struct{ lox }\n") }},
	{"go:first-parser-generic", func(c *cliCase, pkg string) { setGo(c, goOf(c)+"\ntype agen[T any] struct{ lox }\n") }},
	{"go:only-parser-generic", func(c *cliCase, pkg string) {
		setGo(c, "package "+pkg+"\n\ntype Token struct{ T int }\n\ntype parser[T any] struct{ lox }\n")
	}},
	{"go:parser-alias", func(c *cliCase, pkg string) { setGo(c, goOf(c)+"\ntype alias = parser\n") }},
	{"go:parser-defined-type-of-parser", func(c *cliCase, pkg string) { setGo(c, goOf(c)+"\ntype derived parser\n") }},
	{"go:parser-in-function", func(c *cliCase, pkg string) {
		setGo(c, "package "+pkg+"\n\ntype Token struct{ T int }\n\nfunc f() { type parser struct{ lox }; _ = parser{} }\n")
	}},
	{"go:action-two-results", func(c *cliCase, pkg string) {
		setGo(c, goOf(c)+"\nfunc (p *parser) on_t__two(b Token) (int, error) { return 0, nil }\n")
	}},
	{"go:action-no-result", func(c *cliCase, pkg string) { setGo(c, goOf(c)+"\nfunc (p *parser) on_t__none(b Token) {}\n") }},
	{"go:action-variadic", func(c *cliCase, pkg string) {
		setGo(c, goOf(c)+"\nfunc (p *parser) on_t__var(b ...Token) int { return 0 }\n")
	}},
	{"go:action-unknown-rule", func(c *cliCase, pkg string) {
		setGo(c, goOf(c)+"\nfunc (p *parser) on_nosuchrule(b Token) int { return 0 }\n")
	}},
	{"go:action-empty-rule-name", func(c *cliCase, pkg string) { setGo(c, goOf(c)+"\nfunc (p *parser) on_(b Token) int { return 0 }\n") }},
	{"go:action-only-suffix", func(c *cliCase, pkg string) { setGo(c, goOf(c)+"\nfunc (p *parser) on___x(b Token) int { return 0 }\n") }},
	{"go:action-unmatched", func(c *cliCase, pkg string) {
		setGo(c, goOf(c)+"\nfunc (p *parser) on_t__extra(a, b, c Token) int { return 0 }\n")
	}},
	{"go:action-ambiguous", func(c *cliCase, pkg string) { setGo(c, goOf(c)+"\nfunc (p *parser) on_t__again(b Token) int { return 2 }\n") }},
	{"go:action-return-conflict", func(c *cliCase, pkg string) {
		setGo(c, goOf(c)+"\nfunc (p *parser) on_t__str(a, b, c Token) string { return \"\" }\n")
	}},
	{"go:action-value-receiver", func(c *cliCase, pkg string) {
		setGo(c, strings.Replace(goOf(c), "func (p *parser) on_t(b Token)", "func (p parser) on_t(b Token)", 1))
	}},
	{"go:action-any-params", func(c *cliCase, pkg string) {
		setGo(c, strings.Replace(goOf(c), "on_s(a Token, t int) int", "on_s(a any, t any) int", 1))
	}},
	{"go:action-generic-result", func(c *cliCase, pkg string) {
		setGo(c, strings.Replace(strings.ReplaceAll(goOf(c), ") int", ") []map[string]func(int) chan<- *Token"), "return t + 1", "return nil", -1))
	}},
	{"go:no-actions", func(c *cliCase, pkg string) {
		setGo(c, "package "+pkg+"\n\ntype Token struct{ T int }\n\ntype parser struct{ lox }\n")
	}},
	{"go:action-wrong-param-type", func(c *cliCase, pkg string) {
		setGo(c, strings.Replace(goOf(c), "on_t(b Token) int", "on_t(b string) int", 1))
	}},
	{"go:types-from-other-packages", func(c *cliCase, pkg string) {
		src := strings.Replace(goOf(c), "package "+pkg+"\n", "package "+pkg+"\n\nimport (\n\t\"go/token\"\n\tast2 \"go/ast\"\n\t\"strings\"\n)\n", 1)
		src = strings.ReplaceAll(src, ") int", ") map[token.Pos][]*ast2.File")
		src = strings.ReplaceAll(src, "t int", "t map[token.Pos][]*ast2.File")
		src = strings.ReplaceAll(src, "return t + 1", "return nil")
		src = strings.ReplaceAll(src, "return 1", "return nil")
		setGo(c, src+"\nvar _ strings.Builder\n")
	}},
	{"go:package-main", func(c *cliCase, pkg string) {
		setGo(c, strings.Replace(goOf(c), "package "+pkg, "package main", 1)+"\nfunc main() {}\n")
	}},
	{"go:package-underscore", func(c *cliCase, pkg string) { setGo(c, strings.Replace(goOf(c), "package "+pkg, "package _", 1)) }},
	{"go:two-package-names", func(c *cliCase, pkg string) { c.put("q.go", []byte("package otherpkg\n")) }},
	{"go:second-file-ignored-by-tag", func(c *cliCase, pkg string) { c.put("q.go", []byte("//go:build ignore\n\npackage otherpkg\n")) }},
	{"go:only-test-file", func(c *cliCase, pkg string) {
		src := goOf(c)
		delete(c.Files, "p.go")
		c.put("p_test.go", []byte(src))
	}},
	{"go:only-ignored-file", func(c *cliCase, pkg string) { setGo(c, "//go:build ignore\n\n"+goOf(c)) }},
	{"go:cgo", func(c *cliCase, pkg string) { c.put("q.go", []byte("package "+pkg+"\n\nimport \"C\"\n")) }},
	{"go:go-file-is-directory", func(c *cliCase, pkg string) { c.Dirs = append(c.Dirs, "zz.go") }},
	{"go:lox-file-is-directory", func(c *cliCase, pkg string) { c.Dirs = append(c.Dirs, "zz.lox") }},
	{"go:stale-base-garbage", func(c *cliCase, pkg string) { c.put("base.gen.go", []byte("!!! not go !!!")) }},
	{"go:stale-lexer-garbage", func(c *cliCase, pkg string) { c.put("lexer.gen.go", []byte("!!! not go !!!")) }},
	{"go:stale-parser-garbage", func(c *cliCase, pkg string) { c.put("parser.gen.go", []byte("!!! not go !!!")) }},
	{"go:stale-all-empty", func(c *cliCase, pkg string) {
		for _, g := range genNames {
			c.put(g, []byte{})
		}
	}},
	{"go:stale-other-package-name", func(c *cliCase, pkg string) {
		for _, g := range genNames {
			c.put(g, []byte("package someoldname\n\nconst Old"+strings.ToUpper(g[:1])+" = 1\n"))
		}
	}},
	{"go:stale-conflicting-decls", func(c *cliCase, pkg string) {
		c.put("base.gen.go", []byte("package "+pkg+"\n\nconst ZZZ int = 99\nfunc _TokenToString(t int, extra int) string { return \"\" }\ntype _Stack[T any] []T\n"))
		c.put("parser.gen.go", []byte("package "+pkg+"\n\ntype lox struct{ old int }\ntype Error struct{ Old int }\nfunc (p *parser) parse(l int) bool { return true }\n"))
		c.put("lexer.gen.go", []byte("package "+pkg+"\n\ntype _LexerStateMachine struct{ old [3]int }\nvar _lexerMode0 = 5\n"))
	}},
}

type cliJob struct {
	idx  int
	c    *cliCase
	dir  string
	res  cliResult
	verd string
	slow bool
}

func pkgNameOf(i int) string { return fmt.Sprintf("c%05d", i) }

func (j *cliJob) args() ([]string, string) {
	args := j.c.Args
	if len(args) == 0 {
		args = []string{"<dir>"}
	}
	out := make([]string, len(args))
	for i, a := range args {
		out[i] = strings.ReplaceAll(a, "<dir>", j.dir)
	}
	cwd := filepath.Dir(j.dir)
	if j.c.Cwd == "<dir>" {
		cwd = j.dir
	}
	return out, cwd
}

// runCLIJobs writes and runs all jobs, `par` at a time; a job that hits the first timeout is
// re-run alone with the long timeout (a loaded machine is not a hang).
func runCLIJobs(bin string, jobs []*cliJob, par int, t1, t2 time.Duration) {
	var wg sync.WaitGroup
	sem := make(chan struct{}, par)
	for _, j := range jobs {
		wg.Add(1)
		go func(j *cliJob) {
			defer wg.Done()
			sem <- struct{}{}
			defer func() { <-sem }()
			if err := j.c.write(j.dir); err != nil {
				j.verd = "harness: cannot write case: " + err.Error()
				return
			}
			args, cwd := j.args()
			t := t1
			if j.c.BudgetS > 0 {
				t = time.Duration(j.c.BudgetS) * time.Second
			}
			j.res = runCLI(bin, args, cwd, t)
		}(j)
	}
	wg.Wait()
	for _, j := range jobs {
		if j.res.TimedOut && j.c.BudgetS == 0 {
			j.slow = true
			os.RemoveAll(j.dir)
			j.c.write(j.dir)
			args, cwd := j.args()
			j.res = runCLI(bin, args, cwd, t2)
		}
		if j.verd == "" {
			j.verd = cliVerdict(j.res, j.dir)
		}
	}
}

var buildErrRe = regexp.MustCompile(`(?m)^(?:# verifgen/|\./)?(c\d{5})(?:[/\s:]|$)`)

// compileBatch builds the packages of all exit-0 jobs and attributes failures.
func compileBatch(root string, jobs []*cliJob) map[string]string {
	fails := map[string]string{}
	var dirs []string
	for _, j := range jobs {
		if j.verd == "" && j.res.Exit == 0 && !j.res.TimedOut && len(j.c.Args) == 0 {
			dirs = append(dirs, "./"+filepath.Base(j.dir))
		}
	}
	for len(dirs) > 0 {
		n := len(dirs)
		if n > 64 {
			n = 64
		}
		batch := dirs[:n]
		dirs = dirs[n:]
		cmd := exec.Command("go", append([]string{"build"}, batch...)...)
		cmd.Dir = root
		cmd.Env = append(os.Environ(), goEnv...)
		out, err := cmd.CombinedOutput()
		if err == nil {
			continue
		}
		cur := ""
		attributed := false
		for _, l := range strings.Split(string(out), "\n") {
			if m := buildErrRe.FindStringSubmatch(l); m != nil {
				cur = m[1]
				attributed = true
			}
			if cur != "" && strings.TrimSpace(l) != "" && len(fails[cur]) < 1500 {
				fails[cur] += l + " ⏎ "
			}
		}
		if !attributed {
			for _, b := range batch {
				fails[strings.TrimPrefix(b, "./")] = "go build failed: " + firstLines(string(out), 12)
			}
		}
	}
	return fails
}

func loadCLIWitnesses(globs []string, tier string) []*cliCase {
	var out []*cliCase
	for _, a := range globs {
		files, _ := filepath.Glob(a)
		sort.Strings(files)
		for _, f := range files {
			data, err := os.ReadFile(f)
			if err != nil {
				continue
			}
			var w cliCase
			if json.Unmarshal(data, &w) != nil || w.ID == "" {
				continue
			}
			if w.Tier == "thorough" && tier != "thorough" {
				continue
			}
			if len(w.Files) == 0 && len(w.FilesB64) == 0 && w.Lox != "" && w.Gen == nil {
				w.Files = map[string]string{"g.lox": w.Lox, "p.go": strings.ReplaceAll(permissiveGo, "PKG", "w")}
			}
			w.Lox = ""
			w.Kind = "witness"
			out = append(out, &w)
		}
	}
	return out
}

// genCLICases draws the n fuzz cases of one run.
func genCLICases(c *Ctx, n int, stale map[string]string) []*cliCase {
	r := c.Rng
	var cases []*cliCase
	base := func(kind, lox, gosrc string) *cliCase {
		cc := &cliCase{Kind: kind}
		cc.put("g.lox", []byte(lox))
		if gosrc != "" {
			cc.put("p.go", []byte(gosrc))
		}
		return cc
	}
	randomSpec := func() (string, string, string) {
		if r.Chance(2, 3) {
			o := GenOpts{MaxTokens: 4, MaxRules: 4, MaxProds: 3, MaxTerms: 4, Sugar: true, Errors: r.Chance(1, 3), Prec: r.Chance(1, 3)}
			s := GenSpec(r, o)
			return "gspec", s.Lox(), s.GoSource("PKG")
		}
		o := LGenOpts{MaxModes: 3, MaxRules: 4, Depth: 1 + r.Intn(2), Small: r.Bool(), NonGreedy: r.Chance(1, 3)}
		s := GenLSpec(r, o)
		return "lspec", s.Lox(r), strings.ReplaceAll(lexPkgTemplate, "PKG", "PKG")
	}
	whole, variant := 0, 0
	// the fixed part of every run: every adversarial file and every Go package variant once
	// Everything grammar-related (parse, analysis, NFA/DFA, LALR) happens before lox looks at the Go package, so a
	// directory without Go sources still drives the whole front end and stops at `package contains no Go sources`
	// without the (expensive) go list. Quick tier: the files that matter for the emitters always get a Go package, of
	// the others a third, rotating with the seed; thorough tier: all of them.
	emitRelevant := map[string]bool{"lexer-only-valid": true, "nul-bytes": true, "invalid-utf8": true, "invalid-utf8-class": true, "bom": true, "crlf": true,
		"line-extension": true, "empty-mode": true, "mode-never-entered": true, "push-default": true, "max-rune": true, "everything": true,
		"class-dashes": true, "class-escaped-dash": true, "many-tokens": true, "long-literal": true, "external-only": true, "prec-mixed": true,
		"sections-repeated": true, "parser-before-lexer": true, "list-rule-elems": true, "all-cards-same-term": true, "error-cards": true}
	for i, w := range loxWhole {
		gosrc := permissiveGo
		if c.Tier != "thorough" && !emitRelevant[w.kind] && uint64(i)%3 != c.Seed%3 {
			gosrc = ""
		}
		cases = append(cases, base("whole:"+w.kind, w.text, gosrc))
	}
	for _, v := range goVariants {
		cc := base(v.kind, miniLox, miniGo)
		v.apply(cc, "PKG")
		cases = append(cases, cc)
	}
	n += len(cases)
	for len(cases) < n {
		k := len(cases)
		switch x := r.Intn(100); {
		case x < 40: // structured mutation of a generated specification
			kind, lox, gosrc := randomSpec()
			m, how := mutateStructured(r, lox)
			if r.Chance(1, 2) {
				gosrc = permissiveGo
			}
			cases = append(cases, base(kind+":"+how, m, gosrc))
		case x < 52: // byte-level mutation
			kind, lox, gosrc := randomSpec()
			if r.Chance(1, 3) {
				lox = miniLox
				gosrc = miniGo
				kind = "mini"
			}
			cc := base(kind+":bytes", "", gosrc)
			cc.put("g.lox", mutateBytes(r, []byte(lox)))
			cases = append(cases, cc)
		case x < 57: // unmutated (must succeed or be rejected for a conflict)
			kind, lox, gosrc := randomSpec()
			cases = append(cases, base(kind+":valid", lox, gosrc))
		case x < 64: // fixed adversarial files, mutated
			w := loxWhole[whole%len(loxWhole)]
			whole++
			m, how := mutateStructured(r, w.text)
			cases = append(cases, base("whole:"+w.kind+"+"+how, m, permissiveGo))
		case x < 74: // several files
			kind, lox, gosrc := randomSpec()
			cc := base(kind+":multi", lox, gosrc)
			switch r.Intn(5) {
			case 0: // the same file twice: every name clashes
				cc.put("h.lox", []byte(lox))
				cc.Kind += ":same-twice"
			case 1: // an unrelated small specification next to it (two @start, maybe clashing tokens)
				cc.put("h.lox", []byte(miniLox))
				cc.Kind += ":plus-mini"
			case 2: // split at the @parser line
				if i := strings.Index(lox, "@parser\n"); i > 0 {
					cc.put("g.lox", []byte(lox[:i]))
					cc.put("h.lox", []byte(lox[i:]))
				}
				cc.Kind += ":split-sections"
			case 3: // three files, one mutated
				m, _ := mutateStructured(r, lox)
				cc.put("a.lox", []byte(m))
				cc.put("z.lox", []byte("// empty\n"))
				cc.Kind += ":three"
			case 4: // same text in both default modes (action conflict across files)
				cc.put("h.lox", []byte("@lexer\nQQ = 'a'\nQR = 'ab'\n@frag [ \\n]+ @discard\n"))
				cc.Kind += ":overlap"
			}
			cases = append(cases, cc)
		case x < 97: // Go package variants, two at once or over stale output of another grammar
			v := goVariants[variant%len(goVariants)]
			variant++
			cc := base(v.kind, miniLox, miniGo)
			v.apply(cc, "PKG")
			if r.Chance(1, 2) {
				v2 := Pick(r, goVariants)
				v2.apply(cc, "PKG")
				cc.Kind += "+" + strings.TrimPrefix(v2.kind, "go:")
			}
			if r.Chance(1, 3) && len(stale) > 0 {
				for g, txt := range stale {
					if _, has := cc.get(g); !has {
						cc.put(g, []byte(txt))
					}
				}
				cc.Kind += "+stale-other-grammar"
			}
			cases = append(cases, cc)
		default: // command line shapes
			cc := base("args", miniLox, miniGo)
			switch r.Intn(7) {
			case 0:
				cc.Args = []string{"<dir>/does-not-exist"}
				cc.Kind = "args:missing-dir"
			case 1:
				cc.Args = []string{"<dir>/g.lox"}
				cc.Kind = "args:file-not-dir"
			case 2:
				cc.Args = []string{}
				cc.Args = append(cc.Args, "--report")
				cc.Kind = "args:no-path"
			case 3:
				cc.Args = []string{"<dir>", "<dir>"}
				cc.Kind = "args:two-paths"
			case 4:
				cc.Args = []string{"--nope", "<dir>"}
				cc.Kind = "args:unknown-flag"
			case 5:
				cc.Args = []string{"."}
				cc.Cwd = "<dir>"
				cc.Kind = "args:dot"
			case 6:
				cc.Args = []string{"--report", "<dir>/"}
				cc.Kind = "args:report-trailing-slash"
			}
			cases = append(cases, cc)
		}
		_ = k
	}
	return cases
}

func substPKG(c *cliCase, pkg string) {
	for _, n := range c.names() {
		if !strings.HasSuffix(n, ".go") {
			continue
		}
		if s, ok := c.Files[n]; ok && strings.Contains(s, "PKG") {
			c.Files[n] = strings.ReplaceAll(s, "PKG", pkg)
		}
	}
}

func init() {
	register("cli_fuzz", "C12: the real lox command as a subprocess on mutated specifications and Go packages (oracle: exit 0 => three files + compiles; exit != 0 => diagnostic; never panic/hang)", func(c *Ctx) {
		root, err := os.MkdirTemp("", "verif-cli-")
		if err != nil {
			panic(err)
		}
		defer os.RemoveAll(root)
		WriteModule(root)
		bin, err := buildCLI(root)
		if err != nil {
			c.EmitO("# cli build", "build-failed", "C12: the lox command does not build: "+strings.ReplaceAll(err.Error(), "\n", " ⏎ "))
			return
		}
		t1, t2 := 30*time.Second, 180*time.Second
		par := 16

		var cases []*cliCase
		if c.Replay != nil {
			for _, l := range c.Replay {
				l = strings.TrimSpace(strings.TrimPrefix(l, "cli "))
				var cc cliCase
				if err := json.Unmarshal([]byte(l), &cc); err != nil {
					c.EmitO("# cli bad replay line", "bad", "")
					continue
				}
				cases = append(cases, &cc)
			}
		} else {
			cases = append(cases, loadCLIWitnesses(c.Args, c.Tier)...)
			// stale output of a different grammar and package name, used by some variants
			stale := map[string]string{}
			{
				sd := filepath.Join(root, "stale0")
				sc := &cliCase{}
				sc.put("g.lox", []byte("@lexer\nX = 'x'\nY = [0-9]+ @push_mode(Q)\n@mode Q {\nZ = 'z' @pop_mode\n}\n@parser\n@start top = X Y Z?\n"))
				sc.put("p.go", []byte("package stalepkg\n\ntype Token struct{}\n\ntype pp struct{ lox }\n\nfunc (p *pp) on_top(x, y, z Token) string { return \"\" }\n"))
				sc.write(sd)
				res := runCLI(bin, []string{sd}, root, t2)
				if res.Exit == 0 {
					for _, g := range genNames {
						b, _ := os.ReadFile(filepath.Join(sd, g))
						stale[g] = string(b)
					}
				}
				os.RemoveAll(sd)
			}
			cases = append(cases, genCLICases(c, c.N, stale)...)
		}
		jobs := make([]*cliJob, len(cases))
		for i, cc := range cases {
			pkg := pkgNameOf(i)
			substPKG(cc, pkg)
			jobs[i] = &cliJob{idx: i, c: cc, dir: filepath.Join(root, pkg)}
		}
		runCLIJobs(bin, jobs, par, t1, t2)
		fails := compileBatch(root, jobs)
		var maxDur time.Duration
		for _, j := range jobs {
			verd := j.verd
			if verd == "" {
				if f, bad := fails[filepath.Base(j.dir)]; bad {
					verd = "exit 0 but the generated package does not compile: " + f
				}
			}
			if verd == "" && j.c.Expect == "diagnostic" && j.res.Exit == 0 {
				verd = "specification accepted although it must be rejected"
			}
			if verd == "" && j.c.Expect == "success" && j.res.Exit != 0 {
				verd = "specification rejected although it must be accepted: " + firstLines(j.res.Stderr, 6)
			}
			outcome := fmt.Sprintf("exit=%d", j.res.Exit)
			if j.res.Exit != 0 {
				outcome += " " + trunc(firstLines(j.res.Stderr, 1), 160)
			}
			oracle := ""
			if verd != "" {
				tag := "C12"
				if j.c.ID != "" {
					tag = "WITNESS " + j.c.ID
				}
				oracle = tag + ": " + verd + " | case: " + j.c.json()
				c.Count("violations")
			}
			label := j.c.Kind
			if j.c.ID != "" {
				label = "witness " + j.c.ID
			}
			line := fmt.Sprintf("# cli %d %s => %s", j.idx, label, outcome)
			line = strings.Map(func(r rune) rune {
				if r == '\n' || r == '\r' {
					return ' '
				}
				return r
			}, line)
			c.EmitO(line, line, oracle)
			// distribution
			kind := j.c.Kind
			if i := strings.Index(kind, ":"); i > 0 && !strings.HasPrefix(kind, "go:") && !strings.HasPrefix(kind, "whole:") && !strings.HasPrefix(kind, "args:") {
				c.Count("kind:" + kind[:i])
				c.Count("mutation:" + kind[i+1:])
			} else {
				c.Count("kind:" + strings.SplitN(kind, ":", 2)[0])
			}
			switch {
			case j.res.TimedOut:
				c.Count("outcome:timeout")
			case j.res.Exit == 0:
				c.Count("outcome:exit0-generated")
			default:
				c.Count("outcome:rejected")
				d := firstLines(j.res.Stderr, 1)
				if i := strings.LastIndex(d, ": "); i >= 0 && i+2 < len(d) {
					d = d[i+2:]
				}
				d = regexp.MustCompile(`['"][^'"]*['"]|\d+`).ReplaceAllString(d, "_")
				c.Count("diag:" + trunc(d, 60))
			}
			if j.slow {
				c.Count("needed-long-timeout")
			}
			if j.res.Dur > maxDur {
				maxDur = j.res.Dur
			}
			var h strings.Builder
			for _, n := range j.c.names() {
				b, _ := j.c.get(n)
				h.WriteString(n + "\x00" + string(b) + "\x00")
			}
			h.WriteString(strings.Join(j.c.Args, " "))
			c.Distinct(h.String())
		}
		{
			// where the time goes: total seconds by kind prefix and the number of runs that needed more than a second
			byKind := map[string]float64{}
			slow := 0
			for _, j := range jobs {
				k := strings.SplitN(j.c.Kind, ":", 2)[0]
				byKind[k] += j.res.Dur.Seconds()
				if j.res.Dur > time.Second {
					slow++
				}
			}
			for k, v := range byKind {
				byKind[k] = float64(int(v*10)) / 10
			}
			sorted := append([]*cliJob(nil), jobs...)
			sort.Slice(sorted, func(a, b int) bool { return sorted[a].res.Dur > sorted[b].res.Dur })
			var top []string
			for _, j := range sorted {
				if len(top) == 12 {
					break
				}
				top = append(top, fmt.Sprintf("%s %.1fs", j.c.Kind, j.res.Dur.Seconds()))
			}
			c.Extra["slowest_runs"] = top
			c.Extra["cli_seconds_by_kind"] = byKind
			c.Extra["runs_over_1s"] = slow
		}
		c.Extra["max_duration_s"] = maxDur.Seconds()
		c.Extra["timeouts_s"] = []float64{t1.Seconds(), t2.Seconds()}
	})
}
