//go:build verif

package dfa

import (
	"github.com/dcaiafa/lox/internal/base/set"
	"github.com/dcaiafa/lox/internal/base/stack"
	"github.com/dcaiafa/lox/internal/lexergen/nfa"
)

// Export file of the verification harness (family lexmodel): it makes the stages of NFAToDFA
// observable separately. It calls the package's own eClosure, getInputs, sig, transitiveClosure and
// optimize. The worklist loop between them is written inline in NFAToDFA and therefore has to be
// repeated here, VERBATIM; the harness checks on every case that
// VerifOptimize(VerifSubset(n)) is identical to NFAToDFA(n), so a drift of this copy is detected.

// VerifSubset is NFAToDFA without the final optimize.
func VerifSubset(n *nfa.State) *DFA {
	states := make(map[string]*State)

	start := eClosure(set.New[*nfa.State](n))
	states[start.sig()] = start

	var stack stack.Stack[*State]
	stack.Push(start)
	for !stack.Empty() {
		from := stack.Pop()

		inputs := getInputs(from.NFAStates)
		inputs.ForEach(func(input any) {
			var subset set.Set[*nfa.State]
			for _, fromNFA := range from.NFAStates {
				for _, toNFA := range fromNFA.Transitions.GetOrZero(input).Elements() {
					subset.Add(toNFA)
				}
			}
			to := eClosure(subset)
			toSig := to.sig()
			if existing := states[toSig]; existing != nil {
				from.AddTransition(existing, input)
			} else {
				states[toSig] = to
				from.AddTransition(to, input)
				stack.Push(to)
			}
		})
	}

	return &DFA{
		States: transitiveClosure(start),
	}
}

// VerifOptimize is optimize.
func VerifOptimize(d *DFA) { optimize(d) }
