//go:build verif

package parser

import (
	"bytes"
	gotoken "go/token"
	"regexp"
	"strconv"

	"github.com/dcaiafa/lox/internal/base/errlogger"
)

// Exports of the unexported text -> value helpers of parser.go for the correspondence family
// `fronttext` (/verif/harness/drv/ops_fronttext.go; Lean model Lox/Dec/FrontText.lean).
// Injected as verif_fronttext.go by bin/build-harness.
//
// Every wrapper re-slices its argument to capacity = length: Go checks slice expressions against
// the capacity, and the model takes the tightest case.

func verifTight(b []byte) []byte {
	c := make([]byte, len(b))
	copy(c, b)
	return c[:len(c):len(c)]
}

// verifCap returns b with the bytes of cap behind it, inside its capacity.
func verifCap(b, cap []byte) []byte {
	buf := make([]byte, 0, len(b)+len(cap))
	buf = append(buf, b...)
	buf = append(buf, cap...)
	return buf[:len(b):len(buf)]
}

func VerifUnescapeCap(b, cap []byte) (s string, panicked bool) {
	defer func() {
		if recover() != nil {
			s, panicked = "", true
		}
	}()
	return unescape(verifCap(b, cap)), false
}

func VerifFixLiteralCap(b, cap []byte) (s string, panicked bool) {
	defer func() {
		if recover() != nil {
			s, panicked = "", true
		}
	}()
	return fixLiteral(verifCap(b, cap)), false
}

func VerifUnescape(b []byte) (s string, panicked bool) {
	defer func() {
		if recover() != nil {
			s, panicked = "", true
		}
	}()
	return unescape(verifTight(b)), false
}

func VerifHexToRune(str string) (r rune, panicked bool) {
	defer func() {
		if recover() != nil {
			r, panicked = 0, true
		}
	}()
	return hexToRune(str), false
}

func VerifFixLiteral(b []byte) (s string, panicked bool) {
	defer func() {
		if recover() != nil {
			s, panicked = "", true
		}
	}()
	return fixLiteral(verifTight(b)), false
}

var verifColRe = regexp.MustCompile(`(?m)^[^:\n]*:1:(\d+): `)

// VerifCheckEscapes runs checkEscapes on a token with text b and returns the byte offsets
// (inside the token) of the diagnostics it printed.
func VerifCheckEscapes(b []byte) (offsets []int, panicked bool) { return VerifCheckEscapesCap(b, nil) }

func VerifCheckEscapesCap(b, cap []byte) (offsets []int, panicked bool) {
	defer func() {
		if recover() != nil {
			offsets, panicked = nil, true
		}
	}()
	fset := gotoken.NewFileSet()
	file := fset.AddFile("t.lox", -1, len(b)+1) // no line table: column = offset + 1
	var out bytes.Buffer
	p := &parser{file: file, errs: errlogger.New(fset, &out)}
	p.checkEscapes(Token{Type: LITERAL, Str: verifCap(b, cap), Pos: gotoken.Pos(file.Base())})
	for _, m := range verifColRe.FindAllStringSubmatch(out.String(), -1) {
		col, _ := strconv.Atoi(m[1])
		offsets = append(offsets, col-1)
	}
	return offsets, false
}

// VerifQualif runs on_parser_qualif with `@left ( <b> )`.
func VerifQualif(b []byte) (prec int, diag bool, panicked bool) {
	defer func() {
		if recover() != nil {
			prec, diag, panicked = 0, false, true
		}
	}()
	fset := gotoken.NewFileSet()
	file := fset.AddFile("t.lox", -1, len(b)+1)
	var out bytes.Buffer
	p := &parser{file: file, errs: errlogger.New(fset, &out)}
	q := p.on_parser_qualif(Token{Type: LEFT}, Token{Type: OPAREN}, Token{Type: NUM, Str: verifTight(b), Pos: gotoken.Pos(file.Base())}, Token{Type: CPAREN})
	if p.errs.HasError() {
		return 0, true, false
	}
	return q.Precedence, false, false
}
