//go:build verif

// Verification exports for the conflict-resolution step (properties C04/C05).
// Injected into package lr1 as verif_resolve.go by /verif/bin/build-harness; nothing here
// re-implements lox logic: the action cells are filled through the real
// ActionMap.AddShift/AddReduce/AddAccept and resolved by the real unexported resolveConflicts.
package lr1

import (
	"fmt"

	"github.com/dcaiafa/lox/internal/base/array"
	"github.com/dcaiafa/lox/internal/base/set"
	"slices"
)

// VerifProdInfo describes production i of the synthetic grammar (i = position in the slice).
type VerifProdInfo struct {
	Rule  int  // rule number (0,1,2,…); productions with equal numbers share one *Rule
	Prec  int  // Prod.Precedence; 0 = no qualifier
	Right bool // Prod.Associativity == Right
}

// VerifAction is one action of a cell, or (on input) one run of Add* calls:
// Kind 's': AddShift(terminal, state Target, prod p) for every p of Prods, in order;
// Kind 'r': AddReduce(terminal, prod Prods[0]);  Kind 'a': AddAccept(terminal).
type VerifAction struct {
	Kind   byte
	Target int
	Prods  []int
}

// VerifResolve builds a grammar with the given productions and a ParserTable holding cell i
// at (state i/2, terminal "t0"/"t1" for i%2), fills the cells through the real
// AddShift/AddReduce/AddAccept in the given order, runs the real resolveConflicts and reads
// the action arrays back in stored order. A cell given as an empty slice becomes an empty
// action array (not reachable through createActions; resolveConflicts asserts on it).
// Panics of the real code propagate.
func VerifResolve(infos []VerifProdInfo, cells [][]VerifAction) (out [][]VerifAction, hasConflicts bool) {
	g := NewGrammar()
	terms := []*Terminal{g.AddTerminal("t0"), g.AddTerminal("t1")}
	rules := map[int]*Rule{}
	prods := make([]*Prod, len(infos))
	index := map[*Prod]int{}
	for i, in := range infos {
		r := rules[in.Rule]
		if r == nil {
			r = g.AddRule(fmt.Sprintf("r%d", in.Rule))
			rules[in.Rule] = r
		}
		p := g.AddProd(r)
		verifSetInt(&p.Precedence, in.Prec)
		if in.Right {
			p.Associativity = Right
		}
		prods[i] = p
		index[p] = i
	}
	nStates := (len(cells) + 1) / 2
	for _, c := range cells {
		for _, a := range c {
			if a.Kind == 's' && a.Target+1 > nStates {
				nStates = a.Target + 1
			}
		}
	}
	t := NewParserTable(g)
	for i := 0; i < nStates; i++ {
		t.AddState(fmt.Sprintf("k%06d", i), new(ItemSet))
	}
	for i, c := range cells {
		am := t.Actions(t.States[i/2])
		term := terms[i%2]
		if len(c) == 0 {
			am.getMap()[term] = new(array.Array[*Action])
		}
		for _, a := range c {
			switch a.Kind {
			case 's':
				for _, p := range a.Prods {
					am.AddShift(term, t.States[a.Target], prods[p])
				}
			case 'r':
				am.AddReduce(term, prods[a.Prods[0]])
			case 'a':
				am.AddAccept(term)
			default:
				panic("verif: bad action kind")
			}
		}
	}

	resolveConflicts(t)

	for i := range cells {
		out = append(out, verifReadCell(t.Actions(t.States[i/2]).Get(terms[i%2]), func(p *Prod) int { return index[p] }))
	}
	return out, t.HasConflicts
}

func verifReadCell(actions *array.Array[*Action], prodIndex func(*Prod) int) []VerifAction {
	res := []VerifAction{}
	for _, a := range actions.Elements() {
		va := VerifAction{}
		switch a.Type {
		case ActionShift:
			va.Kind = 's'
			va.Target = a.ShiftState.Index
		case ActionReduce:
			va.Kind = 'r'
		case ActionAccept:
			va.Kind = 'a'
		}
		for _, p := range a.Prods {
			va.Prods = append(va.Prods, prodIndex(p))
		}
		res = append(res, va)
	}
	return res
}

// VerifConstructNoResolve is ConstructLALR (construct.go) with the final resolveConflicts(t)
// call left out: the same loop over the package's own NewParserTable/Closure/Goto/Next and
// the real createActions. It exists to observe the action cells (in particular shift.Prods)
// exactly as resolveConflicts receives them.
func VerifConstructNoResolve(g *Grammar) *ParserTable {
	t := NewParserTable(g)

	start := new(ItemSet)
	start.Add(Item{Prod: sPrimeProdIndex, Dot: 0, Lookahead: eofIndex})
	start = Closure(g, start)
	startKey := start.LR0Key()
	t.AddState(startKey, start)

	pendingSet := set.New[string](startKey)
	for !pendingSet.Empty() {
		pending := pendingSet.Elements()
		slices.Sort(pending)
		pendingSet.Clear()
		for _, fromKey := range pending {
			from := t.GetStateByKey(fromKey)
			for _, sym := range Next(g, *from) {
				changed := false
				to := Goto(g, from, sym)
				toKey := to.LR0Key()
				existingTo := t.GetStateByKey(toKey)
				if existingTo != nil {
					for _, item := range to.Items() {
						changed = existingTo.Add(item) || changed
					}
					t.Transitions(from).Add(sym, existingTo)
				} else {
					t.AddState(toKey, to)
					t.Transitions(from).Add(sym, to)
					changed = true
				}
				if changed {
					pendingSet.Add(toKey)
				}
			}
		}
	}

	createActions(t)
	return t
}

// VerifCell is one (state, terminal) entry of a table.
type VerifCell struct {
	State    int
	Terminal string
	Actions  []VerifAction // production numbers are Prod.Index (S' = 0)
}

// VerifCells lists every action cell of t in resolveConflicts' iteration order
// (states by index, terminals by name).
func VerifCells(t *ParserTable) []VerifCell {
	var res []VerifCell
	for _, state := range t.States {
		am := t.Actions(state)
		for _, term := range am.Terminals() {
			res = append(res, VerifCell{State: state.Index, Terminal: term.Name,
				Actions: verifReadCell(am.Get(term), func(p *Prod) int { return p.Index })})
		}
	}
	return res
}

// verifSetInt stores v whatever integer type the field has (keeps the harness compiling across
// harmless type refactors of the field).
func verifSetInt[T ~int | ~int8 | ~int16 | ~int32 | ~int64 | ~uint | ~uint8 | ~uint16 | ~uint32 | ~uint64](dst *T, v int) {
	*dst = T(v)
}

// VerifSetPrec is verifSetInt for a production's precedence, for use outside the package.
func VerifSetPrec(p *Prod, v int) { verifSetInt(&p.Precedence, v) }
