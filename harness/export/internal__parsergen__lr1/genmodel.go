//go:build verif

// Verification export for the model of createActions (Lox/LR/GenModel.lean, family genmodel).
// Injected into package lr1 as verif_genmodel.go by /verif/bin/build-harness. Nothing here
// re-implements lox logic: a ParserTable is set up with one state holding the given items and the
// given terminal transitions, and the real unexported createActions fills its action cells.
package lr1

import "sort"

// VerifTermCell is the action cell of one terminal (by Terminal.Index).
type VerifTermCell struct {
	Terminal int
	Actions  []VerifAction // production numbers are Prod.Index
}

// VerifCreateActions runs the real createActions on a table whose state 0 holds `items` and has the
// terminal transitions `tr` (terminal index -> target state index; further empty states are added
// so that every target exists) and returns the cells of state 0, by terminal index, actions in
// stored order. Panics of the real code (index out of range, "no transition for input",
// "impossible … conflict") propagate.
func VerifCreateActions(g *Grammar, items []Item, tr map[int]int) []VerifTermCell {
	t := NewParserTable(g)
	st := new(ItemSet)
	for _, it := range items {
		st.Add(it)
	}
	t.AddState("k000000", st)
	maxTarget := 0
	for _, s := range tr {
		if s > maxTarget {
			maxTarget = s
		}
	}
	for i := 1; i <= maxTarget; i++ {
		t.AddState("k"+string(rune('A'+i%26))+itoa(i), new(ItemSet))
	}
	keys := make([]int, 0, len(tr))
	for a := range tr {
		keys = append(keys, a)
	}
	sort.Ints(keys)
	for _, a := range keys {
		t.Transitions(st).Add(g.Terminals[a], t.States[tr[a]])
	}

	createActions(t)

	am := t.Actions(st)
	var res []VerifTermCell
	for _, term := range am.Terminals() {
		res = append(res, VerifTermCell{Terminal: term.Index,
			Actions: verifReadCell(am.Get(term), func(p *Prod) int { return p.Index })})
	}
	sort.SliceStable(res, func(i, j int) bool { return res[i].Terminal < res[j].Terminal })
	return res
}

func itoa(i int) string {
	if i == 0 {
		return "0"
	}
	s := ""
	for i > 0 {
		s = string(rune('0'+i%10)) + s
		i /= 10
	}
	return s
}
