//go:build verif

package mode

import (
	gotoken "go/token"

	"github.com/dcaiafa/lox/internal/base/errlogger"
	"github.com/dcaiafa/lox/internal/lexergen/dfa"
	"github.com/dcaiafa/lox/internal/lexergen/nfa"
)

// Export file of the verification harness (family lexmodel): the steps of ModeBuilder.Build one
// by one. Only VerifStart repeats code (the first four statements of Build); everything else is a
// call of the package's own function.

// VerifStart creates the start state of the mode NFA exactly as Build does.
func VerifStart(m *ModeBuilder) *nfa.State {
	start := m.StateFactory.NewState()
	for _, rule := range m.Rules {
		start.AddTransition(rule.B, nfa.Epsilon)
	}
	return start
}

func VerifNormalizeInputs(s *nfa.State)  { normalizeInputs(s) }
func VerifSplitStartState(d *dfa.DFA)    { splitStartState(d) }
func VerifMergeTransitions(d *dfa.DFA)   { mergeTransitions(d) }
func VerifPickAction(m *ModeBuilder, errs *errlogger.ErrLogger, fset *gotoken.FileSet, s *dfa.State) *Actions {
	return m.pickAction(errs, fset, s)
}
