//go:build verif

package codegen

import (
	gotoken "go/token"

	"github.com/dcaiafa/lox/internal/base/errlogger"
	"github.com/dcaiafa/lox/internal/lexergen/mode"
)

// Export of the verification harness (family lexemit, /verif/harness/drv/ops_lexemit.go).
// Injected as verif_lexemit.go by bin/build-harness.

// VerifEmitLexer runs the package's own (*context).EmitLexer on the given modes (the result of
// ast.Context.Analyze: LexerDFAs) and writes lexer.gen.go into dir, so that the harness can dump
// the very DFA objects whose `mode_table` it reads back. Nothing of EmitLexer is repeated here.
func VerifEmitLexer(fset *gotoken.FileSet, errs *errlogger.ErrLogger, dir string, modes map[string]*mode.Mode) bool {
	c := &context{
		Fset:          fset,
		Errs:          errs,
		Dir:           dir,
		GoPackageName: "lexemit",
		GoPackagePath: "lexemit",
		LexerModes:    modes,
	}
	return c.EmitLexer()
}
