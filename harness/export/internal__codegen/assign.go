//go:build verif

package codegen

import (
	"fmt"
	gotypes "go/types"

	"github.com/dcaiafa/lox/internal/parsergen/lr1"
)

// Export of the state `AssignActions` works on, for the C06 correspondence family
// (/verif/harness/drv/ops_assign.go). Injected as verif_assign.go by bin/build-harness.
//
// VerifAssignView runs the stages of Generate that precede AssignActions on cfg.Dir (the same
// calls, in the same order, as codegen.Generate), hands out what they left in the context, then
// runs AssignActions itself and reports what it decided. The family takes the VERDICT and the
// diagnostics from the real codegen.Generate; this view only supplies the go/types universe that
// the decision was taken over and the binding that was chosen.

type VerifAssignState struct {
	Stage   string // first stage that failed ("" = AssignActions was reached)
	Panic   string
	Grammar *lr1.Grammar

	Pkg        *gotypes.Package
	TokenType  gotypes.Type
	ErrorType  gotypes.Type
	ParserType *gotypes.Named

	AssignOK      bool
	RuleGoTypes   map[*lr1.Rule]gotypes.Type
	ActionMethods map[*lr1.Prod]*gotypes.Func
	EmitBounds    bool
}

func VerifAssignView(cfg *Config) (st *VerifAssignState) {
	st = &VerifAssignState{}
	ctx := &context{
		Fset:   cfg.Fset,
		Errs:   cfg.Errs,
		Dir:    cfg.Dir,
		Report: cfg.Report,
	}
	defer func() {
		if e := recover(); e != nil {
			st.Panic = fmt.Sprint(e)
		}
	}()
	stages := []struct {
		name string
		run  func() bool
	}{
		{"ParseLox", ctx.ParseLox},
		{"PreParseGo", ctx.PreParseGo},
		{"EmitBase", ctx.EmitBase},
		{"EmitLexer", ctx.EmitLexer},
		{"ParseGo", ctx.ParseGo},
	}
	for _, s := range stages {
		st.Stage = s.name
		if !s.run() {
			return st
		}
	}
	st.Stage = ""
	st.Grammar = ctx.ParserGrammar
	st.TokenType = ctx.TokenType
	st.ErrorType = ctx.ErrorType
	st.ParserType = ctx.ParserType
	if ctx.ParserType != nil {
		st.Pkg = ctx.ParserType.Obj().Pkg()
	}
	st.AssignOK = ctx.AssignActions()
	st.RuleGoTypes = ctx.RuleGoTypes
	st.EmitBounds = ctx.EmitBounds
	st.ActionMethods = map[*lr1.Prod]*gotypes.Func{}
	for p, m := range ctx.ActionMethods {
		st.ActionMethods[p] = m.Method
	}
	return st
}
