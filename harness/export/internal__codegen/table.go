//go:build verif

package codegen

import "fmt"

// Exports of the unexported row-compressed table (table.go) for the correspondence
// harness (/verif/harness/drv/ops_table.go). Injected as verif_table.go by bin/build-harness.

func verifBuildTable[E int32 | uint32](idx []int, rows [][]E) (arr []E, panicked string) {
	defer func() {
		if r := recover(); r != nil {
			arr = nil
			panicked = fmt.Sprint(r)
			if panicked == "" {
				panicked = "panic"
			}
		}
	}()
	t := newTable[E]()
	for i := range rows {
		t.AddRow(idx[i], rows[i])
	}
	return t.Array(), ""
}

// VerifBuildTableInt32 runs newTable[int32], AddRow(idx[i], rows[i]) in order, Array().
// panicked is the panic value (non-empty) when any step panicked.
func VerifBuildTableInt32(idx []int, rows [][]int32) (arr []int32, panicked string) {
	return verifBuildTable[int32](idx, rows)
}

// VerifBuildTableUint32 is the uint32 twin (the instantiation used for lexer mode tables).
func VerifBuildTableUint32(idx []int, rows [][]uint32) (arr []uint32, panicked string) {
	return verifBuildTable[uint32](idx, rows)
}

// VerifRowKeyInt32 is (*table[int32]).rowKey.
func VerifRowKeyInt32(row []int32) []byte {
	return []byte(newTable[int32]().rowKey(row))
}

// VerifRowKeyUint32 is (*table[uint32]).rowKey.
func VerifRowKeyUint32(row []uint32) []byte {
	return []byte(newTable[uint32]().rowKey(row))
}

// VerifTableString is (*table[uint32]).String(), the text mode_table puts into the generated file.
func VerifTableStringUint32(idx []int, rows [][]uint32) (s string, panicked string) {
	defer func() {
		if r := recover(); r != nil {
			s = ""
			panicked = fmt.Sprint(r)
		}
	}()
	t := newTable[uint32]()
	for i := range rows {
		t.AddRow(idx[i], rows[i])
	}
	return t.String(), ""
}
